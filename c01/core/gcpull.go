// C01 — two operand dimensions added after the round-3 seeded changes.
//
//  1. Error flavours. The injected failures Errs[1..4] are, depending on the visit number of the
//     check, private sentinels (as before), the library's OWN exported sentinel errors, errors that
//     wrap them (%w, errors.Join, fp.Error with a cause) or a mix: a combinator that inspects the
//     error it passes on (errors.Is against fp.ErrOptionEmpty to recognise "its own" failure) is
//     visible only when the USER's failure is, or wraps, such a sentinel. Identity stays pointer
//     identity. The flavour is a function of the visit number alone (no PRNG draw).
//  2. Pull-based Iterator operands. Wherever an Iterator operand is built, one visit in 32 (value monads: one in six) builds
//     it from iter.Seq (iterator.Pull, fp.MakePullIterator) or from a Go map (iterator.FromMapValue,
//     FromMap, fp.IteratorOfGoMap; ordered operands: at most one entry), forces two garbage
//     collections (finalizers run) before the operand is handed to the combinator, and one more pair
//     in the middle of the consumption.
package core

import (
	"errors"
	"fmt"
	"iter"
	"os"
	"runtime"
	"time"

	"github.com/csgura/fp"
	"github.com/csgura/fp/iterator"
	"github.com/csgura/fp/reflectfp"
)

// ---- error flavours ---------------------------------------------------------------------------

var baseErrs = []error{nil, Errs[1], Errs[2], Errs[3], Errs[4]}

var libErrs = []error{nil, fp.ErrOptionEmpty, fp.ErrTryNotFailed, fp.ErrFutureNotFailed, reflectfp.ErrInvalidType}

var errFlavours = func() [][]error {
	wrapped := []error{nil}
	joined := []error{nil}
	for k := 1; k <= 4; k++ {
		wrapped = append(wrapped, fmt.Errorf("user step %d: %w", k, libErrs[k]))
		joined = append(joined, errors.Join(baseErrs[k], libErrs[k]))
	}
	optionEmpty := []error{nil,
		fp.Error(404, "lookup failed: %v", fp.ErrOptionEmpty), // cause = ErrOptionEmpty (Unwrap)
		fmt.Errorf("user: %w", fp.ErrOptionEmpty),
		fp.ErrOptionEmpty,
		errors.Join(fp.ErrOptionEmpty, baseErrs[4]),
	}
	mixed := []error{nil, baseErrs[1], fp.ErrTryNotFailed, fmt.Errorf("user: %w", fp.ErrFutureNotFailed), errors.Join(fp.ErrOptionEmpty)}
	return [][]error{baseErrs, libErrs, baseErrs, wrapped, optionEmpty, joined, mixed}
}()

var errFlavourNames = []string{"private", "library-sentinels", "private", "wrapping-library-sentinels", "option-empty-related", "joined-with-library-sentinels", "mixed"}

// SetErrFlavour installs the failure values of the case (called by RunCheck before the case).
func SetErrFlavour(rot int) string {
	if rot < 0 {
		rot = -rot
	}
	f := rot % len(errFlavours)
	copy(Errs, errFlavours[f])
	return errFlavourNames[f]
}

// FailName: how failure index k is shown. fp.ErrOptionEmpty has one name whether the library
// produced it (try.FromOption on None) or the user function returned it.
func FailName(k int) int {
	if k > 0 && k < len(Errs) && Errs[k] == error(fp.ErrOptionEmpty) {
		return FailOptionEmpty
	}
	return k
}

// ---- forced garbage collection -------------------------------------------------------------------

type gcProbe struct{ p *int }

// noGC (VERIF_C01_NOGC=1): timing aid only, never set by ./check
var noGC = os.Getenv("VERIF_C01_NOGC") == "1"

//go:noinline
func armProbe(done chan struct{}) {
	s := &gcProbe{p: new(int)}
	runtime.SetFinalizer(s, func(*gcProbe) { close(done) })
}

// ForceGC runs the collector twice and waits (bounded) after each cycle until a finalizer armed
// right before that cycle has run: when it returns, the finalizers of everything that was
// unreachable at the first cycle have run (the finalizer goroutine works its queue batch by
// batch; the second probe is queued after the batch that held the first). The wait is not part of
// any verdict.
func ForceGC() bool {
	if c := Cur; c != nil {
		if c.NGC >= MaxGCPerCase {
			return false
		}
		c.NGC++
	}
	if noGC {
		return false
	}
	for k := 0; k < 2; k++ {
		done := make(chan struct{})
		armProbe(done)
		runtime.GC()
		select {
		case <-done:
		case <-time.After(200 * time.Millisecond):
			if c := Cur; c != nil {
				c.W.Add("gc.probe-finalizer-not-seen-within-200ms", 1)
			}
		}
	}
	if c := Cur; c != nil {
		c.W.Add("gc.forced-double-collections."+c.P.Pkg, 1)
	}
	return true
}

// MaxGCPerCase: a forced double collection costs ~10 ms CPU on a loaded machine (the worker's heap
// holds the fingerprints of all earlier cases); a case forces at most this many.
const MaxGCPerCase = 2

// ---- pull-based operands -----------------------------------------------------------------------

// seqOfSlice is an iter.Seq over a private copy of s; with midGC it forces a collection before
// the second element is produced (in the middle of the consumption, inside the coroutine).
func seqOfSlice[T any](s []T, midGC bool) iter.Seq[T] {
	cp := append([]T{}, s...)
	return func(yield func(T) bool) {
		for i, v := range cp {
			if midGC && i == 1 {
				ForceGC()
			}
			if !yield(v) {
				return
			}
		}
	}
}

// PullIter builds an Iterator over s from a pull-based or Go-map-based constructor (variant v) and
// forces the collector before handing it out.
func PullIter[T any](s []T, v int) fp.Iterator[T] {
	var it fp.Iterator[T]
	kind := ""
	if v < 0 {
		v = -v
	}
	if len(s) <= 1 && v%2 == 1 {
		// Go-map backed; ordered operands allow at most one entry
		m := map[int]T{}
		for i, x := range s {
			m[i+7] = x
		}
		second := func(t fp.Tuple2[int, T]) T { return t.I2 }
		switch (v / 2) % 3 {
		case 0:
			it, kind = iterator.FromMapValue(m), "iterator.FromMapValue"
		case 1:
			it, kind = iterator.Map(iterator.FromMap(m), second), "iterator.FromMap"
		default:
			it, kind = iterator.Map(fp.IteratorOfGoMap(m), second), "fp.IteratorOfGoMap"
		}
	} else {
		switch (v / 2) % 3 {
		case 0:
			it, kind = iterator.Pull(seqOfSlice(s, false)), "iterator.Pull"
		case 1:
			it, kind = iterator.Pull(seqOfSlice(s, true)), "iterator.Pull+gc-inside-source"
		default:
			it, kind = fp.MakePullIterator(seqOfSlice(s, len(s) > 3)), "fp.MakePullIterator"
		}
	}
	if !ForceGC() {
		return it
	}
	if c := Cur; c != nil {
		c.GCObs = true
		c.W.Add("gc.pull-operands."+c.P.Pkg, 1)
		c.W.Hit("gc-source:" + kind)
		if len(s) >= 2 {
			c.W.Add("gc.pull-operands-with-two-or-more-elements."+c.P.Pkg, 1)
		}
		c.Note("iterator operand built by %s, two forced collections before use", kind)
	}
	return it
}

// PullVisit: does this visit of the check use pull-based Iterator operands? n distinguishes the
// operands of one case (descriptor variant / running number).
func PullVisit(n int) (int, bool) { return pullVisit(n, 32) }

func pullVisit(n, every int) (int, bool) {
	c := Cur
	if c == nil || c.NPull >= MaxPullPerCase {
		return 0, false
	}
	x := c.Rot + n
	if x < 0 {
		x = -x
	}
	if x%every != every-1 {
		return 0, false
	}
	c.NPull++
	return x / every, true
}

// MaxPullPerCase bounds the forced collections of one case (a Kleisli arrow that returns Iterators
// builds one operand per element).
const MaxPullPerCase = 1

// IterOf: the Iterator operand over s handed to Traverse / SequenceIterator / FoldM of the value
// monads: iterator.FromSeq as before, or a pull-based constructor (see PullIter).
func IterOf[T any](s fp.Seq[T]) fp.Iterator[T] {
	if c := Cur; c != nil {
		c.NIter++
		if v, ok := pullVisit(c.NIter, 6); ok { // few such sites per package: one visit in six
			return PullIter(s, v)
		}
	}
	return iterator.FromSeq(s)
}

// MidGC is called by the observers of Iterator results after the first element: one forced double
// collection per case that built a pull-based operand.
func MidGC() {
	if c := Cur; c != nil && c.GCObs {
		c.GCObs = false
		if ForceGC() {
			c.W.Add("gc.mid-consumption."+c.P.Pkg, 1)
		}
	}
}

// GCSourceKinds: hit names (floors) of the pull-based constructors.
var GCSourceKinds = []string{"iterator.FromMapValue", "iterator.FromMap", "fp.IteratorOfGoMap", "iterator.Pull", "iterator.Pull+gc-inside-source", "fp.MakePullIterator"}
