// C01 — builders (descriptor -> library value through the package's own constructors) and
// observers (library value -> canonical string) for Option, Try, Either, StateT.
package core

import (
	"strconv"
	"strings"

	"github.com/csgura/fp"
	"github.com/csgura/fp/either"
	"github.com/csgura/fp/option"
	"github.com/csgura/fp/statet"
	"github.com/csgura/fp/try"
)

// ---- Option ---------------------------------------------------------------------------------

func BuildOption[T any](d Opd, conv func(int) T) fp.Option[T] {
	v, k, _ := d.At(0)
	if k != 0 {
		switch d.V % 3 {
		case 0:
			return option.None[T]()
		case 1:
			return fp.Option[T]{} // zero value
		}
		return fp.None[T]()
	}
	switch d.V % 3 {
	case 0:
		return option.Some(conv(v))
	case 1:
		return fp.Some(conv(v))
	}
	return option.Pure(conv(v))
}

func ObsOption[T any](m fp.Option[T], show func(T) string) string {
	if m.IsDefined() {
		return "ok(" + show(m.Get()) + ")@0"
	}
	return "F1@0"
}

// ---- Try --------------------------------------------------------------------------------------

func BuildTry[T any](d Opd, conv func(int) T) fp.Try[T] {
	v, k, _ := d.At(0)
	if k != 0 {
		if d.V%2 == 0 {
			return try.Failure[T](Errs[k])
		}
		return fp.Failure[T](Errs[k])
	}
	switch d.V % 3 {
	case 0:
		return try.Success(conv(v))
	case 1:
		return fp.Success(conv(v))
	}
	return try.Pure(conv(v))
}

func ObsTryRaw[T any](m fp.Try[T], show func(T) string) string {
	if m.IsSuccess() {
		return "ok(" + show(m.Get()) + ")"
	}
	return "F" + ErrIdx(m.Failed().Get())
}

func ObsTry[T any](m fp.Try[T], show func(T) string) string { return ObsTryRaw(m, show) + "@0" }

// ---- Either -----------------------------------------------------------------------------------

func BuildEither[T any](d Opd, conv func(int) T) fp.Either[Lft, T] {
	v, k, _ := d.At(0)
	if k != 0 {
		switch d.V % 3 {
		case 0:
			return either.Left[Lft, T](Lft{k})
		case 1:
			return either.NotRight[T](Lft{k})
		}
		return fp.Left[Lft, T](Lft{k})
	}
	switch d.V % 3 {
	case 0:
		return either.Right[Lft](conv(v))
	case 1:
		return fp.Right[Lft](conv(v))
	}
	return either.Pure[Lft](conv(v))
}

func ObsEither[T any](m fp.Either[Lft, T], show func(T) string) string {
	if m.IsRight() {
		return "ok(" + show(m.Get()) + ")@0"
	}
	return "F" + strconv.Itoa(m.Left().K) + "@0"
}

// ---- StateT -------------------------------------------------------------------------------------

func BuildStatet[T any](d Opd, conv func(int) T) fp.StateT[int, T] {
	if d.M == 0 && d.C1 == 0 && d.D == 0 && d.V%3 == 0 {
		return statet.Pure[int](conv(Md(d.C0)))
	}
	if d.M == 1 && d.D == 0 && d.V%3 == 0 {
		return statet.FromTry[int](try.Failure[T](Errs[d.K]))
	}
	if d.M == 0 && d.V%3 == 1 {
		return statet.Run(func(s int) (T, int) {
			v, _, ns := d.At(s)
			return conv(v), ns
		})
	}
	return func(s int) (fp.Try[T], int) {
		v, k, ns := d.At(s)
		if k != 0 {
			return fp.Failure[T](Errs[k]), ns
		}
		return fp.Success(conv(v)), ns
	}
}

// ObsStatet runs the program from every probe state and then once more from every probe state
// in reverse order (so every state is used twice and every run is followed by runs from
// different states). The observation handed back (and compared with the reference by the caller)
// is the one of the first pass, each run snapshotted at once. A repeated run must return what the
// first run from that state returned, and every result — kept as returned — must still read the
// same after all the later runs (see rerun.go).
func ObsStatet[T any](m fp.StateT[int, T], show func(T) string) string {
	probes := ProfStatet.Probes
	c := Cur
	raw := func(t fp.Try[T]) string { return ObsTryRaw(t, show) }
	if c != nil && !Reshowable[T]() {
		return obsStatetOnce(c, m, raw)
	}
	keep := Kept[fp.Try[T]]{}
	first := make([]string, len(probes))
	for i, s := range probes {
		t, ns := m(s)
		snap := raw(t)
		first[i] = snap + "@" + strconv.Itoa(ns)
		keep.Add("the run from state "+strconv.Itoa(s), t, snap)
	}
	if c != nil {
		for i := len(probes) - 1; i >= 0; i-- {
			t, ns := m(probes[i])
			snap := raw(t)
			keep.Add("the second run from state "+strconv.Itoa(probes[i]), t, snap)
			if again := snap + "@" + strconv.Itoa(ns); again != first[i] {
				c.Fail(KeyRerun, "the same StateT value run from state %d returned %s the first time and %s when run again (runs from other states in between)", probes[i], first[i], again)
				return strings.Join(first, ";")
			}
		}
		c.W.Add("rerun.runs."+c.P.Pkg, int64(len(probes)))
		keep.Recheck(c, raw)
	}
	return strings.Join(first, ";")
}

// obsStatetOnce: the result can be shown only once (an Iterator is consumed by showing it). The
// results of the first pass are kept unread while the program is run again from every probe state
// in reverse order (those results are read at once); only then the first-pass results are read:
// they are what the caller compares with the reference, and each must equal what the second run
// from the same state returned — otherwise a later run changed the storage behind it.
func obsStatetOnce[T any](c *Cas, m fp.StateT[int, T], raw func(fp.Try[T]) string) string {
	probes := ProfStatet.Probes
	ts := make([]fp.Try[T], len(probes))
	nss := make([]int, len(probes))
	for i, s := range probes {
		ts[i], nss[i] = m(s)
	}
	second := make([]string, len(probes))
	for i := len(probes) - 1; i >= 0; i-- {
		t, ns := m(probes[i])
		second[i] = raw(t) + "@" + strconv.Itoa(ns)
	}
	first := make([]string, len(probes))
	for i := range probes {
		first[i] = raw(ts[i]) + "@" + strconv.Itoa(nss[i])
	}
	c.W.Add("rerun.runs."+c.P.Pkg, int64(len(probes)))
	c.W.Add("rerun.read-after-later-runs."+c.P.Pkg, int64(len(probes)))
	for i := range probes {
		if first[i] != second[i] {
			c.Fail(KeyChanged, "the result of the first run from state %d, read after the later runs, is %s; a second run from the same state (read at once) gives %s: a later run changed the storage behind the earlier result, or the runs differ", probes[i], first[i], second[i])
			break
		}
	}
	return strings.Join(first, ";")
}
