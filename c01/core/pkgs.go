// C01 — builders (descriptor -> library value through the package's own constructors) and
// observers (library value -> canonical string) for Option, Try, Either, StateT.
package core

import (
	"strconv"
	"strings"

	"github.com/csgura/fp"
	"github.com/csgura/fp/either"
	"github.com/csgura/fp/option"
	"github.com/csgura/fp/statet"
	"github.com/csgura/fp/try"
)

// ---- Option ---------------------------------------------------------------------------------

func BuildOption[T any](d Opd, conv func(int) T) fp.Option[T] {
	v, k, _ := d.At(0)
	if k != 0 {
		switch d.V % 3 {
		case 0:
			return option.None[T]()
		case 1:
			return fp.Option[T]{} // zero value
		}
		return fp.None[T]()
	}
	switch d.V % 3 {
	case 0:
		return option.Some(conv(v))
	case 1:
		return fp.Some(conv(v))
	}
	return option.Pure(conv(v))
}

func ObsOption[T any](m fp.Option[T], show func(T) string) string {
	if m.IsDefined() {
		return "ok(" + show(m.Get()) + ")@0"
	}
	return "F1@0"
}

// ---- Try --------------------------------------------------------------------------------------

func BuildTry[T any](d Opd, conv func(int) T) fp.Try[T] {
	v, k, _ := d.At(0)
	if k != 0 {
		if d.V%2 == 0 {
			return try.Failure[T](Errs[k])
		}
		return fp.Failure[T](Errs[k])
	}
	switch d.V % 3 {
	case 0:
		return try.Success(conv(v))
	case 1:
		return fp.Success(conv(v))
	}
	return try.Pure(conv(v))
}

func ObsTryRaw[T any](m fp.Try[T], show func(T) string) string {
	if m.IsSuccess() {
		return "ok(" + show(m.Get()) + ")"
	}
	return "F" + ErrIdx(m.Failed().Get())
}

func ObsTry[T any](m fp.Try[T], show func(T) string) string { return ObsTryRaw(m, show) + "@0" }

// ---- Either -----------------------------------------------------------------------------------

func BuildEither[T any](d Opd, conv func(int) T) fp.Either[Lft, T] {
	v, k, _ := d.At(0)
	if k != 0 {
		switch d.V % 3 {
		case 0:
			return either.Left[Lft, T](Lft{k})
		case 1:
			return either.NotRight[T](Lft{k})
		}
		return fp.Left[Lft, T](Lft{k})
	}
	switch d.V % 3 {
	case 0:
		return either.Right[Lft](conv(v))
	case 1:
		return fp.Right[Lft](conv(v))
	}
	return either.Pure[Lft](conv(v))
}

func ObsEither[T any](m fp.Either[Lft, T], show func(T) string) string {
	if m.IsRight() {
		return "ok(" + show(m.Get()) + ")@0"
	}
	return "F" + strconv.Itoa(m.Left().K) + "@0"
}

// ---- StateT -------------------------------------------------------------------------------------

func BuildStatet[T any](d Opd, conv func(int) T) fp.StateT[int, T] {
	if d.M == 0 && d.C1 == 0 && d.D == 0 && d.V%3 == 0 {
		return statet.Pure[int](conv(Md(d.C0)))
	}
	if d.M == 1 && d.D == 0 && d.V%3 == 0 {
		return statet.FromTry[int](try.Failure[T](Errs[d.K]))
	}
	if d.M == 0 && d.V%3 == 1 {
		return statet.Run(func(s int) (T, int) {
			v, _, ns := d.At(s)
			return conv(v), ns
		})
	}
	return func(s int) (fp.Try[T], int) {
		v, k, ns := d.At(s)
		if k != 0 {
			return fp.Failure[T](Errs[k]), ns
		}
		return fp.Success(conv(v)), ns
	}
}

func ObsStatet[T any](m fp.StateT[int, T], show func(T) string) string {
	var b strings.Builder
	for i, s := range ProfStatet.Probes {
		if i > 0 {
			b.WriteByte(';')
		}
		t, ns := m(s)
		b.WriteString(ObsTryRaw(t, show))
		b.WriteString("@" + strconv.Itoa(ns))
	}
	return b.String()
}
