// C01 — seq / list / iterator at nil-able element types. One generic set of checks over a small
// record of operations (CollOps) that hides the collection type: operands are given as []T and the
// result is drained into []T. Reference: the list monad on []T in plain Go.
package ecoll

import (
	. "verif/c01/core"
	"verif/vrt"

	"github.com/csgura/fp"
	"github.com/csgura/fp/iterator"
	"github.com/csgura/fp/list"
	"github.com/csgura/fp/seq"
)

type CollOps[T any] struct {
	Pkg, UnitName string
	SingleUse     bool // Iterator: Ap / Map2 / Flap share a single-use operand by design -> left operand of length <= 1
	Unit          func(x T) []T
	FlatMap       func(m []T, v int, f func(T) []T) []T
	Assoc1        func(m []T, v int, f, g func(T) []T) []T // FlatMap(FlatMap(m, f), g)
	Assoc2        func(m []T, v int, f, g func(T) []T) []T // FlatMap(m, x -> FlatMap(f x, g))
	RightId       func(m []T, v int) []T                   // FlatMap(m, unit)
	Map           func(m []T, v int, f func(T) T) []T
	MapDef        func(m []T, v int, f func(T) T) []T // FlatMap(m, unit . f)
	Flatten       func(mm [][]T, v int) []T
	Ap            func(fs []fp.Func1[T, T], m []T, v int) []T
	Map2          func(a, b []T, v int, f func(T, T) T) []T
	Flap          func(fs []fp.Func1[T, T], v int, a T) []T // nil: the package has none
}

func lFlatMap[T any](m []T, f func(T) []T) []T {
	out := []T{}
	for _, x := range m {
		out = append(out, f(x)...)
	}
	return out
}

func lMap[T any](m []T, f func(T) T) []T {
	return lFlatMap(m, func(x T) []T { return []T{f(x)} })
}

// ---- seq ------------------------------------------------------------------------------------------

func mkSeq[T any](s []T, v int) fp.Seq[T] {
	if len(s) == 0 {
		switch v % 3 {
		case 0:
			return nil
		case 1:
			return seq.Empty[T]()
		}
		return fp.Seq[T]{}
	}
	if v%2 == 0 {
		return seq.Of(append([]T{}, s...)...)
	}
	return fp.Seq[T](append([]T{}, s...))
}

func SeqOps[T any](e Elem[T]) CollOps[T] {
	lift := func(f func(T) []T) func(T) fp.Seq[T] { return func(x T) fp.Seq[T] { return f(x) } }
	return CollOps[T]{Pkg: "seq", UnitName: "seq.Pure",
		Unit:    func(x T) []T { return seq.Pure(x) },
		FlatMap: func(m []T, v int, f func(T) []T) []T { return seq.FlatMap(mkSeq(m, v), lift(f)) },
		Assoc1: func(m []T, v int, f, g func(T) []T) []T {
			return seq.FlatMap(seq.FlatMap(mkSeq(m, v), lift(f)), lift(g))
		},
		Assoc2: func(m []T, v int, f, g func(T) []T) []T {
			return seq.FlatMap(mkSeq(m, v), func(x T) fp.Seq[T] { return seq.FlatMap(lift(f)(x), lift(g)) })
		},
		RightId: func(m []T, v int) []T { return seq.FlatMap(mkSeq(m, v), seq.Pure[T]) },
		Map:     func(m []T, v int, f func(T) T) []T { return seq.Map(mkSeq(m, v), f) },
		MapDef: func(m []T, v int, f func(T) T) []T {
			return seq.FlatMap(mkSeq(m, v), func(x T) fp.Seq[T] { return seq.Pure(f(x)) })
		},
		Flatten: func(mm [][]T, v int) []T {
			n := make(fp.Seq[fp.Seq[T]], len(mm))
			for i := range mm {
				n[i] = mkSeq(mm[i], v+i)
			}
			return seq.Flatten(n)
		},
		Ap:   func(fs []fp.Func1[T, T], m []T, v int) []T { return seq.Ap(fp.Seq[fp.Func1[T, T]](fs), mkSeq(m, v)) },
		Map2: func(a, b []T, v int, f func(T, T) T) []T { return seq.Map2(mkSeq(a, v), mkSeq(b, v+1), f) },
	}
}

// ---- list -----------------------------------------------------------------------------------------

func mkList[T any](s []T, v int) fp.List[T] {
	if len(s) == 0 && v%2 == 0 {
		return list.Empty[T]()
	}
	switch v % 4 {
	case 0:
		return list.FromSeq(fp.Seq[T](s))
	case 1:
		return list.Of(s...)
	case 2:
		var l fp.List[T] = list.Empty[T]()
		for i := len(s) - 1; i >= 0; i-- {
			l = list.Apply(s[i], l)
		}
		return l
	}
	return list.Collect(fp.IteratorOfSeq(append([]T{}, s...)))
}

func walkList[T any](l fp.List[T]) []T {
	out := []T{}
	n := 0
	for l.NonEmpty() {
		out = append(out, l.Head())
		l = l.Tail()
		if n++; n > 100000 {
			panic(vrt.BudgetExceeded{What: "list longer than 100000 elements"})
		}
	}
	return out
}

func ListOps[T any](e Elem[T]) CollOps[T] {
	show := ShowSlice(e.Show)
	// the same (lazy, persistent) list value is walked twice
	drain := func(l fp.List[T]) []T {
		out := walkList(l)
		if c := Cur; c != nil {
			c.W.Add("rerun.runs."+c.P.Pkg, 1)
			if again := walkList(l); show(again) != show(out) {
				c.Fail(KeyRerun, "the same list value yielded %s on the first traversal and %s on the second", show(out), show(again))
			}
		}
		return out
	}
	lift := func(f func(T) []T, v int) func(T) fp.List[T] {
		return func(x T) fp.List[T] { return mkList(f(x), v+e.Code(x)) }
	}
	return CollOps[T]{Pkg: "list", UnitName: "list.Of",
		Unit:    func(x T) []T { return drain(list.Of(x)) },
		FlatMap: func(m []T, v int, f func(T) []T) []T { return drain(list.FlatMap(mkList(m, v), lift(f, v))) },
		Assoc1: func(m []T, v int, f, g func(T) []T) []T {
			return drain(list.FlatMap(list.FlatMap(mkList(m, v), lift(f, v)), lift(g, v+1)))
		},
		Assoc2: func(m []T, v int, f, g func(T) []T) []T {
			return drain(list.FlatMap(mkList(m, v), func(x T) fp.List[T] { return list.FlatMap(lift(f, v)(x), lift(g, v+1)) }))
		},
		RightId: func(m []T, v int) []T {
			return drain(list.FlatMap(mkList(m, v), func(x T) fp.List[T] { return list.Of(x) }))
		},
		Map: func(m []T, v int, f func(T) T) []T { return drain(list.Map(mkList(m, v), f)) },
		MapDef: func(m []T, v int, f func(T) T) []T {
			return drain(list.FlatMap(mkList(m, v), func(x T) fp.List[T] { return list.Of(f(x)) }))
		},
		Flatten: func(mm [][]T, v int) []T {
			n := make([]fp.List[T], len(mm))
			for i := range mm {
				n[i] = mkList(mm[i], v+i)
			}
			return drain(list.Flatten(mkList(n, v)))
		},
		Ap:   func(fs []fp.Func1[T, T], m []T, v int) []T { return drain(list.Ap(mkList(fs, v+1), mkList(m, v))) },
		Map2: func(a, b []T, v int, f func(T, T) T) []T { return drain(list.Map2(mkList(a, v), mkList(b, v+1), f)) },
		Flap: func(fs []fp.Func1[T, T], v int, a T) []T { return drain(list.Flap(mkList(fs, v))(a)) },
	}
}

// ---- iterator -------------------------------------------------------------------------------------

func mkIter[T any](s []T, v int) fp.Iterator[T] {
	if len(s) == 0 && v%2 == 0 {
		return iterator.Empty[T]()
	}
	switch v % 3 {
	case 0:
		return iterator.FromSeq(fp.Seq[T](s))
	case 1:
		return iterator.Of(s...)
	}
	return iterator.FromList(list.Of(s...))
}

func drainIter[T any](it fp.Iterator[T]) []T {
	out := []T{}
	n := 0
	for it.HasNext() {
		out = append(out, it.Next())
		if n++; n > 100000 {
			panic(vrt.BudgetExceeded{What: "iterator yields more than 100000 elements"})
		}
	}
	return out
}

func IterOps[T any](e Elem[T]) CollOps[T] {
	lift := func(f func(T) []T, v int) func(T) fp.Iterator[T] {
		return func(x T) fp.Iterator[T] { return mkIter(f(x), v+e.Code(x)) }
	}
	return CollOps[T]{Pkg: "iterator", UnitName: "iterator.Of", SingleUse: true,
		Unit:    func(x T) []T { return drainIter(iterator.Of(x)) },
		FlatMap: func(m []T, v int, f func(T) []T) []T { return drainIter(iterator.FlatMap(mkIter(m, v), lift(f, v))) },
		Assoc1: func(m []T, v int, f, g func(T) []T) []T {
			return drainIter(iterator.FlatMap(iterator.FlatMap(mkIter(m, v), lift(f, v)), lift(g, v+1)))
		},
		Assoc2: func(m []T, v int, f, g func(T) []T) []T {
			return drainIter(iterator.FlatMap(mkIter(m, v), func(x T) fp.Iterator[T] { return iterator.FlatMap(lift(f, v)(x), lift(g, v+1)) }))
		},
		RightId: func(m []T, v int) []T {
			return drainIter(iterator.FlatMap(mkIter(m, v), func(x T) fp.Iterator[T] { return iterator.Of(x) }))
		},
		Map: func(m []T, v int, f func(T) T) []T { return drainIter(iterator.Map(mkIter(m, v), f)) },
		MapDef: func(m []T, v int, f func(T) T) []T {
			return drainIter(iterator.FlatMap(mkIter(m, v), func(x T) fp.Iterator[T] { return iterator.Of(f(x)) }))
		},
		Flatten: func(mm [][]T, v int) []T {
			n := make([]fp.Iterator[T], len(mm))
			for i := range mm {
				n[i] = mkIter(mm[i], v+i)
			}
			return drainIter(iterator.Flatten(mkIter(n, v)))
		},
		Ap: func(fs []fp.Func1[T, T], m []T, v int) []T {
			return drainIter(iterator.Ap(mkIter(fs, v+1), mkIter(m, v)))
		},
		Map2: func(a, b []T, v int, f func(T, T) T) []T {
			return drainIter(iterator.Map2(mkIter(a, v), mkIter(b, v+1), f))
		},
		Flap: func(fs []fp.Func1[T, T], v int, a T) []T { return drainIter(iterator.Flap(mkIter(fs, v))(a)) },
	}
}

// ---- the checks -----------------------------------------------------------------------------------

func ElemChecksColl[T any](o CollOps[T], e Elem[T]) []Check {
	tag := "[" + e.Tag + "]"
	show := ShowSlice(e.Show)
	// every operation is executed twice (on identically rebuilt operands for the single-use Iterator);
	// the first result is kept as returned and read again after the second execution
	tw := func(c *Cas, call func() []T) []T { return Rerun(c, call, show) }
	elems := func(s []int, rot int) []T {
		out := make([]T, len(s))
		for i, v := range s {
			out[i] = e.Of(v + rot)
		}
		return out
	}
	cs := []Check{
		{o.UnitName + tag, func(c *Cas) {
			c.Shape("pure")
			for i := 0; i < e.N; i++ {
				x := e.Of(i)
				c.Site(o.UnitName)
				got := tw(c, func() []T { return o.Unit(x) })
				UnitCheck(c, e, o.UnitName, x, show(got), show([]T{x}))
			}
		}},
		{o.Pkg + ".FlatMap" + tag, func(c *Cas) {
			d, k1, k2 := c.Lopd(), c.Lkl(), c.Lkl()
			for rot := 0; rot < e.N; rot++ {
				m := elems(d.S, rot)
				f := func(x T) []T { return elems(k1.At(e.Code(x)), rot) }
				g := func(x T) []T { return elems(k2.At(e.Code(x)), rot+1) }
				a := e.Of(rot)
				NilSeen(c, e, "unit-argument", a)
				c.Site(o.Pkg + ".FlatMap")
				li := show(tw(c, func() []T { return o.FlatMap(o.Unit(a), d.V, f) }))
				c.Law("left-identity-vs-reference", li, show(f(a)))
				ri := show(tw(c, func() []T { return o.RightId(m, d.V) }))
				c.Law("right-identity-vs-reference", ri, show(m))
				as1 := show(tw(c, func() []T { return o.Assoc1(m, d.V, f, g) }))
				as2 := show(o.Assoc2(m, d.V, f, g))
				c.Law("associativity", as1, as2)
				c.Law("associativity-vs-reference", as1, show(lFlatMap(lFlatMap(m, f), g)))
			}
		}},
		{o.Pkg + ".Map" + tag, func(c *Cas) {
			d, f := c.Lopd(), c.F1()
			for rot := 0; rot < e.N; rot++ {
				m := elems(d.S, rot)
				fT := func(x T) T {
					r := e.Of(f.Call(e.Code(x)) + rot)
					NilSeen(c, e, "function-result", r)
					return r
				}
				c.Site(o.Pkg + ".Map")
				got := show(tw(c, func() []T { return o.Map(m, d.V, fT) }))
				c.Eq(got, show(lMap(m, fT)))
				c.Site(o.Pkg + ".FlatMap")
				c.EqDef(got, show(o.MapDef(m, d.V, fT)))
			}
		}},
		{o.Pkg + ".Flatten" + tag, func(c *Cas) {
			d, k := c.Lopd(), c.Lkl()
			for rot := 0; rot < e.N; rot++ {
				mm := make([][]T, len(d.S))
				for i, x := range d.S {
					mm[i] = elems(k.At(x), rot)
				}
				c.Site(o.Pkg + ".Flatten")
				got := tw(c, func() []T { return o.Flatten(mm, d.V) })
				want := []T{}
				for _, s := range mm {
					want = append(want, s...)
				}
				c.Eq(show(got), show(want))
			}
		}},
		{o.Pkg + ".Ap" + tag, func(c *Cas) {
			df, da, g := c.Lopd(), c.Lopd(), c.Fn()
			fsrc := df.S
			if o.SingleUse && len(fsrc) > 1 {
				fsrc = fsrc[:1]
			}
			for rot := 0; rot < e.N; rot++ {
				m := elems(da.S, rot)
				ap := func(cv int, a T) T {
					r := e.Of(g.Call(cv, e.Code(a)) + rot)
					NilSeen(c, e, "function-result", r)
					return r
				}
				fs := make([]fp.Func1[T, T], len(fsrc))
				for i, cv := range fsrc {
					fs[i] = func(a T) T { return ap(cv, a) }
				}
				c.Site(o.Pkg + ".Ap")
				got := tw(c, func() []T { return o.Ap(fs, m, da.V) })
				want := []T{}
				for _, cv := range fsrc {
					for _, a := range m {
						want = append(want, ap(cv, a))
					}
				}
				c.Eq(show(got), show(want))
			}
		}},
		{o.Pkg + ".Map2" + tag, func(c *Cas) {
			da, db, g := c.Lopd(), c.Lopd(), c.Fn()
			asrc := da.S
			if o.SingleUse && len(asrc) > 1 {
				asrc = asrc[:1]
			}
			for rot := 0; rot < e.N; rot++ {
				a, b := elems(asrc, rot), elems(db.S, rot+1)
				fn := func(x, y T) T {
					r := e.Of(g.Call(e.Code(x), e.Code(y)) + rot)
					NilSeen(c, e, "function-result", r)
					return r
				}
				c.Site(o.Pkg + ".Map2")
				got := tw(c, func() []T { return o.Map2(a, b, da.V, fn) })
				c.Eq(show(got), show(lFlatMap(a, func(x T) []T { return lMap(b, func(y T) T { return fn(x, y) }) })))
			}
		}},
	}
	if o.Flap != nil {
		cs = append(cs, Check{o.Pkg + ".Flap" + tag, func(c *Cas) {
			df, g := c.Lopd(), c.Fn()
			fsrc := df.S
			if o.SingleUse && len(fsrc) > 1 {
				fsrc = fsrc[:1]
			}
			for rot := 0; rot < e.N; rot++ {
				a := e.Of(rot)
				NilSeen(c, e, "unit-argument", a)
				ap := func(cv int, a T) T { return e.Of(g.Call(cv, e.Code(a), rot)) }
				fs := make([]fp.Func1[T, T], len(fsrc))
				for i, cv := range fsrc {
					fs[i] = func(a T) T { return ap(cv, a) }
				}
				c.Site(o.Pkg + ".Flap")
				got := tw(c, func() []T { return o.Flap(fs, df.V, a) })
				want := []T{}
				for _, cv := range fsrc {
					want = append(want, ap(cv, a))
				}
				c.Eq(show(got), show(want))
			}
		}})
	}
	return cs
}

// All: the checks of one collection package at every nil-able element type of core/elem.go.
func All(pkg string) []Check {
	switch pkg {
	case "seq":
		return Concat(ElemChecksColl(SeqOps(ElemPtr), ElemPtr), ElemChecksColl(SeqOps(ElemSlice), ElemSlice), ElemChecksColl(SeqOps(ElemMap), ElemMap),
			ElemChecksColl(SeqOps(ElemFunc), ElemFunc), ElemChecksColl(SeqOps(ElemIface), ElemIface), ElemChecksColl(SeqOps(ElemError), ElemError))
	case "list":
		return Concat(ElemChecksColl(ListOps(ElemPtr), ElemPtr), ElemChecksColl(ListOps(ElemSlice), ElemSlice), ElemChecksColl(ListOps(ElemMap), ElemMap),
			ElemChecksColl(ListOps(ElemFunc), ElemFunc), ElemChecksColl(ListOps(ElemIface), ElemIface), ElemChecksColl(ListOps(ElemError), ElemError))
	case "iterator":
		return Concat(ElemChecksColl(IterOps(ElemPtr), ElemPtr), ElemChecksColl(IterOps(ElemSlice), ElemSlice), ElemChecksColl(IterOps(ElemMap), ElemMap),
			ElemChecksColl(IterOps(ElemFunc), ElemFunc), ElemChecksColl(IterOps(ElemIface), ElemIface), ElemChecksColl(IterOps(ElemError), ElemError))
	}
	return nil
}
