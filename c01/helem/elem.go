// C01 — the law and definition checks instantiated at nil-able element types (core/elem.go):
// *int, []int, map[int]int, func(int) int, any (incl. a typed nil pointer inside a non-nil
// interface) and error. For option / try / either / statet the checks are generated
// (e<pkg>/zz_<pkg>_elem.go, one generic function per package); seq / list / iterator and
// lazy / fn0 / fn1 are hand-written generic functions in ecoll and esmall. One Go package per
// group so that they compile in parallel. Check names carry the element tag: "option.Map[ptr]";
// the keys are "<pkg>.<unit>/unit-not-total" for a unit that does not return a success carrying
// exactly its argument, otherwise "<check>[tag]/<law or differs-from-reference>".
package helem

import (
	. "verif/c01/core"
	"verif/c01/helem/ecoll"
	"verif/c01/helem/eeither"
	"verif/c01/helem/eoption"
	"verif/c01/helem/esmall"
	"verif/c01/helem/estatet"
	"verif/c01/helem/etry"
)

// For returns the element-type checks of one package under test.
func For(pkg string) []Check {
	switch pkg {
	case "option":
		return eoption.All()
	case "try":
		return etry.All()
	case "either":
		return eeither.All()
	case "statet":
		return estatet.All()
	case "seq", "list", "iterator":
		return ecoll.All(pkg)
	case "lazy", "fn0", "fn1":
		return esmall.All(pkg)
	}
	return nil
}
