// C01 — lazy.Eval, fn0 and fn1 at nil-able element types. Every value is executed several times
// (ObsEval: Get / Run / Get; Run0: three runs; ProbeT: every probe argument twice), the results are
// kept as returned and read again after the later executions (core/rerun.go).
package esmall

import (
	. "verif/c01/core"

	"github.com/csgura/fp"
	"github.com/csgura/fp/fn0"
	"github.com/csgura/fp/fn1"
	"github.com/csgura/fp/lazy"
)

// evalOf: an Eval of x through one of the constructors of core.EvalKinds.
func evalOf[T any](kind int, x T) lazy.Eval[T] {
	switch mod6(kind) {
	case 0:
		return lazy.Done(x)
	case 1:
		return lazy.Call(func() T { return x })
	case 2:
		return lazy.TailCall(func() lazy.Eval[T] { return lazy.Done(x) })
	case 3:
		return lazy.TailCall(func() lazy.Eval[T] { return lazy.Call(func() T { return x }) })
	case 4:
		return lazy.TailCall(func() lazy.Eval[T] { return lazy.TailCall(func() lazy.Eval[T] { return lazy.Done(x) }) })
	}
	return lazy.Done(x).FlatMap(func(y T) lazy.Eval[T] { return lazy.Done(y) })
}

func mod6(i int) int {
	i %= 6
	if i < 0 {
		i += 6
	}
	return i
}

func ElemChecksLazy[T any](e Elem[T]) []Check {
	tag := "[" + e.Tag + "]"
	get := func(ev lazy.Eval[T]) string {
		_, s := ObsEval(ev, e.Show)
		return s
	}
	return []Check{
		{"lazy.Done" + tag, func(c *Cas) {
			c.Shape("done")
			for i := 0; i < e.N; i++ {
				x := e.Of(i)
				c.Site("lazy.Done")
				UnitCheck(c, e, "lazy.Done", x, get(lazy.Done(x)), e.Show(x))
			}
		}},
		{"lazy.Call" + tag, func(c *Cas) {
			kind := 1 + c.R.IntN(5)
			c.Shape(EvalKinds[kind])
			for i := 0; i < e.N; i++ {
				x := e.Of(i)
				NilSeen(c, e, "function-result", x)
				c.Site("lazy.Call")
				c.Eq(get(evalOf(kind, x)), e.Show(x))
			}
		}},
		{"lazy.FlatMap" + tag, func(c *Cas) {
			d, k1, k2 := c.Eopd(), c.Ekl(), c.Ekl()
			for rot := 0; rot < e.N; rot++ {
				m := func() lazy.Eval[T] { return evalOf(d.Kind, e.Of(d.V+rot)) }
				fv := func(x T) T { return e.Of(k1.Val(e.Code(x)) + rot) }
				gv := func(x T) T { return e.Of(k2.Val(e.Code(x)) + rot + 1) }
				f := func(x T) lazy.Eval[T] { return evalOf(k1.Kind+e.Code(x), fv(x)) }
				g := func(x T) lazy.Eval[T] { return evalOf(k2.Kind+e.Code(x), gv(x)) }
				a := e.Of(rot)
				NilSeen(c, e, "unit-argument", a)
				c.Site("lazy.FlatMap")
				li := get(lazy.FlatMap(lazy.Done(a), f))
				c.Law("left-identity", li, get(f(a)))
				c.Law("left-identity-vs-reference", li, e.Show(fv(a)))
				ri := get(lazy.FlatMap(m(), lazy.Done[T]))
				c.Law("right-identity", ri, get(m()))
				c.Law("right-identity-vs-reference", ri, e.Show(e.Of(d.V+rot)))
				as1 := get(lazy.FlatMap(lazy.FlatMap(m(), f), g))
				as2 := get(lazy.FlatMap(m(), func(x T) lazy.Eval[T] { return lazy.FlatMap(f(x), g) }))
				c.Law("associativity", as1, as2)
				c.Law("associativity-vs-reference", as1, e.Show(gv(fv(e.Of(d.V+rot)))))
			}
		}},
		{"lazy.Map" + tag, func(c *Cas) {
			d, f := c.Eopd(), c.F1()
			for rot := 0; rot < e.N; rot++ {
				x := e.Of(d.V + rot)
				fT := func(x T) T {
					r := e.Of(f.Call(e.Code(x)) + rot)
					NilSeen(c, e, "function-result", r)
					return r
				}
				c.Site("lazy.Map")
				got := get(lazy.Map(evalOf(d.Kind, x), fT))
				c.Eq(got, e.Show(fT(x)))
				c.Site("lazy.FlatMap")
				c.EqDef(got, get(lazy.FlatMap(evalOf(d.Kind, x), func(y T) lazy.Eval[T] { return lazy.Done(fT(y)) })))
			}
		}},
		{"lazy.Map2" + tag, func(c *Cas) {
			a, b, g := c.Eopd(), c.Eopd(), c.Fn()
			for rot := 0; rot < e.N; rot++ {
				x, y := e.Of(a.V+rot), e.Of(b.V+rot+1)
				fn := func(x, y T) T {
					r := e.Of(g.Call(e.Code(x), e.Code(y)) + rot)
					NilSeen(c, e, "function-result", r)
					return r
				}
				c.Site("lazy.Map2")
				c.Eq(get(lazy.Map2(evalOf(a.Kind, x), evalOf(b.Kind, y), fn)), e.Show(fn(x, y)))
			}
		}},
	}
}

func ElemChecksFn0[T any](e Elem[T]) []Check {
	tag := "[" + e.Tag + "]"
	run := func(m fp.Func0[T]) string {
		_, s := Run0(m, e.Show)
		return s
	}
	mk := func(x T, kind int) fp.Func0[T] {
		if kind%2 == 0 {
			return fn0.Pure(x)
		}
		return func(fp.Unit) T { return x }
	}
	return []Check{
		{"fn0.Pure" + tag, func(c *Cas) {
			c.Shape("pure")
			for i := 0; i < e.N; i++ {
				x := e.Of(i)
				c.Site("fn0.Pure")
				UnitCheck(c, e, "fn0.Pure", x, run(fn0.Pure(x)), e.Show(x))
			}
		}},
		{"fn0.FlatMap" + tag, func(c *Cas) {
			v, kind := c.R.IntN(1000), c.R.IntN(2)
			k1, k2 := c.F1(), c.F1()
			c.Shape([]string{"pure", "closure"}[kind])
			c.Note("fn0 value %d kind %d", v, kind)
			for rot := 0; rot < e.N; rot++ {
				x := e.Of(v + rot)
				fv := func(x T) T { return e.Of(k1.Call(e.Code(x)) + rot) }
				gv := func(x T) T { return e.Of(k2.Call(e.Code(x)) + rot + 1) }
				f := func(x T) fp.Func0[T] { return mk(fv(x), e.Code(x)) }
				g := func(x T) fp.Func0[T] { return mk(gv(x), e.Code(x)+1) }
				a := e.Of(rot)
				NilSeen(c, e, "unit-argument", a)
				c.Site("fn0.FlatMap")
				li := run(fn0.FlatMap(fn0.Pure(a), f))
				c.Law("left-identity", li, run(f(a)))
				c.Law("left-identity-vs-reference", li, e.Show(fv(a)))
				ri := run(fn0.FlatMap(mk(x, kind), func(y T) fp.Func0[T] { return fn0.Pure(y) }))
				c.Law("right-identity-vs-reference", ri, e.Show(x))
				as1 := run(fn0.FlatMap(fn0.FlatMap(mk(x, kind), f), g))
				as2 := run(fn0.FlatMap(mk(x, kind), func(y T) fp.Func0[T] { return fn0.FlatMap(f(y), g) }))
				c.Law("associativity", as1, as2)
				c.Law("associativity-vs-reference", as1, e.Show(gv(fv(x))))
			}
		}},
		{"fn0.Map" + tag, func(c *Cas) {
			v, kind := c.R.IntN(1000), c.R.IntN(2)
			f := c.F1()
			c.Shape([]string{"pure", "closure"}[kind])
			c.Note("fn0 value %d kind %d", v, kind)
			for rot := 0; rot < e.N; rot++ {
				x := e.Of(v + rot)
				fT := func(x T) T {
					r := e.Of(f.Call(e.Code(x)) + rot)
					NilSeen(c, e, "function-result", r)
					return r
				}
				c.Site("fn0.Map")
				got := run(fn0.Map(mk(x, kind), fT))
				c.Eq(got, e.Show(fT(x)))
				c.Site("fn0.FlatMap")
				c.EqDef(got, run(fn0.FlatMap(mk(x, kind), func(y T) fp.Func0[T] { return fn0.Pure(fT(y)) })))
			}
		}},
		{"fn0.Flatten" + tag, func(c *Cas) {
			v, kind := c.R.IntN(1000), c.R.IntN(2)
			c.Shape([]string{"pure", "closure"}[kind])
			c.Note("fn0 value %d kind %d", v, kind)
			for rot := 0; rot < e.N; rot++ {
				x := e.Of(v + rot)
				var mm fp.Func0[fp.Func0[T]] = func(fp.Unit) fp.Func0[T] { return mk(x, kind) }
				c.Site("fn0.Flatten")
				c.Eq(run(fn0.Flatten(mm)), e.Show(x))
			}
		}},
	}
}

// readers over int with results in T: x -> e.Of(md(x*A+B) + rot)
func ElemChecksFn1[T any](e Elem[T]) []Check {
	tag := "[" + e.Tag + "]"
	probe := func(f fp.Func1[int, T]) string { return ProbeT(f, e.Show) }
	pref := func(f func(int) T) string { return ProbeRefT(f, e.Show) }
	return []Check{
		{"fn1.Pure" + tag, func(c *Cas) {
			c.Shape("pure")
			for i := 0; i < e.N; i++ {
				x := e.Of(i)
				c.Site("fn1.Pure")
				UnitCheck(c, e, "fn1.Pure", x, probe(fn1.Pure[int](x)), pref(func(int) T { return x }))
			}
		}},
		{"fn1.FlatMap" + tag, func(c *Cas) {
			d, k1, k2 := c.R1d(), c.R1k(), c.R1k()
			for rot := 0; rot < e.N; rot++ {
				mref := func(x int) T { return e.Of(d.Ref(x) + rot) }
				m := func() fp.Func1[int, T] {
					if d.Kind == 0 {
						return fn1.Pure[int](e.Of(Md(d.B) + rot))
					}
					return func(x int) T { return mref(x) }
				}
				fref := func(a T) func(int) T { return func(x int) T { return e.Of(k1.Ref(e.Code(a))(x) + rot) } }
				gref := func(a T) func(int) T { return func(x int) T { return e.Of(k2.Ref(e.Code(a))(x) + rot + 1) } }
				f := func(a T) fp.Func1[int, T] { return fref(a) }
				g := func(a T) fp.Func1[int, T] { return gref(a) }
				a := e.Of(rot)
				NilSeen(c, e, "unit-argument", a)
				c.Site("fn1.FlatMap")
				li := probe(fn1.FlatMap(fn1.Pure[int](a), f))
				c.Law("left-identity-vs-reference", li, pref(fref(a)))
				ri := probe(fn1.FlatMap(m(), func(v T) fp.Func1[int, T] { return fn1.Pure[int](v) }))
				c.Law("right-identity-vs-reference", ri, pref(mref))
				as1 := probe(fn1.FlatMap(fn1.FlatMap(m(), f), g))
				as2 := probe(fn1.FlatMap(m(), func(v T) fp.Func1[int, T] { return fn1.FlatMap(f(v), g) }))
				c.Law("associativity", as1, as2)
				c.Law("associativity-vs-reference", as1, pref(func(x int) T { return gref(fref(mref(x))(x))(x) }))
			}
		}},
		{"fn1.Map" + tag, func(c *Cas) {
			d, f := c.R1d(), c.F1()
			for rot := 0; rot < e.N; rot++ {
				mref := func(x int) T { return e.Of(d.Ref(x) + rot) }
				fT := func(v T) T {
					r := e.Of(f.Call(e.Code(v)) + rot)
					NilSeen(c, e, "function-result", r)
					return r
				}
				c.Site("fn1.Map")
				got := probe(fn1.Map(fp.Func1[int, T](mref), fT))
				c.Eq(got, pref(func(x int) T { return fT(mref(x)) }))
				c.Site("fn1.FlatMap")
				c.EqDef(got, probe(fn1.FlatMap(fp.Func1[int, T](mref), func(v T) fp.Func1[int, T] { return fn1.Pure[int](fT(v)) })))
			}
		}},
		{"fn1.Flatten" + tag, func(c *Cas) {
			d, k := c.R1d(), c.R1k()
			for rot := 0; rot < e.N; rot++ {
				inner := func(a int) func(int) T { return func(x int) T { return e.Of(k.Ref(a)(x) + rot) } }
				var mm fp.Func1[int, fp.Func1[int, T]] = func(x int) fp.Func1[int, T] { return inner(d.Ref(x)) }
				c.Site("fn1.Flatten")
				c.Eq(probe(fn1.Flatten(mm)), pref(func(x int) T { return inner(d.Ref(x))(x) }))
			}
		}},
	}
}

// All: the checks of lazy / fn0 / fn1 at every nil-able element type of core/elem.go.
func All(pkg string) []Check {
	switch pkg {
	case "lazy":
		return Concat(ElemChecksLazy(ElemPtr), ElemChecksLazy(ElemSlice), ElemChecksLazy(ElemMap),
			ElemChecksLazy(ElemFunc), ElemChecksLazy(ElemIface), ElemChecksLazy(ElemError))
	case "fn0":
		return Concat(ElemChecksFn0(ElemPtr), ElemChecksFn0(ElemSlice), ElemChecksFn0(ElemMap),
			ElemChecksFn0(ElemFunc), ElemChecksFn0(ElemIface), ElemChecksFn0(ElemError))
	case "fn1":
		return Concat(ElemChecksFn1(ElemPtr), ElemChecksFn1(ElemSlice), ElemChecksFn1(ElemMap),
			ElemChecksFn1(ElemFunc), ElemChecksFn1(ElemIface), ElemChecksFn1(ElemError))
	}
	return nil
}
