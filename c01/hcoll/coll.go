// C01 — the list monads: seq, list (lazy, persistent) and iterator (single use).
//
// Reference (a): the list monad on []int in plain Go. For Iterator the combinators whose
// definition re-uses one single-use operand for every element of the other (Ap, Map2, Flap*,
// FlapMap, Method1/2) are compared (b) with that very definition written with the package's
// own FlatMap and Of on fresh, identically built operands; their result differs from the
// list-monad product by design.
package hcoll

import (
	. "verif/c01/core"
	"verif/vrt"

	"github.com/csgura/fp"
	"github.com/csgura/fp/iterator"
	"github.com/csgura/fp/list"
	"github.com/csgura/fp/seq"
)

// Harnesses: seq, list, iterator.
func Harnesses() []PkgHarness {
	return []PkgHarness{
		{Prof: ProfSeq, Checks: Concat(ChecksSeq(), foldChecks("seq",
			func(d Lopd, z int, f func(int, int) fp.Try[int]) fp.Try[int] { return seq.FoldTry(d.Seq(), z, f) },
			func(d Lopd, z int, f func(int, int) fp.Option[int]) fp.Option[int] {
				return seq.FoldOption(d.Seq(), z, f)
			})), Program: &Check{Name: "seq.program", Run: func(c *Cas) { RunListProgram(c, SeqOps(c), nil) }}},
		{Prof: ProfList, Checks: Concat(ChecksList(), foldChecks("list",
			func(d Lopd, z int, f func(int, int) fp.Try[int]) fp.Try[int] { return list.FoldTry(d.List(), z, f) },
			func(d Lopd, z int, f func(int, int) fp.Option[int]) fp.Option[int] {
				return list.FoldOption(d.List(), z, f)
			})), Program: &Check{Name: "list.program", Run: func(c *Cas) { RunListProgram(c, ListOps(c), nil) }}},
		{Prof: ProfIterator, Extra: append(GoMapHits(), gcSourceHits()...), Checks: Concat(ChecksIterator(), ChecksGoMap(), foldChecks("iterator",
			func(d Lopd, z int, f func(int, int) fp.Try[int]) fp.Try[int] { return iterator.FoldTry(d.Iter(), z, f) },
			func(d Lopd, z int, f func(int, int) fp.Option[int]) fp.Option[int] {
				return iterator.FoldOption(d.Iter(), z, f)
			})), Program: &Check{Name: "iterator.program", Run: func(c *Cas) { RunListProgram(c, IterOps(c, false), IterOps(c, true)) }}},
	}
}

// foldChecks: FoldTry / FoldOption are foldM instantiated at Try / Option for the three
// collections. mk builds the library collection, fold calls the package's function.
func foldChecks(pkg string, foldTry func(d Lopd, zero int, f func(int, int) fp.Try[int]) fp.Try[int],
	foldOption func(d Lopd, zero int, f func(int, int) fp.Option[int]) fp.Option[int]) []Check {
	kn := func(c *Cas, nfail int) Knd {
		k := Knd{F: Fnd{S: c.R.IntN(1000)}, O: Opd{K: 1 + c.R.IntN(nfail), V: c.R.IntN(6)}}
		switch c.R.IntN(4) {
		case 0:
			k.O.M = 1
		case 1:
			k.O.M = 2 + c.R.IntN(3)
		}
		c.Shape("k:" + []string{"ok", "fail", "partial", "partial", "partial"}[k.O.M])
		c.Note("kleisliN %+v", k)
		return k
	}
	return []Check{
		{pkg + ".FoldTry", func(c *Cas) {
			d := c.Lopd()
			k := kn(c, 4)
			z := c.R.IntN(1000)
			c.Note("zero=%d", z)
			c.Site(pkg + ".FoldTry")
			bud := vrt.NewBudget(int64(len(d.S)), "FoldTry called its function more often than the collection has elements")
			got := foldTry(d, z, func(b, a int) fp.Try[int] { bud.Tick(); return BuildTry(k.At(b, a), IdInt) })
			c.Eq(ObsTry(got, ShowInt), ObsRef(ProfTry, RFoldM(d.S, z, func(b, a int) Ref[int] { return k.Ref(b, a) }), ShowInt))
		}},
		{pkg + ".FoldOption", func(c *Cas) {
			d := c.Lopd()
			k := kn(c, 1)
			z := c.R.IntN(1000)
			c.Note("zero=%d", z)
			c.Site(pkg + ".FoldOption")
			bud := vrt.NewBudget(int64(len(d.S)), "FoldOption called its function more often than the collection has elements")
			got := foldOption(d, z, func(b, a int) fp.Option[int] { bud.Tick(); return BuildOption(k.At(b, a), IdInt) })
			c.Eq(ObsOption(got, ShowInt), ObsRef(ProfOption, RFoldM(d.S, z, func(b, a int) Ref[int] { return k.Ref(b, a) }), ShowInt))
		}},
	}
}

// ---- seq ----------------------------------------------------------------------------------------

func ChecksSeq() []Check {
	type C = fp.Seq[int]
	// every combinator is called twice on the very same operand slices; the first result is kept as
	// returned and read again after the second call (core/rerun.go)
	tw := func(c *Cas, call func() C) []int { return Rerun(c, call, ShowSeq) }
	return []Check{
		{"seq.Map", func(c *Cas) {
			d, f := c.Lopd(), c.F1()
			s := d.Seq()
			c.Site("seq.Map")
			got := tw(c, func() C { return seq.Map(s, f.Call) })
			c.EqL(got, LMap(d.S, f.Call))
			c.Site("seq.FlatMap")
			c.EqLD(got, seq.FlatMap(d.Seq(), func(x int) C { return seq.Pure(f.Call(x)) }))
		}},
		{"seq.FlatMap", func(c *Cas) {
			d, k1, k2 := c.Lopd(), c.Lkl(), c.Lkl()
			a := c.IntZ()
			c.Note("a=%d", a)
			f := func(x int) C { return k1.At(x) }
			g := func(x int) C { return k2.At(x) }
			s := d.Seq()
			c.Site("seq.FlatMap")
			li := tw(c, func() C { return seq.FlatMap(seq.Pure(a), f) })
			c.Law("left-identity", ShowInts(li), ShowInts(f(a)))
			c.Law("left-identity-vs-reference", ShowInts(li), ShowInts(k1.At(a)))
			ri := tw(c, func() C { return seq.FlatMap(s, seq.Pure[int]) })
			c.Law("right-identity", ShowInts(ri), ShowInts(d.Seq()))
			c.Law("right-identity-vs-reference", ShowInts(ri), ShowInts(d.S))
			as1 := tw(c, func() C { return seq.FlatMap(seq.FlatMap(s, f), g) })
			as2 := seq.FlatMap(d.Seq(), func(x int) C { return seq.FlatMap(f(x), g) })
			c.Law("associativity", ShowInts(as1), ShowInts(as2))
			c.Law("associativity-vs-reference", ShowInts(as1), ShowInts(LFlatMap(LFlatMap(d.S, k1.At), k2.At)))
		}},
		{"seq.Pure", func(c *Cas) {
			a := c.IntZ()
			c.Shape("pure")
			c.Site("seq.Pure")
			c.EqL(tw(c, func() C { return seq.Pure(a) }), []int{a})
		}},
		{"seq.Flatten", func(c *Cas) {
			d, k := c.Lopd(), c.Lkl()
			nested := make(fp.Seq[fp.Seq[int]], len(d.S))
			for i, x := range d.S {
				nested[i] = k.At(x)
				if len(nested[i]) == 0 && i%2 == 0 {
					nested[i] = nil
				}
			}
			c.Site("seq.Flatten")
			c.EqL(tw(c, func() C { return seq.Flatten(nested) }), LFlatMap(d.S, k.At))
		}},
		{"seq.Ap", func(c *Cas) {
			df, da, g := c.Lopd(), c.Lopd(), c.Fn()
			fs := make(fp.Seq[fp.Func1[int, int]], len(df.S))
			for i, cv := range df.S {
				fs[i] = Curry2(g)(cv)
			}
			s := da.Seq()
			c.Site("seq.Ap")
			c.EqL(tw(c, func() C { return seq.Ap(fs, s) }), LMap2(df.S, da.S, g.Call2))
		}},
		{"seq.Map2", func(c *Cas) {
			da, db, g := c.Lopd(), c.Lopd(), c.Fn()
			sa, sb := da.Seq(), db.Seq()
			c.Site("seq.Map2")
			c.EqL(tw(c, func() C { return seq.Map2(sa, sb, g.Call2) }), LMap2(da.S, db.S, g.Call2))
		}},
		{"seq.Lift", func(c *Cas) {
			d, f := c.Lopd(), c.F1()
			s := d.Seq()
			c.Site("seq.Lift")
			lf := seq.Lift(f.Call)
			c.EqL(tw(c, func() C { return lf(s) }), LMap(d.S, f.Call))
		}},
		{"seq.LiftM", func(c *Cas) {
			d, k := c.Lopd(), c.Lkl()
			s := d.Seq()
			c.Site("seq.LiftM")
			lf := seq.LiftM(func(x int) C { return k.At(x) })
			c.EqL(tw(c, func() C { return lf(s) }), LFlatMap(d.S, k.At))
		}},
		{"seq.Compose", func(c *Cas) {
			k1, k2 := c.Lkl(), c.Lkl()
			a := c.IntZ()
			c.Note("a=%d", a)
			c.Shape("k")
			c.Site("seq.Compose")
			kk := seq.Compose(func(x int) C { return k1.At(x) }, func(x int) C { return k2.At(x) })
			got := tw(c, func() C { return kk(a) })
			c.EqL(got, LFlatMap(k1.At(a), k2.At))
		}},
		{"seq.ComposePure", func(c *Cas) {
			f := c.F1()
			a := c.IntZ()
			c.Note("a=%d", a)
			c.Shape("pure")
			c.Site("seq.ComposePure")
			kk := seq.ComposePure(f.Call)
			c.EqL(tw(c, func() C { return kk(a) }), []int{f.Call(a)})
		}},
		{"seq.FilterMap", func(c *Cas) {
			d, k := c.Lopd(), c.Okl()
			s := d.Seq()
			c.Site("seq.FilterMap")
			c.EqL(tw(c, func() C { return seq.FilterMap(s, k.Opt) }), LFlatMap(d.S, func(x int) []int {
				if v, ok := k.At(x); ok {
					return []int{v}
				}
				return nil
			}))
		}},
	}
}

// ---- list ---------------------------------------------------------------------------------------

func ChecksList() []Check {
	type C = fp.List[int]
	kf := func(k Lkd, v int) func(int) C {
		return func(x int) C { return Lopd{k.At(x), v}.List() }
	}
	return []Check{
		{"list.Map", func(c *Cas) {
			d, f := c.Lopd(), c.F1()
			c.Site("list.Map")
			got := c.Twice(func() []int { return ListInts(list.Map(d.List(), f.Call)) })
			c.EqL(got, LMap(d.S, f.Call))
			c.Site("list.FlatMap")
			c.EqLD(got, ListInts(list.FlatMap(d.List(), func(x int) C { return list.Of(f.Call(x)) })))
		}},
		{"list.FlatMap", func(c *Cas) {
			d, k1, k2 := c.Lopd(), c.Lkl(), c.Lkl()
			a := c.IntZ()
			c.Note("a=%d", a)
			f, g := kf(k1, c.R.IntN(4)), kf(k2, c.R.IntN(4))
			o := func(l C) string { return ShowInts(ListInts(l)) }
			c.Site("list.FlatMap")
			li := o(list.FlatMap(list.Of(a), f))
			c.Law("left-identity", li, o(f(a)))
			c.Law("left-identity-vs-reference", li, ShowInts(k1.At(a)))
			ri := o(list.FlatMap(d.List(), func(x int) C { return list.Of(x) }))
			c.Law("right-identity", ri, o(d.List()))
			c.Law("right-identity-vs-reference", ri, ShowInts(d.S))
			as1 := o(list.FlatMap(list.FlatMap(d.List(), f), g))
			as2 := o(list.FlatMap(d.List(), func(x int) C { return list.FlatMap(f(x), g) }))
			c.Law("associativity", as1, as2)
			c.Law("associativity-vs-reference", as1, ShowInts(LFlatMap(LFlatMap(d.S, k1.At), k2.At)))
		}},
		{"list.Of", func(c *Cas) {
			a := c.IntZ()
			c.Shape("pure")
			c.Site("list.Of")
			c.EqL(c.Twice(func() []int { return ListInts(list.Of(a)) }), []int{a})
		}},
		{"list.Flatten", func(c *Cas) {
			d, k := c.Lopd(), c.Lkl()
			v := c.R.IntN(4)
			c.Site("list.Map")
			nested := list.Map(d.List(), kf(k, v))
			c.Site("list.Flatten")
			c.EqL(c.Twice(func() []int { return ListInts(list.Flatten(nested)) }), LFlatMap(d.S, k.At))
		}},
		{"list.Ap", func(c *Cas) {
			df, da, g := c.Lopd(), c.Lopd(), c.Fn()
			fs := make([]fp.Func1[int, int], len(df.S))
			for i, cv := range df.S {
				fs[i] = Curry2(g)(cv)
			}
			c.Site("list.Ap")
			c.EqL(c.Twice(func() []int { return ListInts(list.Ap(list.Of(fs...), da.List())) }), LMap2(df.S, da.S, g.Call2))
		}},
		{"list.Map2", func(c *Cas) {
			da, db, g := c.Lopd(), c.Lopd(), c.Fn()
			c.Site("list.Map2")
			c.EqL(c.Twice(func() []int { return ListInts(list.Map2(da.List(), db.List(), g.Call2)) }), LMap2(da.S, db.S, g.Call2))
		}},
		{"list.Lift", func(c *Cas) {
			d, f := c.Lopd(), c.F1()
			c.Site("list.Lift")
			c.EqL(c.Twice(func() []int { return ListInts(list.Lift(f.Call)(d.List())) }), LMap(d.S, f.Call))
		}},
		{"list.Compose", func(c *Cas) {
			k1, k2 := c.Lkl(), c.Lkl()
			a := c.IntZ()
			c.Note("a=%d", a)
			c.Shape("k")
			c.Site("list.Compose")
			got := list.Compose(kf(k1, c.R.IntN(4)), kf(k2, c.R.IntN(4)))(a)
			c.EqL(c.Twice(func() []int { return ListInts(got) }), LFlatMap(k1.At(a), k2.At))
		}},
		{"list.ComposePure", func(c *Cas) {
			f := c.F1()
			a := c.IntZ()
			c.Note("a=%d", a)
			c.Shape("pure")
			c.Site("list.ComposePure")
			c.EqL(c.Twice(func() []int { return ListInts(list.ComposePure(f.Call)(a)) }), []int{f.Call(a)})
		}},
		{"list.FilterMap", func(c *Cas) {
			d, k := c.Lopd(), c.Okl()
			c.Site("list.FilterMap")
			c.EqL(c.Twice(func() []int { return ListInts(list.FilterMap(d.List(), k.Opt)) }), LFlatMap(d.S, func(x int) []int {
				if v, ok := k.At(x); ok {
					return []int{v}
				}
				return nil
			}))
		}},
		{"list.Flap", func(c *Cas) {
			df, g := c.Lopd(), c.Fn()
			xs := c.Ints(1)
			c.Site("list.Map")
			tf := list.Map(df.List(), Curry2(g))
			c.Site("list.Flap")
			c.EqL(c.Twice(func() []int { return ListInts(list.Flap(tf)(xs[0])) }), LMap(df.S, func(cv int) int { return g.Call(cv, xs[0]) }))
		}},
		{"list.Flap2", func(c *Cas) {
			df, g := c.Lopd(), c.Fn()
			xs := c.Ints(2)
			c.Site("list.Map")
			tf := list.Map(df.List(), Curry3(g))
			c.Site("list.Flap2")
			c.EqL(c.Twice(func() []int { return ListInts(list.Flap2(tf)(xs[0])(xs[1])) }), LMap(df.S, func(cv int) int { return g.Call(cv, xs[0], xs[1]) }))
		}},
		{"list.FlapMap", func(c *Cas) {
			d, g := c.Lopd(), c.Fn()
			xs := c.Ints(1)
			c.Site("list.FlapMap")
			c.EqL(c.Twice(func() []int { return ListInts(list.FlapMap(g.Call2, d.List())(xs[0])) }), LMap(d.S, func(a int) int { return g.Call(a, xs[0]) }))
		}},
		{"list.Method1", func(c *Cas) {
			d, g := c.Lopd(), c.Fn()
			xs := c.Ints(1)
			c.Site("list.Method1")
			c.EqL(c.Twice(func() []int { return ListInts(list.Method1(d.List(), g.Call2)(xs[0])) }), LMap(d.S, func(a int) int { return g.Call(a, xs[0]) }))
		}},
		{"list.Method2", func(c *Cas) {
			d, g := c.Lopd(), c.Fn()
			xs := c.Ints(2)
			c.Site("list.Method2")
			got := list.Method2(d.List(), func(a, b, cc int) int { return g.Call(a, b, cc) })(xs[0], xs[1])
			c.EqL(c.Twice(func() []int { return ListInts(got) }), LMap(d.S, func(a int) int { return g.Call(a, xs[0], xs[1]) }))
		}},
	}
}

func ChecksIterator() []Check {
	kf := func(k Lkd, v int) func(int) IT {
		return func(x int) IT { return Lopd{k.At(x), v}.Iter() }
	}
	cs := []Check{
		{"iterator.Map", func(c *Cas) {
			d, f := c.Lopd(), c.F1()
			c.Site("iterator.Map")
			got := c.Twice(func() []int { return IterInts(iterator.Map(d.Iter(), f.Call)) })
			c.EqL(got, LMap(d.S, f.Call))
			c.Site("iterator.FlatMap")
			c.EqLD(got, IterInts(DefIterMap(d.Iter(), f.Call)))
		}},
		{"iterator.FlatMap", func(c *Cas) {
			d, k1, k2 := c.Lopd(), c.Lkl(), c.Lkl()
			a := c.IntZ()
			c.Note("a=%d", a)
			f, g := kf(k1, c.R.IntN(4)), kf(k2, c.R.IntN(4))
			o := func(l IT) string { return ShowInts(IterInts(l)) }
			c.Site("iterator.FlatMap")
			li := o(iterator.FlatMap(iterator.Of(a), f))
			c.Law("left-identity", li, o(f(a)))
			c.Law("left-identity-vs-reference", li, ShowInts(k1.At(a)))
			ri := o(iterator.FlatMap(d.Iter(), func(x int) IT { return iterator.Of(x) }))
			c.Law("right-identity", ri, o(d.Iter()))
			c.Law("right-identity-vs-reference", ri, ShowInts(d.S))
			as1 := o(iterator.FlatMap(iterator.FlatMap(d.Iter(), f), g))
			as2 := o(iterator.FlatMap(d.Iter(), func(x int) IT { return iterator.FlatMap(f(x), g) }))
			c.Law("associativity", as1, as2)
			c.Law("associativity-vs-reference", as1, ShowInts(LFlatMap(LFlatMap(d.S, k1.At), k2.At)))
		}},
		{"iterator.Of", func(c *Cas) {
			a := c.IntZ()
			c.Shape("pure")
			c.Site("iterator.Of")
			c.EqL(c.Twice(func() []int { return IterInts(iterator.Of(a)) }), []int{a})
		}},
		{"iterator.Flatten", func(c *Cas) {
			d, k := c.Lopd(), c.Lkl()
			v := c.R.IntN(4)
			c.Site("iterator.Flatten")
			c.EqL(c.Twice(func() []int { return IterInts(iterator.Flatten(iterator.Map(d.Iter(), kf(k, v)))) }), LFlatMap(d.S, k.At))
		}},
		{"iterator.Lift", func(c *Cas) {
			d, f := c.Lopd(), c.F1()
			c.Site("iterator.Lift")
			c.EqL(c.Twice(func() []int { return IterInts(iterator.Lift(f.Call)(d.Iter())) }), LMap(d.S, f.Call))
		}},
		{"iterator.Compose", func(c *Cas) {
			k1, k2 := c.Lkl(), c.Lkl()
			a := c.IntZ()
			c.Note("a=%d", a)
			c.Shape("k")
			c.Site("iterator.Compose")
			kk := iterator.Compose(kf(k1, c.R.IntN(4)), kf(k2, c.R.IntN(4)))
			c.EqL(c.Twice(func() []int { return IterInts(kk(a)) }), LFlatMap(k1.At(a), k2.At))
		}},
		{"iterator.ComposePure", func(c *Cas) {
			f := c.F1()
			a := c.IntZ()
			c.Note("a=%d", a)
			c.Shape("pure")
			c.Site("iterator.ComposePure")
			c.EqL(c.Twice(func() []int { return IterInts(iterator.ComposePure(f.Call)(a)) }), []int{f.Call(a)})
		}},
		{"iterator.FilterMap", func(c *Cas) {
			d, k := c.Lopd(), c.Okl()
			c.Site("iterator.FilterMap")
			c.EqL(c.Twice(func() []int { return IterInts(iterator.FilterMap(d.Iter(), k.Opt)) }), LFlatMap(d.S, func(x int) []int {
				if v, ok := k.At(x); ok {
					return []int{v}
				}
				return nil
			}))
		}},
		// --- single-use operand shared by design: compare with the FlatMap/Of definition (b)
		{"iterator.Ap", func(c *Cas) {
			df, da, g := c.Lopd(), c.Lopd(), c.Fn()
			c.Site("iterator.Ap")
			got := c.Twice(func() []int { return IterInts(iterator.Ap(IterFuncs(df, g), da.Iter())) })
			c.Site("iterator.FlatMap")
			c.EqLD(got, IterInts(DefIterAp(IterFuncs(df, g), da.Iter())))
			if len(df.S) <= 1 { // no sharing: the list-monad product applies
				c.EqL(got, LMap2(df.S, da.S, g.Call2))
			}
		}},
		{"iterator.Map2", func(c *Cas) {
			da, db, g := c.Lopd(), c.Lopd(), c.Fn()
			c.Site("iterator.Map2")
			got := c.Twice(func() []int { return IterInts(iterator.Map2(da.Iter(), db.Iter(), g.Call2)) })
			c.Site("iterator.FlatMap")
			c.EqLD(got, IterInts(DefIterMap2(da.Iter(), db.Iter(), g.Call2)))
			if len(da.S) <= 1 {
				c.EqL(got, LMap2(da.S, db.S, g.Call2))
			}
		}},
		{"iterator.Flap", func(c *Cas) {
			df, g := c.Lopd(), c.Fn()
			xs := c.Ints(1)
			c.Site("iterator.Flap")
			got := c.Twice(func() []int { return IterInts(iterator.Flap(IterFuncs(df, g))(xs[0])) })
			c.Site("iterator.FlatMap")
			c.EqLD(got, IterInts(DefIterFlap(IterFuncs(df, g), xs[0])))
			if len(df.S) <= 1 {
				c.EqL(got, LMap(df.S, func(cv int) int { return g.Call(cv, xs[0]) }))
			}
		}},
		{"iterator.Flap2", func(c *Cas) {
			df, g := c.Lopd(), c.Fn()
			xs := c.Ints(2)
			mk := func() fp.Iterator[fp.Func1[int, fp.Func1[int, int]]] { return iterator.Map(df.Iter(), Curry3(g)) }
			c.Site("iterator.Flap2")
			got := c.Twice(func() []int { return IterInts(iterator.Flap2(mk())(xs[0])(xs[1])) })
			c.Site("iterator.FlatMap")
			c.EqLD(got, IterInts(DefIterFlap(DefIterAp(mk(), iterator.Of(xs[0])), xs[1])))
			if len(df.S) <= 1 {
				c.EqL(got, LMap(df.S, func(cv int) int { return g.Call(cv, xs[0], xs[1]) }))
			}
		}},
		{"iterator.FlapMap", func(c *Cas) {
			d, g := c.Lopd(), c.Fn()
			xs := c.Ints(1)
			c.Site("iterator.FlapMap")
			got := c.Twice(func() []int { return IterInts(iterator.FlapMap(g.Call2, d.Iter())(xs[0])) })
			c.Site("iterator.FlatMap")
			c.EqLD(got, IterInts(DefIterFlap(DefIterMap(d.Iter(), Curry2(g)), xs[0])))
			if len(d.S) <= 1 {
				c.EqL(got, LMap(d.S, func(a int) int { return g.Call(a, xs[0]) }))
			}
		}},
		{"iterator.Method1", func(c *Cas) {
			d, g := c.Lopd(), c.Fn()
			xs := c.Ints(1)
			c.Site("iterator.Method1")
			got := c.Twice(func() []int { return IterInts(iterator.Method1(d.Iter(), g.Call2)(xs[0])) })
			c.Site("iterator.FlatMap")
			c.EqLD(got, IterInts(DefIterFlap(DefIterMap(d.Iter(), Curry2(g)), xs[0])))
			if len(d.S) <= 1 {
				c.EqL(got, LMap(d.S, func(a int) int { return g.Call(a, xs[0]) }))
			}
		}},
		{"iterator.Method2", func(c *Cas) {
			d, g := c.Lopd(), c.Fn()
			xs := c.Ints(2)
			c.Site("iterator.Method2")
			got := c.Twice(func() []int {
				return IterInts(iterator.Method2(d.Iter(), func(a, b, cc int) int { return g.Call(a, b, cc) })(xs[0], xs[1]))
			})
			c.Site("iterator.FlatMap")
			c.EqLD(got, IterInts(DefIterFlap(DefIterAp(DefIterMap(d.Iter(), Curry3(g)), iterator.Of(xs[0])), xs[1])))
			if len(d.S) <= 1 {
				c.EqL(got, LMap(d.S, func(a int) int { return g.Call(a, xs[0], xs[1]) }))
			}
		}},
	}
	return append(cs, ChecksIteratorArity()...)
}
