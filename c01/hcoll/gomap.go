// C01 — Iterator operands backed by Go maps with SEVERAL entries (iterator.FromMap / FromMapKey /
// FromMapValue, fp.IteratorOfGoMap, mutable.Set.Iterator, iterator.Pull over maps.Keys / Values):
// the order is the runtime's, so results are compared as multisets (sorted). Every source is built,
// two garbage collections are forced (finalizers run), the combinator is applied and the result
// is consumed with one more forced double collection after the first element. The ordered
// pull-based operands are part of the ordinary operand palette (core/gcpull.go).
package hcoll

import (
	"maps"
	"sort"

	. "verif/c01/core"

	"github.com/csgura/fp"
	"github.com/csgura/fp/iterator"
	"github.com/csgura/fp/mutable"
	"github.com/csgura/fp/option"
	"github.com/csgura/fp/try"
)

var goMapSources = []string{"iterator.FromMapKey", "iterator.FromMapValue", "iterator.FromMap", "fp.IteratorOfGoMap", "mutable.Set.Iterator", "iterator.Pull(maps.Keys)", "iterator.Pull(maps.Values)"}

// GoMapHits: hit names that must be observed (floors).
func GoMapHits() []string {
	out := []string{}
	for _, s := range goMapSources {
		out = append(out, "go-map-source:"+s)
	}
	return out
}

func gcSourceHits() []string {
	out := []string{}
	for _, s := range GCSourceKinds {
		out = append(out, "gc-source:"+s)
	}
	return out
}

type goMapSrc struct {
	keys, vals []int
	kind       int
}

func mkGoMapSrc(c *Cas) goMapSrc {
	sizes := []int{0, 1, 2, 2, 3, 3, 4, 5, 8, 9, 17}
	n := sizes[c.R.IntN(len(sizes))]
	g := goMapSrc{kind: (c.Rot + c.R.IntN(2)*3) % len(goMapSources)}
	base := c.R.IntN(500)
	for i := 0; i < n; i++ {
		g.keys = append(g.keys, base+i*3)
		g.vals = append(g.vals, c.R.IntN(900))
	}
	c.Shape("gomap:" + goMapSources[g.kind] + "/" + SeqShape(g.keys))
	c.Note("go map keys %v values %v source %s", g.keys, g.vals, goMapSources[g.kind])
	return g
}

// elems: what the source yields, as a multiset.
func (g goMapSrc) elems() []int {
	out := []int{}
	for i, k := range g.keys {
		switch g.kind {
		case 0, 4, 5:
			out = append(out, k)
		case 1, 6:
			out = append(out, g.vals[i])
		default:
			out = append(out, k*1000+g.vals[i])
		}
	}
	return out
}

// iter builds the source (a fresh Go map every time) and forces the collector twice.
func (g goMapSrc) iter(c *Cas) IT {
	m := map[int]int{}
	for i, k := range g.keys {
		m[k] = g.vals[i]
	}
	pair := func(t fp.Tuple2[int, int]) int { return t.I1*1000 + t.I2 }
	var it IT
	switch g.kind {
	case 0:
		it = iterator.FromMapKey(m)
	case 1:
		it = iterator.FromMapValue(m)
	case 2:
		it = iterator.Map(iterator.FromMap(m), pair)
	case 3:
		it = iterator.Map(fp.IteratorOfGoMap(m), pair)
	case 4:
		s := mutable.Set[int]{}
		for _, k := range g.keys {
			s[k] = true
		}
		it = s.Iterator()
	case 5:
		it = iterator.Pull(maps.Keys(m))
	default:
		it = iterator.Pull(maps.Values(m))
	}
	c.W.Hit("go-map-source:" + goMapSources[g.kind])
	if !ForceGC() {
		return it
	}
	c.GCObs = true
	c.W.Add("gc.go-map-operands.iterator", 1)
	if len(g.keys) >= 2 {
		c.W.Add("gc.go-map-operands-with-two-or-more-entries.iterator", 1)
	}
	return it
}

func sorted(s []int) []int {
	out := append([]int{}, s...)
	sort.Ints(out)
	return out
}

func ChecksGoMap() []Check {
	return []Check{
		{"iterator.Map(go-map source)", func(c *Cas) {
			g, f := mkGoMapSrc(c), c.F1()
			c.Site("iterator.Map")
			got := IterInts(iterator.Map(g.iter(c), f.Call))
			c.EqL(sorted(got), sorted(LMap(g.elems(), f.Call)))
			c.Site("iterator.FlatMap")
			c.EqLD(sorted(got), sorted(IterInts(DefIterMap(g.iter(c), f.Call))))
		}},
		{"iterator.FlatMap(go-map source)", func(c *Cas) {
			g, k := mkGoMapSrc(c), c.Lkl()
			v := c.R.IntN(5)
			f := func(x int) IT { return Lopd{S: k.At(x), V: v}.Iter() }
			c.Site("iterator.FlatMap")
			ri := IterInts(iterator.FlatMap(g.iter(c), func(x int) IT { return iterator.Of(x) }))
			c.Law("right-identity-vs-reference", ShowInts(sorted(ri)), ShowInts(sorted(g.elems())))
			got := IterInts(iterator.FlatMap(g.iter(c), f))
			c.EqL(sorted(got), sorted(LFlatMap(g.elems(), k.At)))
			c.Site("iterator.Flatten")
			fl := IterInts(iterator.Flatten(iterator.Map(g.iter(c), f)))
			c.EqL(sorted(fl), sorted(LFlatMap(g.elems(), k.At)))
		}},
		{"iterator.FilterMap(go-map source)", func(c *Cas) {
			g, k := mkGoMapSrc(c), c.Okl()
			c.Site("iterator.FilterMap")
			got := IterInts(iterator.FilterMap(g.iter(c), k.Opt))
			c.EqL(sorted(got), sorted(LFlatMap(g.elems(), func(x int) []int {
				if v, ok := k.At(x); ok {
					return []int{v}
				}
				return []int{}
			})))
			c.Site("Iterator.ToSeq")
			c.EqL(sorted(g.iter(c).ToSeq()), sorted(g.elems()))
		}},
		{"iterator.Ap(go-map source)", func(c *Cas) {
			g, df, fn := mkGoMapSrc(c), c.Lopd(), c.Fn()
			c.Site("iterator.Ap")
			// the argument operand is consumed by the FIRST function (single use, by design)
			got := IterInts(iterator.Ap(IterFuncs(df, fn), g.iter(c)))
			want := []int{}
			if len(df.S) > 0 {
				want = LMap(g.elems(), func(a int) int { return fn.Call(df.S[0], a) })
			}
			c.EqL(sorted(got), sorted(want))
			c.Site("iterator.Map2")
			got2 := IterInts(iterator.Map2(g.iter(c), df.Iter(), fn.Call2))
			// the second operand is consumed while the first element of the first is combined
			seen := map[int]bool{}
			for _, x := range got2 {
				seen[x] = true
			}
			ok := len(got2) == len(df.S) && (len(g.keys) > 0 || len(got2) == 0)
			if ok && len(got2) > 0 {
				ok = false
				for _, a := range g.elems() { // some element of the map was the first one
					all := true
					for i, b := range df.S {
						if got2[i] != fn.Call(a, b) {
							all = false
						}
					}
					if all {
						ok = true
					}
				}
			}
			if len(g.keys) == 0 {
				ok = len(got2) == 0
			}
			if !ok {
				c.Fail("differs-from-reference", "iterator.Map2(go-map source %v, %v, g) returned %v: not g(a, b) for ONE element a of the map and every b in order", g.elems(), df.S, got2)
			}
		}},
		{"try.Traverse(go-map source)", func(c *Cas) {
			g := mkGoMapSrc(c)
			k := Kld{A: 1 + c.R.IntN(50), B: c.R.IntN(1000), O: Opd{V: c.R.IntN(6)}} // total
			c.Note("kleisli %+v", k)
			c.Site("try.Traverse")
			got := try.Traverse(g.iter(c), func(x int) fp.Try[int] { return BuildTry(k.At(x), IdInt) })
			want := sorted(LMap(g.elems(), func(x int) int { v, _, _ := k.At(x).At(0); return v }))
			if !got.IsSuccess() {
				c.Fail("differs-from-reference", "try.Traverse over a go-map source with a total function failed: %v", got)
				return
			}
			c.EqL(sorted(IterInts(got.Get())), want)
			c.Site("option.Traverse")
			og := option.Traverse(g.iter(c), func(x int) fp.Option[int] { return BuildOption(k.At(x), IdInt) })
			if !og.IsDefined() {
				c.Fail("differs-from-reference", "option.Traverse over a go-map source with a total function returned None")
				return
			}
			c.EqL(sorted(IterInts(og.Get())), want)
			c.Site("try.FoldM")
			sum := try.FoldM(g.iter(c), 0, func(acc, x int) fp.Try[int] { return try.Success(Md(acc + x)) })
			ws := 0
			for _, x := range g.elems() {
				ws = Md(ws + x)
			}
			if !sum.IsSuccess() || sum.Get() != ws {
				c.Fail("differs-from-reference", "try.FoldM(go-map source %v, 0, +) returned %v, want Success(%d)", g.elems(), sum, ws)
			}
		}},
	}
}
