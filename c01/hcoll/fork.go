// C01 — forks of lazy lists and of Iterator-producing values (core/fork.go).
//
// list: one (lazy, persistent) fp.List value with k = 0..40 pending list.Map / FlatMap / FilterMap /
// Map2 steps is the base; several continuations with different functions are bound to it through
// every binding combinator of list, all are kept, their cells are then walked interleaved in PRNG
// order (one or two cells of one arm at a time) and afterwards every arm is walked again in full,
// in PRNG order, more than once.
//
// iterator: an Iterator is single-use, what can legitimately be used twice is (a) a function value
// that produces Iterators — the base is k nested iterator.Compose / ComposePure calls — and (b) a
// persistent source (the lazy list above) from which any number of Iterators are made. Arms apply
// / extend the shared function or re-iterate the shared source; the Iterators of all arms are
// pulled interleaved in PRNG order, then every arm is run again (a new Iterator each time).
package hcoll

import (
	"fmt"

	. "verif/c01/core"
	"verif/vrt"

	"github.com/csgura/fp"
	"github.com/csgura/fp/iterator"
	"github.com/csgura/fp/list"
)

type LI = fp.List[int]

type armKind struct{ Comb, Pos string }

func forkExtra(ks []armKind) []string {
	seen := map[string]bool{}
	var out []string
	for _, k := range ks {
		for _, h := range []string{ForkHit(k.Comb, ""), ForkHit(k.Comb, k.Pos)} {
			if !seen[h] {
				seen[h] = true
				out = append(out, h)
			}
		}
	}
	return out
}

func ForkHarnesses() []PkgHarness {
	return []PkgHarness{
		{Prof: ProfList, Checks: []Check{{Name: "list.fork", Run: forkList}}, Extra: forkExtra(listArmKinds)},
		{Prof: ProfIterator, Checks: []Check{{Name: "iterator.fork", Run: forkIterator}}, Extra: forkExtra(append(append([]armKind{}, iterFnArmKinds...), iterSrcArmKinds...))},
	}
}

// ---- a lazy list with pending steps -----------------------------------------------------------------

// kl1: x -> a list of N elements (N fixed per step so that sizes stay under control).
type kl1 struct{ A, B, N, V int }

func (k kl1) At(x int) []int {
	out := make([]int, k.N)
	for i := range out {
		out[i] = Md(x*k.A + k.B + i*7)
	}
	return out
}
func (k kl1) List(x int) LI { return Lopd{S: k.At(x), V: k.V + x}.List() }
func (k kl1) Iter(x int) IT { return Lopd{S: k.At(x), V: k.V + x}.Iter() }

// lsStep: Kind 0: list.Map(l, F), 1: list.FlatMap(l, K), 2: list.FilterMap(l, P), 3: list.Map2(l, [O], G),
// 4: list.Map2([O], l, G).
type lsStep struct {
	Kind int
	F    F1d
	K    kl1
	P    Okd
	G    Fnd
	O    int
}

type lsBase struct {
	D     Lopd
	Steps []lsStep
}

func (b lsBase) Build() LI {
	l := b.D.List()
	for _, s := range b.Steps {
		switch s.Kind {
		case 0:
			l = list.Map(l, s.F.Call)
		case 1:
			l = list.FlatMap(l, s.K.List)
		case 2:
			l = list.FilterMap(l, s.P.Opt)
		case 3:
			l = list.Map2(l, list.Of(s.O), s.G.Call2)
		default:
			l = list.Map2(list.Of(s.O), l, s.G.Call2)
		}
	}
	return l
}

func lsStepRef(v []int, s lsStep) []int {
	switch s.Kind {
	case 0:
		return LMap(v, s.F.Call)
	case 1:
		return LFlatMap(v, s.K.At)
	case 2:
		return LFlatMap(v, func(x int) []int {
			if y, ok := s.P.At(x); ok {
				return []int{y}
			}
			return nil
		})
	case 3:
		return LMap(v, func(x int) int { return s.G.Call(x, s.O) })
	}
	return LMap(v, func(x int) int { return s.G.Call(s.O, x) })
}

func (b lsBase) Ref() []int {
	v := append([]int{}, b.D.S...)
	for _, s := range b.Steps {
		v = lsStepRef(v, s)
	}
	return v
}

// genLsBase draws a base with k pending steps; the step kinds are chosen so that the list neither
// dies out early nor grows beyond a few dozen elements.
func genLsBase(c *Cas, k int) lsBase {
	r := c.R
	n := 1 + r.IntN(4)
	if r.IntN(12) == 0 {
		n = 0
	}
	s := make([]int, n)
	for i := range s {
		s[i] = r.IntN(1000)
	}
	b := lsBase{D: Lopd{S: s, V: r.IntN(4)}}
	cur := append([]int{}, s...)
	for i := 0; i < k; i++ {
		st := lsStep{F: F1d{1 + r.IntN(50), r.IntN(1000)}, K: kl1{1 + r.IntN(50), r.IntN(1000), 1, r.IntN(4)}, P: Okd{1 + r.IntN(50), r.IntN(1000), 0},
			G: Fnd{r.IntN(1000)}, O: r.IntN(1000)}
		switch x := r.IntN(10); {
		case x < 3:
			st.Kind = 0
		case x < 6:
			st.Kind = 1
			if len(cur) <= 8 {
				st.K.N = 1 + r.IntN(2)
			}
			if len(cur) > 16 && r.IntN(3) == 0 {
				st.K.N = 0 // FlatMap to empty lists: the list ends here
			}
		case x < 7:
			st.Kind = 2
			if len(cur) > 3 {
				st.P.M = 3 + r.IntN(3)
			}
		default:
			st.Kind = 3 + r.IntN(2)
		}
		b.Steps = append(b.Steps, st)
		cur = lsStepRef(cur, st)
	}
	c.Shape(fmt.Sprintf("%s/v%d+%d", SeqShape(s), b.D.V%4, k))
	c.Note("base list %v variant %d with %d pending steps %+v", s, b.D.V, k, b.Steps)
	if len(cur) > 0 {
		c.W.Add("fork.base-nonempty."+c.P.Pkg, 1)
	}
	if len(cur) > 1 {
		c.W.Add("fork.base-longer-than-one."+c.P.Pkg, 1)
	}
	return b
}

var listArmKinds = []armKind{
	{"list.Map", "operand"},                      // 0
	{"list.FlatMap", "operand"},                  // 1
	{"list.Map2", "first-operand"},               // 2
	{"list.Map2", "second-operand"},              // 3
	{"list.Map2", "both-operands"},               // 4
	{"list.Ap", "function-operand"},              // 5
	{"list.Ap", "argument-operand"},              // 6
	{"list.Flatten", "of-mapped-base"},           // 7
	{"list.Zip", "first-operand"},                // 8
	{"list.Zip", "second-operand"},               // 9
	{"list.FilterMap", "operand"},                // 10
	{"list.Lift", "argument"},                    // 11
	{"list.Flap", "of-mapped-base"},              // 12
	{"list.FlapMap", "operand"},                  // 13
	{"list.Method1", "receiver"},                 // 14
	{"list.Compose", "used-inside-function"},     // 15
	{"list.FlatMap", "used-inside-continuation"}, // 16
	{"list.Combine", "operand"},                  // 17
	{"list.Concat", "tail"},                      // 18
	{"list.Zip3", "middle-operand"},              // 19
	{"list.List", "base-itself"},                 // 20
}

type lsArm struct {
	Kind   int
	F      F1d
	K      kl1
	P      Okd
	G      Fnd
	O      Lopd
	X, Sel int
}

func genLsArm(c *Cas, kind int) lsArm {
	r := c.R
	o := make([]int, r.IntN(4))
	for i := range o {
		o[i] = r.IntN(1000)
	}
	return lsArm{kind, F1d{1 + r.IntN(50), r.IntN(1000)}, kl1{1 + r.IntN(50), r.IntN(1000), r.IntN(3), r.IntN(4)}, Okd{1 + r.IntN(50), r.IntN(1000), r.IntN(4)},
		Fnd{r.IntN(1000)}, Lopd{S: o, V: r.IntN(4)}, r.IntN(1000), r.IntN(2)}
}

func zipG(g Fnd) func(fp.Tuple2[int, int]) int {
	return func(t fp.Tuple2[int, int]) int { return g.Call(t.I1, t.I2) }
}

func (a lsArm) Apply(c *Cas, l LI) LI {
	c.Site(listArmKinds[a.Kind].Comb)
	g2 := a.G.Call2
	mapG := func(x int) LI { return list.Map(l, func(y int) int { return a.G.Call(x, y) }) }
	switch a.Kind {
	case 0:
		return list.Map(l, a.F.Call)
	case 1:
		return list.FlatMap(l, a.K.List)
	case 2:
		return list.Map2(l, a.O.List(), g2)
	case 3:
		return list.Map2(a.O.List(), l, g2)
	case 4:
		return list.Map2(l, l, g2)
	case 5:
		return list.Ap(list.Map(l, Curry2(a.G)), a.O.List())
	case 6:
		return list.Ap(list.Map(a.O.List(), Curry2(a.G)), l)
	case 7:
		return list.Flatten(list.Map(l, a.K.List))
	case 8:
		return list.Map(list.Zip(l, a.O.List()), zipG(a.G))
	case 9:
		return list.Map(list.Zip(a.O.List(), l), zipG(a.G))
	case 10:
		return list.FilterMap(l, a.P.Opt)
	case 11:
		return list.Lift(a.F.Call)(l)
	case 12:
		return list.Flap(list.Map(l, Curry2(a.G)))(a.X)
	case 13:
		return list.FlapMap(g2, l)(a.X)
	case 14:
		return list.Method1(l, g2)(a.X)
	case 15:
		return list.Compose(mapG, a.K.List)(a.X)
	case 16:
		return list.FlatMap(a.O.List(), mapG)
	case 17:
		if a.Sel == 0 {
			return list.Combine(l, a.O.List())
		}
		return list.Combine(a.O.List(), l)
	case 18:
		return list.Concat(a.X, l)
	case 19:
		return list.Map(list.Zip3(a.O.List(), l, a.O.List()), func(t fp.Tuple3[int, int, int]) int { return a.G.Call(t.I1, t.I2, t.I3) })
	}
	return l
}

func lzip(a, b []int, f func(int, int) int) []int {
	out := []int{}
	for i := 0; i < len(a) && i < len(b); i++ {
		out = append(out, f(a[i], b[i]))
	}
	return out
}

func (a lsArm) Ref(v []int) []int {
	g2 := a.G.Call2
	mapG := func(x int) []int { return LMap(v, func(y int) int { return a.G.Call(x, y) }) }
	switch a.Kind {
	case 0, 11:
		return LMap(v, a.F.Call)
	case 1, 7:
		return LFlatMap(v, a.K.At)
	case 2, 5:
		return LMap2(v, a.O.S, g2)
	case 3, 6:
		return LMap2(a.O.S, v, g2)
	case 4:
		return LMap2(v, v, g2)
	case 8:
		return lzip(v, a.O.S, g2)
	case 9:
		return lzip(a.O.S, v, g2)
	case 10:
		return LFlatMap(v, func(x int) []int {
			if y, ok := a.P.At(x); ok {
				return []int{y}
			}
			return nil
		})
	case 12, 13, 14:
		return LMap(v, func(x int) int { return a.G.Call(x, a.X) })
	case 15:
		return LFlatMap(mapG(a.X), a.K.At)
	case 16:
		return LFlatMap(a.O.S, mapG)
	case 17:
		if a.Sel == 0 {
			return append(append([]int{}, v...), a.O.S...)
		}
		return append(append([]int{}, a.O.S...), v...)
	case 18:
		return append([]int{a.X}, v...)
	case 19:
		out := []int{}
		for i := 0; i < len(v) && i < len(a.O.S); i++ {
			out = append(out, a.G.Call(a.O.S[i], v[i], a.O.S[i]))
		}
		return out
	}
	return append([]int{}, v...)
}

// interleave: n sources, each stepped (one or two elements at a time) in PRNG order until all are
// exhausted; returns what each yielded.
func interleave(c *Cas, n int, step func(i int) (int, bool)) [][]int {
	out := make([][]int, n)
	for i := range out {
		out[i] = []int{}
	}
	live := make([]int, n)
	for i := range live {
		live[i] = i
	}
	bud := vrt.NewBudget(200000, "interleaved walk of the arms of a fork yields more than 200000 elements")
	for len(live) > 0 {
		j := c.R.IntN(len(live))
		i := live[j]
		for t := 1 + c.R.IntN(2); t > 0; t-- {
			bud.Tick()
			v, ok := step(i)
			if !ok {
				live[j] = live[len(live)-1]
				live = live[:len(live)-1]
				break
			}
			out[i] = append(out[i], v)
		}
	}
	return out
}

// firstThen: the first observation of an arm is what the interleaved walk yielded, later ones are
// full walks.
func firstThen(first []int, later func() []int) func() string {
	used := false
	return func() string {
		if !used {
			used = true
			return ShowInts(first)
		}
		return ShowInts(later())
	}
}

func forkList(c *Cas) {
	k := c.ForkPending()
	b := genLsBase(c, k)
	l := b.Build() // the shared base
	nk := len(listArmKinds)
	var specs []lsArm
	var vals []LI
	var fresh []func() string
	var wants []string
	var descs []string
	var kinds []int
	for _, kd := range c.ForkPick(nk, 2+c.R.IntN(4)) {
		a := genLsArm(c, kd)
		specs, vals, kinds = append(specs, a), append(vals, a.Apply(c, l)), append(kinds, kd)
		fresh = append(fresh, func() string { return ShowInts(ListInts(a.Apply(c, b.Build()))) })
		wants = append(wants, ShowInts(a.Ref(b.Ref())))
		descs = append(descs, fmt.Sprintf("%+v", a))
	}
	if c.R.IntN(2) == 0 && listArmKinds[specs[0].Kind].Pos != "base-itself" {
		s0, d0 := specs[0], vals[0]
		for _, kd := range c.ForkPick(nk-1, 2) {
			a := genLsArm(c, kd)
			specs, vals, kinds = append(specs, a), append(vals, a.Apply(c, d0)), append(kinds, kd)
			fresh = append(fresh, func() string { return ShowInts(ListInts(a.Apply(c, s0.Apply(c, b.Build())))) })
			wants = append(wants, ShowInts(a.Ref(s0.Ref(b.Ref()))))
			descs = append(descs, fmt.Sprintf("bound to arm 0: %+v", a))
		}
		c.W.Add("fork.second-level.list", 1)
	}
	// cells of all arms walked interleaved
	cur := append([]LI{}, vals...)
	c.Site("list.fork/interleaved-walk")
	walked := interleave(c, len(cur), func(i int) (int, bool) {
		if !cur[i].NonEmpty() {
			return 0, false
		}
		h := cur[i].Head()
		cur[i] = cur[i].Tail()
		return h, true
	})
	c.W.Add("fork.interleaved-walks.list", 1)
	arms := make([]ForkArm, len(vals))
	for i := range vals {
		v := vals[i]
		arms[i] = ForkArm{Comb: listArmKinds[kinds[i]].Comb, Pos: listArmKinds[kinds[i]].Pos, Desc: descs[i],
			Obs: firstThen(walked[i], func() []int { return ListInts(v) }), Fresh: fresh[i], Want: wants[i]}
	}
	c.RunForks(k, arms)

	// the laws on a list with k pending steps; every side from its own construction
	k1 := kl1{1 + c.R.IntN(50), c.R.IntN(1000), c.R.IntN(3), c.R.IntN(4)}
	k2 := kl1{1 + c.R.IntN(50), c.R.IntN(1000), c.R.IntN(3), c.R.IntN(4)}
	c.Note("laws: k1 %+v k2 %+v", k1, k2)
	o := func(l LI) string { return ShowInts(ListInts(l)) }
	c.Site("list.FlatMap")
	ri := o(list.FlatMap(b.Build(), func(x int) LI { return list.Of(x) }))
	c.ForkLaw("list.FlatMap", "right-identity", k, ri, o(b.Build()))
	c.ForkLaw("list.FlatMap", "right-identity-vs-reference", k, ri, ShowInts(b.Ref()))
	as1 := o(list.FlatMap(list.FlatMap(b.Build(), k1.List), k2.List))
	as2 := o(list.FlatMap(b.Build(), func(x int) LI { return list.FlatMap(k1.List(x), k2.List) }))
	c.ForkLaw("list.FlatMap", "associativity", k, as1, as2)
	c.ForkLaw("list.FlatMap", "associativity-vs-reference", k, as1, ShowInts(LFlatMap(LFlatMap(b.Ref(), k1.At), k2.At)))
	// left identity with a kleisli arrow that carries the k pending steps
	a := c.IntZ()
	fk := func(x int) LI { return lsBase{D: Lopd{S: []int{x}, V: b.D.V}, Steps: b.Steps}.Build() }
	li := o(list.FlatMap(list.Of(a), fk))
	c.ForkLaw("list.FlatMap", "left-identity", k, li, o(fk(a)))
	c.ForkLaw("list.FlatMap", "left-identity-vs-reference", k, li, ShowInts(lsBase{D: Lopd{S: []int{a}}, Steps: b.Steps}.Ref()))
}

// ---- iterator -----------------------------------------------------------------------------------------

// itStep: Kind 0: iterator.Compose(F, K), 1: iterator.Compose(F, iterator.ComposePure(f)),
// 2: iterator.Compose(K, F) (the shared function as second stage).
type itStep struct {
	Kind int
	F    F1d
	K    kl1
}

type itBase struct {
	K0    kl1
	Steps []itStep
}

type ITF = func(int) IT

func (b itBase) Build() ITF {
	var f ITF = b.K0.Iter
	for _, s := range b.Steps {
		switch s.Kind {
		case 0:
			f = iterator.Compose(f, s.K.Iter)
		case 1:
			f = iterator.Compose(f, iterator.ComposePure(s.F.Call))
		default:
			f = iterator.Compose(s.K.Iter, f)
		}
	}
	return f
}

func (b itBase) Ref(x int) []int {
	f := b.K0.At
	for _, s := range b.Steps {
		prev := f
		switch s.Kind {
		case 0:
			f = func(x int) []int { return LFlatMap(prev(x), s.K.At) }
		case 1:
			f = func(x int) []int { return LMap(prev(x), s.F.Call) }
		default:
			f = func(x int) []int { return LFlatMap(s.K.At(x), prev) }
		}
	}
	return f(x)
}

func genItBase(c *Cas, k int) itBase {
	r := c.R
	b := itBase{K0: kl1{1 + r.IntN(50), r.IntN(1000), 1 + r.IntN(3), r.IntN(4)}}
	grow := 0
	for i := 0; i < k; i++ {
		st := itStep{Kind: r.IntN(3), F: F1d{1 + r.IntN(50), r.IntN(1000)}, K: kl1{1 + r.IntN(50), r.IntN(1000), 1, r.IntN(4)}}
		if st.Kind != 1 && grow < 3 && r.IntN(4) == 0 {
			st.K.N = 2
			grow++
		}
		b.Steps = append(b.Steps, st)
	}
	c.Note("base function: kleisli %+v with %d nested Compose steps %+v", b.K0, k, b.Steps)
	return b
}

var iterFnArmKinds = []armKind{
	{"iterator.Compose", "first-stage"},                // 0
	{"iterator.Compose", "second-stage"},               // 1
	{"iterator.FlatMap", "function-argument"},          // 2
	{"iterator.Map", "of-function-result"},             // 3
	{"iterator.Lift", "of-function-result"},            // 4
	{"iterator.Flatten", "of-mapped-function-results"}, // 5
	{"iterator.Compose", "base-itself-applied"},        // 6
}

var iterSrcArmKinds = []armKind{
	{"iterator.Map", "operand"},                      // 0
	{"iterator.FlatMap", "operand"},                  // 1
	{"iterator.FilterMap", "operand"},                // 2
	{"iterator.Flatten", "of-mapped-source"},         // 3
	{"iterator.Zip", "first-operand"},                // 4
	{"iterator.Zip", "second-operand"},               // 5
	{"iterator.Concat", "tail"},                      // 6
	{"iterator.FlatMap", "used-inside-continuation"}, // 7
	{"iterator.FromList", "source-itself"},           // 8
}

type itArm struct {
	Kind int
	F    F1d
	K    kl1
	P    Okd
	G    Fnd
	O    Lopd
	X    int
}

func genItArm(c *Cas, kind int) itArm {
	r := c.R
	o := make([]int, r.IntN(4))
	for i := range o {
		o[i] = r.IntN(1000)
	}
	return itArm{kind, F1d{1 + r.IntN(50), r.IntN(1000)}, kl1{1 + r.IntN(50), r.IntN(1000), r.IntN(3), r.IntN(4)}, Okd{1 + r.IntN(50), r.IntN(1000), r.IntN(4)},
		Fnd{r.IntN(1000)}, Lopd{S: o, V: r.IntN(4)}, r.IntN(1000)}
}

// FnThunk: a thunk that makes a new Iterator from the shared function value f; derived values
// (composed functions) are built here, once.
func (a itArm) FnThunk(c *Cas, f ITF) func() IT {
	c.Site(iterFnArmKinds[a.Kind].Comb)
	switch a.Kind {
	case 0:
		h := iterator.Compose(f, a.K.Iter)
		return func() IT { return h(a.X) }
	case 1:
		h := iterator.Compose(a.K.Iter, f)
		return func() IT { return h(a.X) }
	case 2:
		return func() IT { return iterator.FlatMap(a.O.Iter(), f) }
	case 3:
		return func() IT { return iterator.Map(f(a.X), a.F.Call) }
	case 4:
		lf := iterator.Lift(a.F.Call)
		return func() IT { return lf(f(a.X)) }
	case 5:
		return func() IT { return iterator.Flatten(iterator.Map(a.O.Iter(), f)) }
	}
	return func() IT { return f(a.X) }
}

func (a itArm) FnRef(f func(int) []int) []int {
	switch a.Kind {
	case 0:
		return LFlatMap(f(a.X), a.K.At)
	case 1:
		return LFlatMap(a.K.At(a.X), f)
	case 2, 5:
		return LFlatMap(a.O.S, f)
	case 3, 4:
		return LMap(f(a.X), a.F.Call)
	}
	return f(a.X)
}

// SrcThunk: a thunk that makes a new Iterator over the shared persistent source l.
func (a itArm) SrcThunk(c *Cas, l LI) func() IT {
	c.Site(iterSrcArmKinds[a.Kind].Comb)
	src := func() IT {
		if a.X%2 == 0 {
			return iterator.FromList(l)
		}
		return iterator.List(l)
	}
	switch a.Kind {
	case 0:
		return func() IT { return iterator.Map(src(), a.F.Call) }
	case 1:
		return func() IT { return iterator.FlatMap(src(), a.K.Iter) }
	case 2:
		return func() IT { return iterator.FilterMap(src(), a.P.Opt) }
	case 3:
		return func() IT { return iterator.Flatten(iterator.Map(src(), a.K.Iter)) }
	case 4:
		return func() IT { return iterator.Map(iterator.Zip(src(), a.O.Iter()), zipG(a.G)) }
	case 5:
		return func() IT { return iterator.Map(iterator.Zip(a.O.Iter(), src()), zipG(a.G)) }
	case 6:
		return func() IT { return iterator.Concat(a.X, src()) }
	case 7:
		return func() IT {
			return iterator.FlatMap(a.O.Iter(), func(x int) IT { return iterator.Map(src(), func(y int) int { return a.G.Call(x, y) }) })
		}
	}
	return src
}

func (a itArm) SrcRef(v []int) []int {
	switch a.Kind {
	case 0:
		return LMap(v, a.F.Call)
	case 1, 3:
		return LFlatMap(v, a.K.At)
	case 2:
		return LFlatMap(v, func(x int) []int {
			if y, ok := a.P.At(x); ok {
				return []int{y}
			}
			return nil
		})
	case 4:
		return lzip(v, a.O.S, a.G.Call2)
	case 5:
		return lzip(a.O.S, v, a.G.Call2)
	case 6:
		return append([]int{a.X}, v...)
	case 7:
		return LFlatMap(a.O.S, func(x int) []int { return LMap(v, func(y int) int { return a.G.Call(x, y) }) })
	}
	return append([]int{}, v...)
}

func forkIterator(c *Cas) {
	k := c.ForkPending()
	fb := genItBase(c, k)
	sb := genLsBase(c, k)
	c.Shape(fmt.Sprintf("fn+%d", k))
	f := fb.Build() // the shared Iterator-producing function
	l := sb.Build() // the shared persistent source
	var thunks []func() IT
	var arms []ForkArm
	for _, kd := range c.ForkPick(len(iterFnArmKinds), 2+c.R.IntN(2)) {
		a := genItArm(c, kd)
		thunks = append(thunks, a.FnThunk(c, f))
		arms = append(arms, ForkArm{Comb: iterFnArmKinds[kd].Comb, Pos: iterFnArmKinds[kd].Pos, Desc: fmt.Sprintf("function arm %+v", a),
			Fresh: func() string { return ShowInts(IterInts(a.FnThunk(c, fb.Build())())) }, Want: ShowInts(a.FnRef(fb.Ref))})
	}
	for _, kd := range c.ForkPick(len(iterSrcArmKinds), 2+c.R.IntN(2)) {
		a := genItArm(c, kd)
		thunks = append(thunks, a.SrcThunk(c, l))
		arms = append(arms, ForkArm{Comb: iterSrcArmKinds[kd].Comb, Pos: iterSrcArmKinds[kd].Pos, Desc: fmt.Sprintf("source arm %+v", a),
			Fresh: func() string { return ShowInts(IterInts(a.SrcThunk(c, sb.Build())())) }, Want: ShowInts(a.SrcRef(sb.Ref()))})
	}
	// one Iterator per arm, pulled interleaved
	its := make([]IT, len(thunks))
	for i, th := range thunks {
		its[i] = th()
	}
	c.Site("iterator.fork/interleaved-pull")
	pulled := interleave(c, len(its), func(i int) (int, bool) {
		if !its[i].HasNext() {
			return 0, false
		}
		return its[i].Next(), true
	})
	c.W.Add("fork.interleaved-walks.iterator", 1)
	for i := range arms {
		th := thunks[i]
		arms[i].Obs = firstThen(pulled[i], func() []int { return IterInts(th()) })
	}
	c.RunForks(k, arms)

	// the laws, operands made from independent constructions of the function / the source
	k1 := kl1{1 + c.R.IntN(50), c.R.IntN(1000), c.R.IntN(3), c.R.IntN(4)}
	k2 := kl1{1 + c.R.IntN(50), c.R.IntN(1000), c.R.IntN(3), c.R.IntN(4)}
	a := c.IntZ()
	c.Note("laws: k1 %+v k2 %+v a=%d", k1, k2, a)
	o := func(it IT) string { return ShowInts(IterInts(it)) }
	src := func() IT { return iterator.FromList(sb.Build()) }
	c.Site("iterator.FlatMap")
	li := o(iterator.FlatMap(iterator.Of(a), fb.Build()))
	c.ForkLaw("iterator.FlatMap", "left-identity", k, li, o(fb.Build()(a)))
	c.ForkLaw("iterator.FlatMap", "left-identity-vs-reference", k, li, ShowInts(fb.Ref(a)))
	ri := o(iterator.FlatMap(src(), func(x int) IT { return iterator.Of(x) }))
	c.ForkLaw("iterator.FlatMap", "right-identity", k, ri, o(src()))
	c.ForkLaw("iterator.FlatMap", "right-identity-vs-reference", k, ri, ShowInts(sb.Ref()))
	as1 := o(iterator.FlatMap(iterator.FlatMap(src(), k1.Iter), k2.Iter))
	as2 := o(iterator.FlatMap(src(), func(x int) IT { return iterator.FlatMap(k1.Iter(x), k2.Iter) }))
	c.ForkLaw("iterator.FlatMap", "associativity", k, as1, as2)
	c.ForkLaw("iterator.FlatMap", "associativity-vs-reference", k, as1, ShowInts(LFlatMap(LFlatMap(sb.Ref(), k1.At), k2.At)))
}
