// C01 — random expression programs for the list monads (seq, list, iterator).
package hcoll

import (
	. "verif/c01/core"

	"encoding/json"
	"fmt"

	"github.com/csgura/fp"
	"github.com/csgura/fp/iterator"
	"github.com/csgura/fp/list"
	"github.com/csgura/fp/seq"
)

type Lexpr struct {
	Op   string   `json:"op"`
	L    *Lopd    `json:"l,omitempty"`
	F    *F1d     `json:"f,omitempty"`
	G    *Fnd     `json:"g,omitempty"`
	K    *Lkd     `json:"k,omitempty"`
	K2   *Lkd     `json:"k2,omitempty"`
	O    *Okd     `json:"o,omitempty"`
	V    int      `json:"v,omitempty"`
	V2   int      `json:"v2,omitempty"`
	Kids []*Lexpr `json:"kids,omitempty"`
}

func (e *Lexpr) String() string {
	b, _ := json.Marshal(e)
	return string(b)
}

// collOps: the combinators of one list-monad package, instantiated at int.
type CollOps[C any] struct {
	Leaf        func(Lopd) C
	Ints        func(C) []int
	Unit        func(int) C
	MapF        func(C, func(int) int) C
	Lift        func(C, func(int) int) C
	FlatMap     func(C, func(int) C) C
	LiftM       func(C, func(int) C) C
	Flatten     func(C, func(int) C) C
	Map2        func(C, C, func(int, int) int) C
	Ap          func(C, func(int) fp.Func1[int, int], C) C
	Compose     func(C, func(int) C, func(int) C) C
	ComposePure func(C, func(int) int) C
	FilterMap   func(C, func(int) fp.Option[int]) C
	Flap        func(C, func(int) fp.Func1[int, int], int) C
	Flap2       func(C, func(int) fp.Func1[int, fp.Func1[int, int]], int, int) C
	FlapMap     func(C, func(int, int) int, int) C
	Method1     func(C, func(int, int) int, int) C
	Method2     func(C, func(int, int, int) int, int, int) C
	Method3     func(C, func(int, int, int) int, int, int) C
}

type LopSpec struct {
	Name        string
	Kids, Bound int
	Sharing     bool // iterator: shares a single-use operand by design
}

var LprogOps = []LopSpec{
	{"map", 1, 0, false}, {"lift", 1, 0, false}, {"flatmap", 1, 1, false}, {"liftm", 1, 1, false},
	{"flatten", 1, 1, false}, {"compose", 1, 0, false}, {"composepure", 1, 0, false}, {"filtermap", 1, 0, false},
	{"method3", 1, 0, false},
	{"map2", 2, 0, true}, {"ap", 2, 0, true}, {"flap", 1, 0, true}, {"flap2", 1, 0, true},
	{"flapmap", 1, 0, true}, {"method1", 1, 0, true}, {"method2", 1, 0, true},
}

func HasOp[C any](o *CollOps[C], name string) bool {
	switch name {
	case "liftm":
		return o.LiftM != nil
	case "flap":
		return o.Flap != nil
	case "flap2":
		return o.Flap2 != nil
	case "flapmap":
		return o.FlapMap != nil
	case "method1":
		return o.Method1 != nil
	case "method2":
		return o.Method2 != nil
	case "method3":
		return o.Method3 != nil
	}
	return true
}

type LprogGen struct {
	C       *Cas
	Budget  int
	Allowed []LopSpec
	Ops     map[string]int
	Height  int
}

func (g *LprogGen) Leaf(nvars int) *Lexpr {
	c := g.C
	x := c.R.IntN(3)
	if nvars == 0 {
		x = 0
	}
	switch x {
	case 1:
		f := F1d{1 + c.R.IntN(50), c.R.IntN(1000)}
		return &Lexpr{Op: "var", V: c.R.IntN(nvars), F: &f}
	case 2:
		k := Lkd{1 + c.R.IntN(50), c.R.IntN(1000), c.R.IntN(4)}
		return &Lexpr{Op: "klvar", V: c.R.IntN(nvars), K: &k}
	}
	var s []int
	switch n := c.R.IntN(5); n {
	case 0:
	case 1:
		s = []int{}
	default:
		s = make([]int, n-1)
		for i := range s {
			s[i] = c.R.IntN(1000)
		}
	}
	return &Lexpr{Op: "leaf", L: &Lopd{s, c.R.IntN(5)}}
}

func (g *LprogGen) Gen(depth, nvars, level int) *Lexpr {
	c := g.C
	g.Budget--
	if level > g.Height {
		g.Height = level
	}
	if depth <= 1 || g.Budget <= 0 || c.R.IntN(100) < 12 {
		return g.Leaf(nvars)
	}
	sp := g.Allowed[c.R.IntN(len(g.Allowed))]
	g.Ops[sp.Name]++
	e := &Lexpr{Op: sp.Name, V: c.R.IntN(1000), V2: c.R.IntN(1000)}
	e.F = &F1d{1 + c.R.IntN(50), c.R.IntN(1000)}
	e.G = &Fnd{c.R.IntN(1000)}
	e.K = &Lkd{1 + c.R.IntN(50), c.R.IntN(1000), c.R.IntN(4)}
	e.K2 = &Lkd{1 + c.R.IntN(50), c.R.IntN(1000), c.R.IntN(4)}
	e.O = &Okd{1 + c.R.IntN(50), c.R.IntN(1000), c.R.IntN(4)}
	for i := 0; i < sp.Kids; i++ {
		e.Kids = append(e.Kids, g.Gen(depth-1, nvars, level+1))
	}
	for i := 0; i < sp.Bound; i++ {
		e.Kids = append(e.Kids, g.Gen(depth-1, nvars+1, level+1))
	}
	return e
}

// lEvalRef: the list monad on []int.
func LEvalRef(e *Lexpr, env []int) []int {
	kid := func(i int) []int { return LEvalRef(e.Kids[i], env) }
	body := func(i int) func(int) []int {
		return func(x int) []int { return LEvalRef(e.Kids[i], Bind(env, x)) }
	}
	switch e.Op {
	case "leaf":
		return e.L.S
	case "var":
		return []int{e.F.Call(env[e.V])}
	case "klvar":
		return e.K.At(env[e.V])
	case "map", "lift", "composepure":
		return LMap(kid(0), e.F.Call)
	case "flatmap", "liftm", "flatten":
		return LFlatMap(kid(0), body(1))
	case "compose":
		return LFlatMap(LFlatMap(kid(0), e.K.At), e.K2.At)
	case "filtermap":
		return LFlatMap(kid(0), func(x int) []int {
			if v, ok := e.O.At(x); ok {
				return []int{v}
			}
			return nil
		})
	case "map2", "ap":
		return LMap2(kid(0), kid(1), e.G.Call2)
	case "flap", "flapmap", "method1":
		return LMap(kid(0), func(a int) int { return e.G.Call(a, e.V) })
	case "flap2", "method2", "method3":
		return LMap(kid(0), func(a int) int { return e.G.Call(a, e.V, e.V2) })
	}
	panic("lEvalRef: unknown op " + e.Op)
}

func LEval[C any](o *CollOps[C], e *Lexpr, env []int) C {
	kid := func(i int) C { return LEval(o, e.Kids[i], env) }
	body := func(i int) func(int) C {
		return func(x int) C { return LEval(o, e.Kids[i], Bind(env, x)) }
	}
	f3 := func(a, b, cc int) int { return e.G.Call(a, b, cc) }
	switch e.Op {
	case "leaf":
		return o.Leaf(*e.L)
	case "var":
		return o.Unit(e.F.Call(env[e.V]))
	case "klvar":
		return o.Leaf(Lopd{e.K.At(env[e.V]), e.V})
	case "map":
		return o.MapF(kid(0), e.F.Call)
	case "lift":
		return o.Lift(kid(0), e.F.Call)
	case "composepure":
		return o.ComposePure(kid(0), e.F.Call)
	case "flatmap":
		return o.FlatMap(kid(0), body(1))
	case "liftm":
		return o.LiftM(kid(0), body(1))
	case "flatten":
		return o.Flatten(kid(0), body(1))
	case "compose":
		k1 := func(x int) C { return o.Leaf(Lopd{e.K.At(x), e.V}) }
		k2 := func(x int) C { return o.Leaf(Lopd{e.K2.At(x), e.V2}) }
		return o.Compose(kid(0), k1, k2)
	case "filtermap":
		return o.FilterMap(kid(0), e.O.Opt)
	case "map2":
		a, b := kid(0), kid(1)
		return o.Map2(a, b, e.G.Call2)
	case "ap":
		a, b := kid(0), kid(1)
		return o.Ap(a, Curry2(*e.G), b)
	case "flap":
		return o.Flap(kid(0), Curry2(*e.G), e.V)
	case "flap2":
		return o.Flap2(kid(0), Curry3(*e.G), e.V, e.V2)
	case "flapmap":
		return o.FlapMap(kid(0), e.G.Call2, e.V)
	case "method1":
		return o.Method1(kid(0), e.G.Call2, e.V)
	case "method2":
		return o.Method2(kid(0), f3, e.V, e.V2)
	case "method3":
		return o.Method3(kid(0), f3, e.V, e.V2)
	}
	panic("lEval: unknown op " + e.Op)
}

func SeqOps(c *Cas) *CollOps[fp.Seq[int]] {
	type C = fp.Seq[int]
	st := func(n string) { c.Site("seq." + n) }
	return &CollOps[C]{
		Leaf:    func(d Lopd) C { return d.Seq() },
		Ints:    func(x C) []int { return x },
		Unit:    func(x int) C { st("Pure"); return seq.Pure(x) },
		MapF:    func(m C, f func(int) int) C { st("Map"); return seq.Map(m, f) },
		Lift:    func(m C, f func(int) int) C { st("Lift"); return seq.Lift(f)(m) },
		FlatMap: func(m C, f func(int) C) C { st("FlatMap"); return seq.FlatMap(m, f) },
		LiftM:   func(m C, f func(int) C) C { st("LiftM"); return seq.LiftM(f)(m) },
		Flatten: func(m C, f func(int) C) C {
			st("Map")
			mm := seq.Map(m, f)
			st("Flatten")
			return seq.Flatten(mm)
		},
		Map2: func(a, b C, f func(int, int) int) C { st("Map2"); return seq.Map2(a, b, f) },
		Ap: func(a C, cf func(int) fp.Func1[int, int], b C) C {
			st("Map")
			tf := seq.Map(a, cf)
			st("Ap")
			return seq.Ap(tf, b)
		},
		Compose: func(m C, k1, k2 func(int) C) C {
			st("Compose")
			k := seq.Compose(k1, k2)
			st("FlatMap")
			return seq.FlatMap(m, k)
		},
		ComposePure: func(m C, f func(int) int) C {
			st("ComposePure")
			k := seq.ComposePure(f)
			st("FlatMap")
			return seq.FlatMap(m, k)
		},
		FilterMap: func(m C, f func(int) fp.Option[int]) C { st("FilterMap"); return seq.FilterMap(m, f) },
	}
}

func ListOps(c *Cas) *CollOps[fp.List[int]] {
	type C = fp.List[int]
	st := func(n string) { c.Site("list." + n) }
	return &CollOps[C]{
		Leaf:    func(d Lopd) C { return d.List() },
		Ints:    ListInts,
		Unit:    func(x int) C { st("Of"); return list.Of(x) },
		MapF:    func(m C, f func(int) int) C { st("Map"); return list.Map(m, f) },
		Lift:    func(m C, f func(int) int) C { st("Lift"); return list.Lift(f)(m) },
		FlatMap: func(m C, f func(int) C) C { st("FlatMap"); return list.FlatMap(m, f) },
		Flatten: func(m C, f func(int) C) C {
			st("Map")
			mm := list.Map(m, f)
			st("Flatten")
			return list.Flatten(mm)
		},
		Map2: func(a, b C, f func(int, int) int) C { st("Map2"); return list.Map2(a, b, f) },
		Ap: func(a C, cf func(int) fp.Func1[int, int], b C) C {
			st("Map")
			tf := list.Map(a, cf)
			st("Ap")
			return list.Ap(tf, b)
		},
		Compose: func(m C, k1, k2 func(int) C) C {
			st("Compose")
			k := list.Compose(k1, k2)
			st("FlatMap")
			return list.FlatMap(m, k)
		},
		ComposePure: func(m C, f func(int) int) C {
			st("ComposePure")
			k := list.ComposePure(f)
			st("FlatMap")
			return list.FlatMap(m, k)
		},
		FilterMap: func(m C, f func(int) fp.Option[int]) C { st("FilterMap"); return list.FilterMap(m, f) },
		Flap: func(m C, cf func(int) fp.Func1[int, int], x int) C {
			st("Map")
			tf := list.Map(m, cf)
			st("Flap")
			return list.Flap(tf)(x)
		},
		Flap2: func(m C, cf func(int) fp.Func1[int, fp.Func1[int, int]], x, y int) C {
			st("Map")
			tf := list.Map(m, cf)
			st("Flap2")
			return list.Flap2(tf)(x)(y)
		},
		FlapMap: func(m C, f func(int, int) int, x int) C { st("FlapMap"); return list.FlapMap(f, m)(x) },
		Method1: func(m C, f func(int, int) int, x int) C { st("Method1"); return list.Method1(m, f)(x) },
		Method2: func(m C, f func(int, int, int) int, x, y int) C { st("Method2"); return list.Method2(m, f)(x, y) },
	}
}

// iterOps: def=false the library's combinators; def=true their textbook definitions written
// with iterator.FlatMap and iterator.Of only.
func IterOps(c *Cas, def bool) *CollOps[IT] {
	st := func(n string) {
		if def {
			n = "FlatMap"
		}
		c.Site("iterator." + n)
	}
	o := &CollOps[IT]{
		Leaf:    func(d Lopd) IT { return d.Iter() },
		Ints:    IterInts,
		Unit:    func(x int) IT { st("Of"); return iterator.Of(x) },
		FlatMap: func(m IT, f func(int) IT) IT { st("FlatMap"); return iterator.FlatMap(m, f) },
	}
	if def {
		o.MapF = func(m IT, f func(int) int) IT { return DefIterMap(m, f) }
		o.Lift = o.MapF
		o.Flatten = func(m IT, f func(int) IT) IT { return iterator.FlatMap(m, f) }
		o.Map2 = func(a, b IT, f func(int, int) int) IT { return DefIterMap2(a, b, f) }
		o.Ap = func(a IT, cf func(int) fp.Func1[int, int], b IT) IT { return DefIterAp(DefIterMap(a, cf), b) }
		o.Compose = func(m IT, k1, k2 func(int) IT) IT {
			return iterator.FlatMap(m, func(x int) IT { return iterator.FlatMap(k1(x), k2) })
		}
		o.ComposePure = func(m IT, f func(int) int) IT { return DefIterMap(m, f) }
		o.FilterMap = func(m IT, f func(int) fp.Option[int]) IT {
			return iterator.FlatMap(m, func(x int) IT {
				if v := f(x); v.IsDefined() {
					return iterator.Of(v.Get())
				}
				return iterator.Of[int]()
			})
		}
		o.Flap = func(m IT, cf func(int) fp.Func1[int, int], x int) IT { return DefIterFlap(DefIterMap(m, cf), x) }
		o.Flap2 = func(m IT, cf func(int) fp.Func1[int, fp.Func1[int, int]], x, y int) IT {
			return DefIterFlap(DefIterAp(DefIterMap(m, cf), iterator.Of(x)), y)
		}
		o.FlapMap = func(m IT, f func(int, int) int, x int) IT {
			return DefIterFlap(DefIterMap(m, func(a int) fp.Func1[int, int] { return func(b int) int { return f(a, b) } }), x)
		}
		o.Method1 = o.FlapMap
		o.Method2 = func(m IT, f func(int, int, int) int, x, y int) IT {
			tf := DefIterMap(m, func(a int) fp.Func1[int, fp.Func1[int, int]] {
				return func(b int) fp.Func1[int, int] { return func(cc int) int { return f(a, b, cc) } }
			})
			return DefIterFlap(DefIterAp(tf, iterator.Of(x)), y)
		}
		o.Method3 = func(m IT, f func(int, int, int) int, x, y int) IT {
			return DefIterMap(m, func(a int) int { return f(a, x, y) })
		}
		return o
	}
	o.MapF = func(m IT, f func(int) int) IT { st("Map"); return iterator.Map(m, f) }
	o.Lift = func(m IT, f func(int) int) IT { st("Lift"); return iterator.Lift(f)(m) }
	o.Flatten = func(m IT, f func(int) IT) IT {
		st("Map")
		mm := iterator.Map(m, f)
		st("Flatten")
		return iterator.Flatten(mm)
	}
	o.Map2 = func(a, b IT, f func(int, int) int) IT { st("Map2"); return iterator.Map2(a, b, f) }
	o.Ap = func(a IT, cf func(int) fp.Func1[int, int], b IT) IT {
		st("Map")
		tf := iterator.Map(a, cf)
		st("Ap")
		return iterator.Ap(tf, b)
	}
	o.Compose = func(m IT, k1, k2 func(int) IT) IT {
		st("Compose")
		k := iterator.Compose(k1, k2)
		st("FlatMap")
		return iterator.FlatMap(m, k)
	}
	o.ComposePure = func(m IT, f func(int) int) IT {
		st("ComposePure")
		k := iterator.ComposePure(f)
		st("FlatMap")
		return iterator.FlatMap(m, k)
	}
	o.FilterMap = func(m IT, f func(int) fp.Option[int]) IT { st("FilterMap"); return iterator.FilterMap(m, f) }
	o.Flap = func(m IT, cf func(int) fp.Func1[int, int], x int) IT {
		st("Map")
		tf := iterator.Map(m, cf)
		st("Flap")
		return iterator.Flap(tf)(x)
	}
	o.Flap2 = func(m IT, cf func(int) fp.Func1[int, fp.Func1[int, int]], x, y int) IT {
		st("Map")
		tf := iterator.Map(m, cf)
		st("Flap2")
		return iterator.Flap2(tf)(x)(y)
	}
	o.FlapMap = func(m IT, f func(int, int) int, x int) IT { st("FlapMap"); return iterator.FlapMap(f, m)(x) }
	o.Method1 = func(m IT, f func(int, int) int, x int) IT { st("Method1"); return iterator.Method1(m, f)(x) }
	o.Method2 = func(m IT, f func(int, int, int) int, x, y int) IT { st("Method2"); return iterator.Method2(m, f)(x, y) }
	o.Method3 = func(m IT, f func(int, int, int) int, x, y int) IT { st("Method3"); return iterator.Method3(m, f)(x, y) }
	return o
}

// runListProgram generates a program and compares library / reference (and, for iterators,
// the FlatMap/Of definition).
func RunListProgram[C any](c *Cas, lib *CollOps[C], def *CollOps[C]) {
	depth := 2 + c.R.IntN(MaxDepth(c.W.Tier)-1)
	sharingOK := def == nil || c.R.IntN(2) == 0
	g := &LprogGen{C: c, Budget: 10 * depth, Ops: map[string]int{}}
	for _, sp := range LprogOps {
		if !HasOp(lib, sp.Name) || (sp.Sharing && !sharingOK) {
			continue
		}
		g.Allowed = append(g.Allowed, sp)
	}
	e := g.Gen(depth, 0, 1)
	c.Lprog = e
	c.W.Max("program.depth."+c.P.Pkg, int64(g.Height))
	sharing := false
	for op, n := range g.Ops {
		c.W.Add("prog."+c.P.Pkg+"."+op, int64(n))
		for _, sp := range LprogOps {
			if sp.Name == op && sp.Sharing {
				sharing = true
			}
		}
	}
	c.Shape(fmt.Sprintf("depth=%d,ops=%d", g.Height, len(g.Ops)))
	c.ShapeHash(e.String())
	got := lib.Ints(LEval(lib, e, nil))
	if def != nil {
		c.EqLD(got, def.Ints(LEval(def, e, nil)))
		if sharing {
			c.W.Add("prog.iterator.by-design-sharing-programs", 1)
			return
		}
	}
	c.EqL(got, LEvalRef(e, nil))
}
