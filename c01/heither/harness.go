// C01 — either.
package heither

import (
	. "verif/c01/core"
)

func Harness() PkgHarness {
	p := ProgramEither()
	return PkgHarness{Prof: ProfEither, Checks: ChecksEither(), Program: &p}
}
