// C01 — the try SeqT / OptionT transformer functions (try/try_seqt.go, try/try_optiont.go) and
// the hand-written extras of try, option and statet that are defined through FlatMap and unit.
package htryx

import (
	"sort"
	"strconv"
	"strings"

	. "verif/c01/core"

	"github.com/csgura/fp"
	"github.com/csgura/fp/try"
)

// Checks: the try transformer functions, the hand-written try extras and try.Func/Pure/Unit/Ptr/Curried*.
func Checks() []Check {
	return Concat(ChecksTryTransformers(), ChecksTryMisc(), ChecksSentinels(), ChecksSentinels(), ChecksSentinels())
}

func ChecksTryTransformers() []Check {
	type TS = fp.Try[fp.Seq[int]]
	type TO = fp.Try[fp.Option[int]]
	mkS := func(c *Cas) (Opd, TS, Ref[[]int]) {
		d := c.Opd()
		c.Shape("seq:" + SeqShape(SeqOf(d.C0)))
		return d, BuildTry(d, SeqOf), RefOf(d, func(x int) []int { return SeqOf(x) })
	}
	mkO := func(c *Cas) (Opd, TO, Ref[Ropt]) {
		d := c.Opd()
		if v, k, _ := d.At(0); k == 0 {
			c.Shape("opt:" + ShowROpt(RoptOf(v))[:4])
		}
		return d, BuildTry(d, OptOf), RefOf(d, RoptOf)
	}
	pred := func(c *Cas) (func(int) bool, string) {
		m, r := 2+c.R.IntN(3), c.R.IntN(2)
		c.Note("pred x%%%d==%d", m, r)
		return func(x int) bool { return x%m == r }, ""
	}
	oS := func(t TS) string { return ObsTry(t, ShowSeq) }
	oO := func(t TO) string { return ObsTry(t, ShowOptInt) }
	rS := func(c *Cas, m Ref[[]int]) string { return ObsRef(c.P, m, ShowInts) }
	rO := func(c *Cas, m Ref[Ropt]) string { return ObsRef(c.P, m, ShowROpt) }
	rI := func(c *Cas, m Ref[int]) string { return ObsRef(c.P, m, ShowInt) }
	rB := func(c *Cas, m Ref[bool]) string { return ObsRef(c.P, m, ShowBool) }
	mapS := func(m Ref[[]int], f func([]int) []int) Ref[[]int] { return RMap(m, f) }

	cs := []Check{
		// ---- SeqT
		{"try.PureSeqT", func(c *Cas) {
			a := c.R.IntN(1000)
			c.Shape("pure")
			c.Site("try.PureSeqT")
			c.Eq(oS(Rerun(c, func() TS { return try.PureSeqT(a) }, oS)), rS(c, RPure([]int{a})))
		}},
		{"try.LiftSeqT", func(c *Cas) {
			d := c.Opd()
			c.Site("try.LiftSeqT")
			c.Eq(oS(Rerun(c, func() TS { return try.LiftSeqT(BuildTry(d, IdInt)) }, oS)), rS(c, RMap(RefInt(d), func(x int) []int { return []int{x} })))
		}},
		{"try.MapSeqT", func(c *Cas) {
			_, t, r := mkS(c)
			f := c.F1()
			c.Site("try.MapSeqT")
			c.Eq(oS(Rerun(c, func() TS { return try.MapSeqT(t, f.Call) }, oS)), rS(c, mapS(r, func(s []int) []int { return MapInts(s, f.Call) })))
		}},
		{"try.SubFlatMapSeqT", func(c *Cas) {
			_, t, r := mkS(c)
			k := c.Lkl()
			c.Site("try.SubFlatMapSeqT")
			got := Rerun(c, func() TS { return try.SubFlatMapSeqT(t, func(x int) fp.Seq[int] { return k.At(x) }) }, oS)
			c.Eq(oS(got), rS(c, mapS(r, func(s []int) []int { return LFlatMap(s, k.At) })))
		}},
		{"try.TraverseSeqT", func(c *Cas) {
			_, t, r := mkS(c)
			k := c.Kl()
			c.Site("try.TraverseSeqT")
			got := Rerun(c, func() TS { return try.TraverseSeqT(t, func(x int) fp.Try[int] { return BuildTry(k.At(x), IdInt) }) }, oS)
			c.Eq(oS(got), rS(c, RFlatMap(r, func(s []int) Ref[[]int] { return RTraverse(s, k.Ref) })))
		}},
		{"try.FlatMapSeqT", func(c *Cas) {
			_, t, r := mkS(c)
			k := c.Kl()
			c.Site("try.FlatMapSeqT")
			got := Rerun(c, func() TS { return try.FlatMapSeqT(t, func(x int) TS { return BuildTry(k.At(x), SeqOf) }) }, oS)
			want := RFlatMap(r, func(s []int) Ref[[]int] {
				return RMap(RTraverse(s, func(x int) Ref[[]int] {
					return RefOf(k.At(x), func(v int) []int { return SeqOf(v) })
				}), func(ss [][]int) []int {
					out := []int{}
					for _, x := range ss {
						out = append(out, x...)
					}
					return out
				})
			})
			c.Eq(oS(got), rS(c, want))
		}},
		{"try.FilterSeqT", func(c *Cas) {
			_, t, r := mkS(c)
			p, _ := pred(c)
			c.Site("try.FilterSeqT")
			c.Eq(oS(Rerun(c, func() TS { return try.FilterSeqT(t, p) }, oS)), rS(c, mapS(r, func(s []int) []int { return FilterInts(s, p) })))
		}},
		{"try.FilterNotSeqT", func(c *Cas) {
			_, t, r := mkS(c)
			p, _ := pred(c)
			c.Site("try.FilterNotSeqT")
			c.Eq(oS(Rerun(c, func() TS { return try.FilterNotSeqT(t, p) }, oS)), rS(c, mapS(r, func(s []int) []int { return FilterInts(s, func(x int) bool { return !p(x) }) })))
		}},
		{"try.AddSeqT", func(c *Cas) {
			_, t, r := mkS(c)
			x := c.Ints(1)[0]
			c.Site("try.AddSeqT")
			c.Eq(oS(Rerun(c, func() TS { return try.AddSeqT(t, x) }, oS)), rS(c, mapS(r, func(s []int) []int { return append(append([]int{}, s...), x) })))
		}},
		{"try.AppendSeqT", func(c *Cas) {
			_, t, r := mkS(c)
			x := c.Ints(1)[0]
			c.Site("try.AppendSeqT")
			c.Eq(oS(Rerun(c, func() TS { return try.AppendSeqT(t, x) }, oS)), rS(c, mapS(r, func(s []int) []int { return append(append([]int{}, s...), x) })))
		}},
		{"try.ConcatSeqT", func(c *Cas) {
			_, t, r := mkS(c)
			tail := c.Seq()
			c.Site("try.ConcatSeqT")
			c.Eq(oS(Rerun(c, func() TS { return try.ConcatSeqT(t, tail) }, oS)), rS(c, mapS(r, func(s []int) []int { return append(append([]int{}, s...), tail...) })))
		}},
		{"try.DropSeqT", func(c *Cas) {
			_, t, r := mkS(c)
			n := c.R.IntN(7)
			c.Note("n=%d", n)
			c.Site("try.DropSeqT")
			c.Eq(oS(Rerun(c, func() TS { return try.DropSeqT(t, n) }, oS)), rS(c, mapS(r, func(s []int) []int {
				if n >= len(s) {
					return nil
				}
				return s[n:]
			})))
		}},
		{"try.TakeSeqT", func(c *Cas) {
			_, t, r := mkS(c)
			n := c.R.IntN(7)
			c.Note("n=%d", n)
			c.Site("try.TakeSeqT")
			c.Eq(oS(Rerun(c, func() TS { return try.TakeSeqT(t, n) }, oS)), rS(c, mapS(r, func(s []int) []int {
				if n >= len(s) {
					return s
				}
				return s[:n]
			})))
		}},
		{"try.ExistsSeqT", func(c *Cas) {
			_, t, r := mkS(c)
			p, _ := pred(c)
			c.Site("try.ExistsSeqT")
			c.Eq(ObsTry(try.ExistsSeqT(t, p), ShowBool), rB(c, RMap(r, func(s []int) bool { return len(FilterInts(s, p)) > 0 })))
		}},
		{"try.ForAllSeqT", func(c *Cas) {
			_, t, r := mkS(c)
			p, _ := pred(c)
			c.Site("try.ForAllSeqT")
			c.Eq(ObsTry(try.ForAllSeqT(t, p), ShowBool), rB(c, RMap(r, func(s []int) bool { return len(FilterInts(s, p)) == len(s) })))
		}},
		{"try.FindSeqT", func(c *Cas) {
			_, t, r := mkS(c)
			p, _ := pred(c)
			c.Site("try.FindSeqT")
			c.Eq(oO(try.FindSeqT(t, p)), rO(c, RMap(r, func(s []int) Ropt { return FindInt(s, p) })))
		}},
		{"try.GetSeqT", func(c *Cas) {
			_, t, r := mkS(c)
			n := c.R.IntN(7)
			c.Note("idx=%d", n)
			c.Site("try.GetSeqT")
			c.Eq(oO(try.GetSeqT(t, n)), rO(c, RMap(r, func(s []int) Ropt { return AtInt(s, n) })))
		}},
		{"try.HeadSeqT", func(c *Cas) {
			_, t, r := mkS(c)
			c.Site("try.HeadSeqT")
			c.Eq(oO(try.HeadSeqT(t)), rO(c, RMap(r, func(s []int) Ropt { return AtInt(s, 0) })))
		}},
		{"try.LastSeqT", func(c *Cas) {
			_, t, r := mkS(c)
			c.Site("try.LastSeqT")
			c.Eq(oO(try.LastSeqT(t)), rO(c, RMap(r, func(s []int) Ropt { return AtInt(s, len(s)-1) })))
		}},
		{"try.TailSeqT", func(c *Cas) {
			_, t, r := mkS(c)
			c.Site("try.TailSeqT")
			c.Eq(oS(Rerun(c, func() TS { return try.TailSeqT(t) }, oS)), rS(c, mapS(r, func(s []int) []int {
				if len(s) == 0 {
					return nil
				}
				return s[1:]
			})))
		}},
		{"try.InitSeqT", func(c *Cas) {
			_, t, r := mkS(c)
			c.Site("try.InitSeqT")
			c.Eq(oS(Rerun(c, func() TS { return try.InitSeqT(t) }, oS)), rS(c, mapS(r, func(s []int) []int {
				if len(s) == 0 {
					return nil
				}
				return s[:len(s)-1]
			})))
		}},
		{"try.IsEmptySeqT", func(c *Cas) {
			_, t, r := mkS(c)
			c.Site("try.IsEmptySeqT")
			c.Eq(ObsTry(try.IsEmptySeqT(t), ShowBool), rB(c, RMap(r, func(s []int) bool { return len(s) == 0 })))
		}},
		{"try.NonEmptySeqT", func(c *Cas) {
			_, t, r := mkS(c)
			c.Site("try.NonEmptySeqT")
			c.Eq(ObsTry(try.NonEmptySeqT(t), ShowBool), rB(c, RMap(r, func(s []int) bool { return len(s) != 0 })))
		}},
		{"try.SizeSeqT", func(c *Cas) {
			_, t, r := mkS(c)
			c.Site("try.SizeSeqT")
			c.Eq(ObsTry(try.SizeSeqT(t), ShowInt), rI(c, RMap(r, func(s []int) int { return len(s) })))
		}},
		{"try.ReverseSeqT", func(c *Cas) {
			_, t, r := mkS(c)
			c.Site("try.ReverseSeqT")
			c.Eq(oS(Rerun(c, func() TS { return try.ReverseSeqT(t) }, oS)), rS(c, mapS(r, func(s []int) []int {
				out := make([]int, len(s))
				for i, v := range s {
					out[len(s)-1-i] = v
				}
				return out
			})))
		}},
		{"try.MakeStringSeqT", func(c *Cas) {
			_, t, r := mkS(c)
			c.Site("try.MakeStringSeqT")
			c.Eq(ObsTry(try.MakeStringSeqT(t, "|"), ShowStr), ObsRef(c.P, RMap(r, func(s []int) string {
				parts := make([]string, len(s))
				for i, v := range s {
					parts[i] = strconv.Itoa(v)
				}
				return strings.Join(parts, "|")
			}), ShowStr))
		}},
		{"try.FoldSeqT", func(c *Cas) {
			_, t, r := mkS(c)
			g := c.Fn()
			z := c.R.IntN(1000)
			c.Site("try.FoldSeqT")
			c.Eq(ObsTry(try.FoldSeqT(t, z, g.Call2), ShowInt), rI(c, RMap(r, func(s []int) int {
				acc := z
				for _, v := range s {
					acc = g.Call(acc, v)
				}
				return acc
			})))
		}},
		{"try.ScanSeqT", func(c *Cas) {
			_, t, r := mkS(c)
			g := c.Fn()
			z := c.R.IntN(1000)
			c.Site("try.ScanSeqT")
			c.Eq(oS(Rerun(c, func() TS { return try.ScanSeqT(t, z, g.Call2) }, oS)), rS(c, mapS(r, func(s []int) []int {
				out := []int{z}
				acc := z
				for _, v := range s {
					acc = g.Call(acc, v)
					out = append(out, acc)
				}
				return out
			})))
		}},
		{"try.SortSeqT", func(c *Cas) {
			_, t, r := mkS(c)
			c.Site("try.SortSeqT")
			c.Eq(oS(Rerun(c, func() TS { return try.SortSeqT(t, IntOrd) }, oS)), rS(c, mapS(r, func(s []int) []int {
				out := append([]int{}, s...)
				sort.Ints(out)
				return out
			})))
		}},
		{"try.MinSeqT", func(c *Cas) {
			_, t, r := mkS(c)
			c.Site("try.MinSeqT")
			c.Eq(oO(try.MinSeqT(t, IntOrd)), rO(c, RMap(r, func(s []int) Ropt {
				out := Ropt{}
				for _, v := range s {
					if !out.Ok || v < out.V {
						out = Ropt{v, true}
					}
				}
				return out
			})))
		}},
		{"try.MaxSeqT", func(c *Cas) {
			_, t, r := mkS(c)
			c.Site("try.MaxSeqT")
			c.Eq(oO(try.MaxSeqT(t, IntOrd)), rO(c, RMap(r, func(s []int) Ropt {
				out := Ropt{}
				for _, v := range s {
					if !out.Ok || v > out.V {
						out = Ropt{v, true}
					}
				}
				return out
			})))
		}},
		// ---- OptionT
		{"try.PureOptionT", func(c *Cas) {
			a := c.R.IntN(1000)
			c.Shape("pure")
			c.Site("try.PureOptionT")
			c.Eq(oO(try.PureOptionT(a)), rO(c, RPure(Ropt{a, true})))
		}},
		{"try.LiftOptionT", func(c *Cas) {
			d := c.Opd()
			c.Site("try.LiftOptionT")
			c.Eq(oO(try.LiftOptionT(BuildTry(d, IdInt))), rO(c, RMap(RefInt(d), func(x int) Ropt { return Ropt{x, true} })))
		}},
		{"try.MapOptionT", func(c *Cas) {
			_, t, r := mkO(c)
			f := c.F1()
			c.Site("try.MapOptionT")
			c.Eq(oO(try.MapOptionT(t, f.Call)), rO(c, RMap(r, func(o Ropt) Ropt {
				if o.Ok {
					return Ropt{f.Call(o.V), true}
				}
				return o
			})))
		}},
		{"try.SubFlatMapOptionT", func(c *Cas) {
			_, t, r := mkO(c)
			k := c.Okl()
			c.Site("try.SubFlatMapOptionT")
			c.Eq(oO(try.SubFlatMapOptionT(t, k.Opt)), rO(c, RMap(r, func(o Ropt) Ropt {
				if o.Ok {
					v, ok := k.At(o.V)
					return Ropt{v, ok}
				}
				return o
			})))
		}},
		{"try.TraverseOptionT", func(c *Cas) {
			_, t, r := mkO(c)
			k := c.Kl()
			c.Site("try.TraverseOptionT")
			got := try.TraverseOptionT(t, func(x int) fp.Try[int] { return BuildTry(k.At(x), IdInt) })
			c.Eq(oO(got), rO(c, RFlatMap(r, func(o Ropt) Ref[Ropt] {
				if !o.Ok {
					return RPure(Ropt{})
				}
				return RMap(k.Ref(o.V), func(v int) Ropt { return Ropt{v, true} })
			})))
		}},
		{"try.FlatMapOptionT", func(c *Cas) {
			_, t, r := mkO(c)
			k := c.Kl()
			c.Site("try.FlatMapOptionT")
			got := try.FlatMapOptionT(t, func(x int) TO { return BuildTry(k.At(x), OptOf) })
			c.Eq(oO(got), rO(c, RFlatMap(r, func(o Ropt) Ref[Ropt] {
				if !o.Ok {
					return RPure(Ropt{})
				}
				return RefOf(k.At(o.V), RoptOf)
			})))
		}},
		{"try.FilterOptionT", func(c *Cas) {
			_, t, r := mkO(c)
			p, _ := pred(c)
			c.Site("try.FilterOptionT")
			c.Eq(oO(try.FilterOptionT(t, p)), rO(c, RMap(r, func(o Ropt) Ropt {
				if o.Ok && p(o.V) {
					return o
				}
				return Ropt{}
			})))
		}},
		{"try.OrElseOptionT", func(c *Cas) {
			_, t, r := mkO(c)
			x := c.Ints(1)[0]
			c.Site("try.OrElseOptionT")
			c.Eq(ObsTry(try.OrElseOptionT(t, x), ShowInt), rI(c, RMap(r, func(o Ropt) int {
				if o.Ok {
					return o.V
				}
				return x
			})))
		}},
		{"try.OrZeroOptionT", func(c *Cas) {
			_, t, r := mkO(c)
			c.Site("try.OrZeroOptionT")
			c.Eq(ObsTry(try.OrZeroOptionT(t), ShowInt), rI(c, RMap(r, func(o Ropt) int { return o.V })))
		}},
		{"try.OrElseGetOptionT", func(c *Cas) {
			_, t, r := mkO(c)
			x := c.Ints(1)[0]
			c.Site("try.OrElseGetOptionT")
			c.Eq(ObsTry(try.OrElseGetOptionT(t, func() int { return x }), ShowInt), rI(c, RMap(r, func(o Ropt) int {
				if o.Ok {
					return o.V
				}
				return x
			})))
		}},
		{"try.OrOptionT", func(c *Cas) {
			_, t, r := mkO(c)
			x := c.Ints(1)[0]
			c.Site("try.OrOptionT")
			c.Eq(oO(try.OrOptionT(t, func() fp.Option[int] { return OptOf(x) })), rO(c, RMap(r, func(o Ropt) Ropt {
				if o.Ok {
					return o
				}
				return RoptOf(x)
			})))
		}},
		{"try.OrOptionOptionT", func(c *Cas) {
			_, t, r := mkO(c)
			x := c.Ints(1)[0]
			c.Site("try.OrOptionOptionT")
			c.Eq(oO(try.OrOptionOptionT(t, OptOf(x))), rO(c, RMap(r, func(o Ropt) Ropt {
				if o.Ok {
					return o
				}
				return RoptOf(x)
			})))
		}},
		{"try.OrPtrOptionT", func(c *Cas) {
			_, t, r := mkO(c)
			x := c.Ints(1)[0]
			var p *int
			if x%3 != 0 {
				p = &x
			}
			c.Site("try.OrPtrOptionT")
			c.Eq(oO(try.OrPtrOptionT(t, p)), rO(c, RMap(r, func(o Ropt) Ropt {
				if o.Ok {
					return o
				}
				return RoptOf(x)
			})))
		}},
		{"try.RecoverOptionT", func(c *Cas) {
			_, t, r := mkO(c)
			x := c.Ints(1)[0]
			c.Site("try.RecoverOptionT")
			c.Eq(oO(try.RecoverOptionT(t, func() int { return x })), rO(c, RMap(r, func(o Ropt) Ropt {
				if o.Ok {
					return o
				}
				return Ropt{x, true}
			})))
		}},
		{"try.FoldOptionT", func(c *Cas) {
			_, t, r := mkO(c)
			g := c.Fn()
			z := c.R.IntN(1000)
			c.Site("try.FoldOptionT")
			c.Eq(ObsTry(try.FoldOptionT(t, z, g.Call2), ShowInt), rI(c, RMap(r, func(o Ropt) int {
				if o.Ok {
					return g.Call(z, o.V)
				}
				return z
			})))
		}},
		// ---- hand-written extras of try
		{"try.TraverseOption", func(c *Cas) {
			x := c.Ints(1)[0]
			k := c.Kl()
			c.Shape("opt:" + ShowROpt(RoptOf(x))[:4])
			c.Site("try.TraverseOption")
			got := try.TraverseOption(OptOf(x), func(v int) fp.Try[int] { return BuildTry(k.At(v), IdInt) })
			var want Ref[Ropt] = RPure(Ropt{})
			if o := RoptOf(x); o.Ok {
				want = RMap(k.Ref(o.V), func(v int) Ropt { return Ropt{v, true} })
			}
			c.Eq(oO(got), rO(c, want))
		}},
		{"try.Traverse_", func(c *Cas) {
			s := c.Seq()
			k := c.Kl()
			c.Site("try.Traverse_")
			err := try.Traverse_(IterOf(s), func(v int) fp.Try[int] { return BuildTry(k.At(v), IdInt) })
			got := "ok(unit)@0"
			if err != nil {
				got = "F" + ErrIdx(err) + "@0"
			}
			c.Eq(got, ObsRef(c.P, RTraverse(s, k.Ref), func([]int) string { return "unit" }))
		}},
		{"try.ComposeOption", func(c *Cas) {
			o, k := c.Okl(), c.Kl()
			a := c.Ints(1)[0]
			c.Site("try.ComposeOption")
			got := try.ComposeOption(o.Opt, func(v int) fp.Try[int] { return BuildTry(k.At(v), IdInt) })(a)
			var want Ref[int] = RFail[int](FailOptionEmpty)
			if v, ok := o.At(a); ok {
				want = k.Ref(v)
			}
			c.Eq(ObsTry(got, ShowInt), rI(c, want))
		}},
		{"try.ComposePure", func(c *Cas) {
			f := c.F1()
			a := c.Ints(1)[0]
			c.Shape("pure")
			c.Site("try.ComposePure")
			c.Eq(ObsTry(try.ComposePure(f.Call)(a), ShowInt), rI(c, RPure(f.Call(a))))
		}},
		{"try.FromOption", func(c *Cas) {
			a := c.Ints(1)[0]
			c.Shape("opt:" + ShowROpt(RoptOf(a))[:4])
			c.Site("try.FromOption")
			var want Ref[int] = RFail[int](FailOptionEmpty)
			if o := RoptOf(a); o.Ok {
				want = RPure(o.V)
			}
			c.Eq(ObsTry(try.FromOption(OptOf(a)), ShowInt), rI(c, want))
		}},
		{"try.Pure0", func(c *Cas) {
			a := c.Ints(1)[0]
			c.Shape("pure")
			c.Site("try.Pure0")
			c.Eq(ObsTry(try.Pure0(func() int { return a })(fp.Unit{}), ShowInt), rI(c, RPure(a)))
		}},
		{"try.Func0", func(c *Cas) {
			k := c.Kn()
			c.Site("try.Func0")
			got := try.Func0(func() (int, error) {
				v, f, _ := k.At().At(0)
				if f != 0 {
					return 0, Errs[f]
				}
				return v, nil
			})(fp.Unit{})
			c.Eq(ObsTry(got, ShowInt), rI(c, k.Ref()))
		}},
		{"try.Unit0", func(c *Cas) {
			k := c.Kn()
			c.Site("try.Unit0")
			got := try.Unit0(func() error {
				_, f, _ := k.At().At(0)
				if f != 0 {
					return Errs[f]
				}
				return nil
			})(fp.Unit{})
			c.Eq(ObsTry(got, func(fp.Unit) string { return "unit" }), ObsRef(c.P, k.Ref(), func(int) string { return "unit" }))
		}},
	}
	return cs
}
