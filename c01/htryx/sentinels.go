// C01 — user failures that ARE (or wrap) the library's own sentinel errors.
//
// The library uses exported sentinel errors for its own failures (fp.ErrOptionEmpty for an empty
// option, fp.ErrTryNotFailed, fp.ErrFutureNotFailed). A user function may fail with the very same
// value (try.FromOption inside f) or with an error wrapping it. By its definition in terms of
// FlatMap and the unit every combinator hands such a failure on unchanged: it must not be taken
// for the combinator's own "empty" signal. Every visit of the check takes ONE combinator (by visit
// number) and runs it with a user function / operand failing with EVERY sentinel form in turn;
// the result must be a failure carrying the identical error value. Keys are per combinator:
// try.<Combinator>/user-failure-with-library-sentinel-changed.
package htryx

import (
	"errors"
	"fmt"

	. "verif/c01/core"

	"github.com/csgura/fp"
	"github.com/csgura/fp/option"
	"github.com/csgura/fp/reflectfp"
	"github.com/csgura/fp/statet"
	"github.com/csgura/fp/try"
)

type sentinelForm struct {
	name string
	err  error
}

func sentinelForms() []sentinelForm {
	var out []sentinelForm
	for _, s := range []struct {
		n string
		e error
	}{{"fp.ErrOptionEmpty", fp.ErrOptionEmpty}, {"fp.ErrTryNotFailed", fp.ErrTryNotFailed}, {"fp.ErrFutureNotFailed", fp.ErrFutureNotFailed}, {"reflectfp.ErrInvalidType", reflectfp.ErrInvalidType}} {
		out = append(out,
			sentinelForm{s.n, s.e},
			sentinelForm{"fmt.Errorf(%w) around " + s.n, fmt.Errorf("user: %w", s.e)},
			sentinelForm{"errors.Join(private, " + s.n + ")", errors.Join(&Sentinel{Name: "private"}, s.e)},
			sentinelForm{"fp.Error with cause " + s.n, fp.Error(404, "user: %v", s.e)},
		)
	}
	// what the library's own constructors return, obtained inside the user function
	out = append(out,
		sentinelForm{"the error of try.FromOption(None)", try.FromOption(option.None[int]()).Failed().Get()},
		sentinelForm{"the error of try.FromPtr(nil)", try.FromPtr[int](nil).Failed().Get()},
		sentinelForm{"the error of Success.Failed()", try.Success(1).Failed().Failed().Get()},
	)
	return out
}

type sentinelComb struct {
	name string
	// run: the combinator with a user function (or operand) that fails with e where the definition
	// makes that failure the result; returns the error of the result (nil, false = not a failure)
	run func(c *Cas, e error) (error, bool)
}

func errOf[T any](t fp.Try[T]) (error, bool) {
	if t.IsSuccess() {
		return nil, false
	}
	return t.Failed().Get(), true
}

func sentinelCombs() []sentinelComb {
	type TI = fp.Try[int]
	fail := func(e error) func(int) TI { return func(int) TI { return try.Failure[int](e) } }
	// fails for the second element only
	failOn := func(e error, at int) func(int) TI {
		return func(x int) TI {
			if x == at {
				return try.Failure[int](e)
			}
			return try.Success(x + 1)
		}
	}
	ok := func(x int) TI { return try.Success(x * 2) }
	return []sentinelComb{
		{"try.FlatMap", func(c *Cas, e error) (error, bool) { return errOf(try.FlatMap(try.Success(5), fail(e))) }},
		{"try.TraverseOption", func(c *Cas, e error) (error, bool) { return errOf(try.TraverseOption(option.Some(5), fail(e))) }},
		{"try.TraverseOptionT", func(c *Cas, e error) (error, bool) {
			return errOf(try.TraverseOptionT(try.Success(option.Some(5)), fail(e)))
		}},
		{"try.FlatMapOptionT", func(c *Cas, e error) (error, bool) {
			return errOf(try.FlatMapOptionT(try.Success(option.Some(5)), func(int) fp.Try[fp.Option[int]] { return try.Failure[fp.Option[int]](e) }))
		}},
		{"try.Traverse", func(c *Cas, e error) (error, bool) {
			return errOf(try.Traverse(IterOf(fp.Seq[int]{1, 2, 3}), failOn(e, 2)))
		}},
		{"try.TraverseSeq", func(c *Cas, e error) (error, bool) { return errOf(try.TraverseSeq(fp.Seq[int]{1, 2, 3}, failOn(e, 2))) }},
		{"try.TraverseSlice", func(c *Cas, e error) (error, bool) { return errOf(try.TraverseSlice([]int{1, 2}, failOn(e, 1))) }},
		{"try.TraverseSeqT", func(c *Cas, e error) (error, bool) {
			return errOf(try.TraverseSeqT(try.Success(fp.Seq[int]{1, 2}), failOn(e, 2)))
		}},
		{"try.FlatMapTraverseSeq", func(c *Cas, e error) (error, bool) {
			return errOf(try.FlatMapTraverseSeq(try.Success(fp.Seq[int]{1, 2}), failOn(e, 1)))
		}},
		{"try.FoldM", func(c *Cas, e error) (error, bool) {
			return errOf(try.FoldM(IterOf(fp.Seq[int]{1, 2, 3}), 0, func(acc, x int) TI { return failOn(e, 3)(x) }))
		}},
		{"try.Traverse_", func(c *Cas, e error) (error, bool) {
			err := try.Traverse_(IterOf(fp.Seq[int]{1, 2}), failOn(e, 2))
			return err, err != nil
		}},
		{"try.Compose", func(c *Cas, e error) (error, bool) { return errOf(try.Compose(ok, fail(e))(3)) }},
		{"try.Compose2", func(c *Cas, e error) (error, bool) { return errOf(try.Compose2(fail(e), ok)(3)) }},
		{"try.LiftM", func(c *Cas, e error) (error, bool) { return errOf(try.LiftM(fail(e))(try.Success(1))) }},
		{"try.FlatMap2", func(c *Cas, e error) (error, bool) {
			return errOf(try.FlatMap2(try.Success(1), try.Success(2), func(int, int) TI { return try.Failure[int](e) }))
		}},
		{"try.FlatMethod1", func(c *Cas, e error) (error, bool) {
			return errOf(try.FlatMethod1(try.Success(1), func(int, int) TI { return try.Failure[int](e) })(2))
		}},
		{"try.FlatFlapMap", func(c *Cas, e error) (error, bool) {
			return errOf(try.FlatFlapMap(func(int, int) TI { return try.Failure[int](e) }, try.Success(1))(2))
		}},
		// failing OPERANDS
		{"try.Map", func(c *Cas, e error) (error, bool) {
			return errOf(try.Map(try.Failure[int](e), func(x int) int { return x }))
		}},
		{"try.Flatten", func(c *Cas, e error) (error, bool) { return errOf(try.Flatten(try.Success(try.Failure[int](e)))) }},
		{"try.Map2", func(c *Cas, e error) (error, bool) {
			return errOf(try.Map2(try.Success(1), try.Failure[int](e), func(a, b int) int { return a + b }))
		}},
		{"try.Zip", func(c *Cas, e error) (error, bool) { return errOf(try.Zip(try.Failure[int](e), try.Success(1))) }},
		{"try.Ap", func(c *Cas, e error) (error, bool) {
			return errOf(try.Ap(try.Success(fp.Func1[int, int](func(x int) int { return x })), try.Failure[int](e)))
		}},
		{"try.Sequence", func(c *Cas, e error) (error, bool) {
			return errOf(try.Sequence([]TI{try.Success(1), try.Failure[int](e), try.Success(3)}))
		}},
		{"try.SequenceIterator", func(c *Cas, e error) (error, bool) {
			return errOf(try.SequenceIterator(IterOf(fp.Seq[TI]{try.Success(1), try.Failure[int](e)})))
		}},
		{"try.TraverseOptionT[failed operand]", func(c *Cas, e error) (error, bool) {
			return errOf(try.TraverseOptionT(try.Failure[fp.Option[int]](e), ok))
		}},
		{"try.FoldOptionT", func(c *Cas, e error) (error, bool) {
			return errOf(try.FoldOptionT(try.Failure[fp.Option[int]](e), 0, func(a, b int) int { return a + b }))
		}},
		// through StateT
		{"statet.FlatMap", func(c *Cas, e error) (error, bool) {
			t, _ := statet.FlatMap(statet.Pure[int](5), func(int) fp.StateT[int, int] { return statet.FromTry[int](try.Failure[int](e)) })(0)
			return errOf(t)
		}},
		{"statet.MapT", func(c *Cas, e error) (error, bool) {
			t, _ := statet.MapT(statet.Pure[int](5), fail(e))(0)
			return errOf(t)
		}},
		{"statet.TraverseSeq", func(c *Cas, e error) (error, bool) {
			t, _ := statet.TraverseSeq(fp.Seq[int]{1, 2}, func(x int) fp.StateT[int, int] { return statet.FromTry[int](failOn(e, 2)(x)) })(0)
			return errOf(t)
		}},
	}
}

func ChecksSentinels() []Check {
	combs := sentinelCombs()
	forms := sentinelForms()
	return []Check{{Name: "try.user-failure-with-library-sentinel", Run: func(c *Cas) {
		rot := c.Rot
		if rot < 0 {
			rot = -rot
		}
		cb := combs[rot%len(combs)]
		c.Shape(cb.name)
		c.Note("combinator %s, user failure = every library sentinel form in turn", cb.name)
		c.W.Hit("sentinel:" + cb.name)
		check := c.Name
		defer func() { c.Name = check }()
		for _, f := range forms {
			c.Site(cb.name)
			got, failed := cb.run(c, f.err)
			c.W.Add("errors.library-sentinel-user-failures.try", 1)
			if !failed || got != f.err {
				c.Name = cb.name
				res := "a success"
				if failed {
					res = fmt.Sprintf("Failure(%T %q)", got, got.Error())
				}
				c.Fail("user-failure-with-library-sentinel-changed", "the user function / operand fails with %s (%T %q); by the combinator's definition the result is that very failure, the library returned %s", f.name, f.err, f.err.Error(), res)
				return
			}
		}
	}}}
}

// SentinelHits: hit names with floors.
func SentinelHits() []string {
	var out []string
	for _, cb := range sentinelCombs() {
		out = append(out, "sentinel:"+cb.name)
	}
	return out
}
