// C01 — monad / functor / applicative laws and coherence of the derived combinators of
// option, try, either, seq, list, iterator, lazy, statet, fn0, fn1.
//
// Layout: core/ holds the plain-Go reference semantics, operand descriptors and the per-case
// context; h<pkg>/ hold the harnesses (hand-written parts plus the zz_*.go call sites generated
// by gen/ for every arity), one Go package each so that they compile in parallel.
//
// Batch b exercises package harnesses[b % len(harnesses)]. Case i of a batch runs the check
// (one exported combinator, or one random expression program) selected by i alone, on
// operands drawn from w.Rand(i); w.Site names the combinator right before every library call
// so that a process-fatal stack overflow is attributed to it by the parent.
package main

import (
	"fmt"
	"runtime"
	"sort"
	"strings"

	"verif/c01/core"
	"verif/c01/hcoll"
	"verif/c01/heither"
	"verif/c01/helem"
	"verif/c01/hoption"
	"verif/c01/hsmall"
	"verif/c01/hstatet"
	"verif/c01/htry"
	"verif/c01/htryx"
	"verif/vrt"
)

var harnesses []core.PkgHarness

// forkHarnesses: the fork checks (core/fork.go) of the program-valued monads. They run in batches
// APPENDED after the classic ones, so that the PRNG streams of the classic batches stay what they
// were.
var forkHarnesses []core.PkgHarness

func init() {
	tryChecks, tryProgram, tryExtra := htry.Parts()
	harnesses = []core.PkgHarness{
		hoption.Harness(),
		{Prof: core.ProfTry, Checks: core.Concat(tryChecks, htryx.Checks()), Program: tryProgram, Extra: append(tryExtra, htryx.SentinelHits()...)},
		heither.Harness(),
		hstatet.Harness(),
	}
	harnesses = append(harnesses, hcoll.Harnesses()...)
	harnesses = append(harnesses, hsmall.Harnesses()...)
	forkHarnesses = append(forkHarnesses, hsmall.ForkHarnesses()...)
	forkHarnesses = append(forkHarnesses, hstatet.ForkHarness())
	forkHarnesses = append(forkHarnesses, hcoll.ForkHarnesses()...)
	// the law / definition checks again at the nil-able element types (helem)
	for i := range harnesses {
		harnesses[i].Checks = core.Concat(harnesses[i].Checks, helem.For(harnesses[i].Prof.Pkg))
	}
}

var elemTags = []string{"ptr", "slice", "map", "func", "iface", "error"}

func batchesPerPkg(tier string) int {
	if tier == "thorough" {
		return 32
	}
	return 4
}

func classicBatches(tier string) int { return len(harnesses) * batchesPerPkg(tier) }

// forkRounds: fork batches per package; every batch visits every number of pending steps 0..40
// forkVisits times. statet has 62 arm kinds (the others 6..21) and gets twice the batches.
func forkRounds(tier string) int {
	if tier == "thorough" {
		return 4
	}
	return 1
}

type forkBatch struct{ h, round int }

func forkPlan(tier string) []forkBatch {
	var out []forkBatch
	for r := 0; r < 2*forkRounds(tier); r++ {
		for i, h := range forkHarnesses {
			if r < forkRounds(tier) || h.Prof.Pkg == "statet" {
				out = append(out, forkBatch{i, r})
			}
		}
	}
	return out
}

func forkVisits(tier string) int {
	if tier == "thorough" {
		return 96
	}
	return 32
}

// casesPerBatch: every slot of the package is visited at least 12 times per batch.
func casesPerBatch(tier string, b int) int {
	if b >= classicBatches(tier) {
		return (core.ForkMaxPending + 1) * forkVisits(tier)
	}
	n := 4000
	if tier == "thorough" {
		n = 12000
	}
	if s := harnesses[b%len(harnesses)].Slots() * 12; s > n {
		n = s
	}
	return n
}

func run(w *vrt.W) {
	// the worker is sequential; the forced collections of core/gcpull.go cost 5x less with 2 Ps than
	// with 16 (stop-the-world and mark-worker hand-offs on a loaded machine)
	runtime.GOMAXPROCS(2)
	if fb := w.Batch - classicBatches(w.Tier); fb >= 0 {
		pl := forkPlan(w.Tier)[fb]
		h := &forkHarnesses[pl.h]
		n := casesPerBatch(w.Tier, w.Batch)
		for i := w.From; i < w.To; i++ {
			// rot: the visit number; rot mod 41 = pending steps of the base, rot / 41 rotates the arm kinds
			core.RunCheck(w, i, h.Prof, h.Checks[0], pl.round*n+i)
		}
		return
	}
	h := &harnesses[w.Batch%len(harnesses)]
	round := w.Batch / len(harnesses)
	n := h.Slots()
	for i := w.From; i < w.To; i++ {
		slot := i % n
		rot := i/n + round*5 + slot
		if slot < len(h.Checks) {
			core.RunCheck(w, i, h.Prof, h.Checks[slot], rot)
		} else {
			core.RunCheck(w, i, h.Prof, *h.Program, rot)
		}
	}
}

func floors(tier string) map[string]int64 {
	fl := map[string]int64{}
	for _, h := range harnesses {
		for _, c := range h.Checks {
			fl["hit."+c.Name] = 1
		}
		if h.Program != nil {
			fl["hit."+h.Program.Name] = 100
		}
		for _, e := range h.Extra {
			fl["hit."+e] = 1
		}
		fl["cases."+h.Prof.Pkg] = 1000
		// re-run / persistence really exercised: values executed again, kept results read again
		fl["rerun.runs."+h.Prof.Pkg] = 500
		fl["rerun.reinspected."+h.Prof.Pkg] = 500
		// units really applied to nil values, user functions really returned nil, at every element type
		for _, t := range elemTags {
			fl["elem.unit-on-nil."+h.Prof.Pkg+"."+t] = 10
			fl["elem.nil-unit-argument."+h.Prof.Pkg+"."+t] = 10
			fl["elem.nil-function-result."+h.Prof.Pkg+"."+t] = 10
		}
	}
	// forks: every number of pending steps 0..40 for every program-valued monad, every arm kind,
	// arms really observed more than once, laws on independently built bases
	for _, h := range forkHarnesses {
		p := h.Prof.Pkg
		fl["hit."+h.Checks[0].Name] = 1000
		for _, e := range h.Extra {
			fl["hit."+e] = 20
		}
		for k := 0; k <= core.ForkMaxPending; k++ {
			fl[fmt.Sprintf("fork.pending.%s.%02d", p, k)] = 16
		}
		fl["fork.cases."+p] = 1000
		fl["fork.arms."+p] = 3000
		fl["fork.arm-observations."+p] = 6000
		fl["fork.cases-with-three-or-more-arms."+p] = 300
		if p != "iterator" { // iterator arms are thunks over a shared function / source
			fl["fork.second-level."+p] = 200
		}
		fl["fork.laws-on-independent-constructions."+p] = 6000
	}
	fl["fork.interleaved-walks.list"] = 1000
	fl["fork.interleaved-walks.iterator"] = 1000
	fl["fork.base-nonempty.list"] = 600
	fl["fork.base-longer-than-one.list"] = 400
	fl["fork.base-nonempty.iterator"] = 600
	// kept results that are non-empty slices and differ between the runs of one program value (the
	// situation in which a buffer shared between runs is visible)
	fl["rerun.reinspected-nonempty-slices.statet"] = 500
	fl["rerun.read-after-later-runs.statet"] = 100 // Iterator results: read only after the later runs
	for _, p := range []string{"option", "try", "either", "statet"} {
		fl["elem.unit-on-zero."+p] = 40
	}
	fl["rerun.kept-slices-differ-between-runs.statet"] = 100
	// failure values: every flavour (private, library sentinels, wrapping / joined library sentinels) for try and statet
	for _, p := range []string{"try", "statet"} {
		for _, f := range []string{"private", "library-sentinels", "wrapping-library-sentinels", "option-empty-related", "joined-with-library-sentinels", "mixed"} {
			fl["errors.flavour."+f+"."+p] = 500
		}
	}
	// pull-based / Go-map-based Iterator operands followed by forced collections
	for _, p := range []string{"option", "try", "either", "statet", "iterator"} {
		fl["gc.pull-operands."+p] = 60
		fl["gc.pull-operands-with-two-or-more-elements."+p] = 20
	}
	fl["gc.pull-operands.iterator"] = 200
	fl["gc.mid-consumption.iterator"] = 150
	fl["gc.go-map-operands-with-two-or-more-entries.iterator"] = 100
	for _, p := range []string{"option", "try", "either", "seq"} {
		fl["rerun.reinspected-nonempty-slices."+p] = 200
	}
	return fl
}

func main() {
	vrt.Main(vrt.Config{
		Property: "C01",
		Batches:  func(tier string) int { return classicBatches(tier) + len(forkPlan(tier)) },
		Cases:    casesPerBatch,
		Run:      run,
		Floors:   floors,
		Rule:     "classic batch b exercises one of the 10 packages (b mod 10). Case i runs the check selected by i alone: one exported combinator of the package (every arity 2..9 of the arity-indexed families through generated call sites, every method of every ApplicativeFunctorK/MonadChainK), or - one slot in five - a random expression program (depth <=4 quick / <=6 thorough, bound variables, <=14*depth nodes) over the combinator palette, interpreted by the library and by the reference. Operands come from w.Rand(i): every constructor (Some/None/zero Option, Success/Failure(err1..4), Right/Left(l1..3), StateT pure / state-changing / always-failing / failing for part of the states, nil/empty/singleton/longer sequences, lists as Seq/cons/lazy, iterators from Seq/Of/List/ReverseSeq/Empty, Eval from Done/Call/TailCall), functions from parametrised total palettes including ones failing / returning empty for part of their domain; failure placement per case: none, exactly one operand, or independent 35 %. Oracle: (a) plain-Go reference (state -> (value, failure index, state) for Option/Try/Either/StateT observed at 1 resp. 4 probe states, the list monad on []int, the strict value for Eval, Go functions on 8 probe arguments for fn1), error identity = pointer identity of the injected sentinels; (b) for Map everywhere, and for the Iterator combinators that share a single-use operand by design, the definition written with the package's own FlatMap and unit on fresh identical operands. Re-run and persistence (core/rerun.go): every program-valued result is executed several times - a StateT from the probe states 0,1,2,7 and then again from 7,2,1,0; an fn1 reader on its 8 probe arguments twice; an fn0 value three times; an Eval by Get, Run, Get; a lazy List is walked twice; an Iterator-producing call is made twice on identically rebuilt operands - and every combinator of a value monad whose result contains a slice (Traverse*, Sequence*, MapSeqLift, FlatMapTraverse*, the try SeqT functions, everything in seq) is called twice on the very same operands. Each result is snapshotted at once (the first pass is what the reference is compared with), a repeated run must equal the first run from the same input (key <check>/rerun-differs-from-first-run), and all results are kept AS RETURNED (slices, Seq, maps are not copied) and read again after all later runs (key <check>/earlier-result-changed-by-rerun). Element types (helem, core/elem.go): the unit, the three laws, Map (+ its FlatMap definition), Flatten, Ap, Flap, Zip, Replace, Map2, With, Method1, TraverseSeq and Sequence of option/try/either/statet, unit/laws/Map/Flatten/Ap/Map2/Flap of seq/list/iterator and unit/laws/Map/Map2/Flatten of lazy/fn0/fn1 are instantiated again at *int, []int, map[int]int, func(int) int, any (incl. a typed nil pointer in a non-nil interface) and error (check names carry the tag, e.g. option.Map[ptr]); palettes of 4-5 values with nil first, functions are tables over the palette, and every such case runs with the palette rotated through all positions so that nil reaches the unit argument, the function result and the operand value in every visit; a unit that does not return a success carrying exactly its argument is keyed <pkg>.<unit>/unit-not-total. FORKS (core/fork.go; batches appended after the classic ones, one package per batch: lazy, fn0, fn1, statet, list, iterator): case i of a fork batch builds ONE base value m that already carries k = i mod 41 pending steps (k = 0..40, every value equally often; lazy: Done/Call/TailCall* extended by k Eval.FlatMap / Eval.Map / lazy.FlatMap / lazy.Map steps; statet: k FlatMap / Map / FlatMapConst / Map2 / MapWithState steps; fn0, fn1: k Map / FlatMap steps; list: a Seq-backed / cons / lazy list extended by k list.Map / FlatMap / FilterMap / Map2 steps; iterator: an Iterator-producing function made of k nested iterator.Compose / ComposePure calls, and the lazy list as a persistent source of Iterators), derives 2..5 continuations with DIFFERENT functions from that one m through the binding combinators of the package (the arm kinds rotate with i div 41 so that every kind meets every k; kinds and operand positions are listed under coverage.forks.<pkg>.arms_by_combinator_and_position: FlatMap, Map, Map2 first / second / both operands, Ap function / argument operand, ApFunc, Flatten, Zip, Zip3, Replace, FlatMapConst, Concat, MapWithState, MapT, Lift*, FlatMap2, Flap, FlapMap, Method1, FlatMethod1, With, UnZip, Sequence, TraverseSeq, Compose, PeekState, m used inside a continuation, TailCall returning m, m itself), in half of the cases two more continuations from the first arm, keeps all of them, and only then observes every arm 2..3 times in PRNG order with the observers above (list cells / Iterators of all arms are first walked interleaved, one or two elements of one arm at a time). Every observation must equal the plain-Go model and the same continuation bound to an INDEPENDENTLY constructed base (the constructor run again on the same descriptors); an arm that is wrong while its twin is right is keyed <pkg>.<Combinator>/forked-value-disturbed, a wrong twin <pkg>.<Combinator>/differs-from-reference. The same cases check left identity (with a Kleisli arrow that carries the k pending steps), right identity and associativity on such bases with the left side built from one construction of m and the right side from another one (keys <pkg>.FlatMap/<law>). FAILURE VALUES AND COLLECTOR (core/gcpull.go): by visit number the injected failures Errs[1..4] are private sentinels, the library's own exported sentinel errors (fp.ErrOptionEmpty, fp.ErrTryNotFailed, fp.ErrFutureNotFailed, reflectfp.ErrInvalidType), fmt.Errorf(%w) / errors.Join / fp.Error(cause) wrappers of them, or a mix, always compared by identity; the check try.user-failure-with-library-sentinel runs one of 29 try / statet combinators per visit with a user function or operand failing with each of 19 sentinel forms in turn. Iterator operands are built, one visit in 32 (value-monad Traverse / SequenceIterator / FoldM operands: one in 6), by iterator.Pull, fp.MakePullIterator or (at most one entry) iterator.FromMapValue / FromMap / fp.IteratorOfGoMap, followed by two forced garbage collections whose finalizers are awaited, with another forced double collection inside the source or after the first element of the result (at most 2 per case); Go maps with 0..17 entries have their own multiset-compared checks (iterator.*(go-map source), try.Traverse(go-map source)). Every case is counted; distinct_nontrivial = number of distinct (combinator, tuple of operand shapes) pairs (operand shape = constructor variant + success/failure class, sequence shape; for programs the whole expression).",
		Assumptions: []string{
			"callbacks handed to the library are pure and total; effects order is observed through which failure / which state results, callback invocation order itself is C02",
			"element types are int (and nested containers / curried functions of int) for every combinator and arity; the law / definition checks of the unit-dependent core (unit, laws, Map, Flatten, Ap, Flap, Zip, Replace, Map2, With, Method1, TraverseSeq, Sequence) are repeated at six nil-able element types; the arity-indexed families and the builders are exercised at int only",
			"nil and empty slices / maps are the same value for the oracle (shown alike); nil vs non-nil is only ever compared through success / failure of the carrier",
			"a program-valued result (StateT, fn0, fn1, Eval, lazy List) may be executed any number of times and user callbacks are pure, so repeated runs from the same input must agree; Iterators are single-use and are only ever rebuilt, never re-read",
			"the uninitialised fp.Try[T]{} is not an input; Option[T]{} is",
			"StateT values are observed at the probe states 0,1,2,7; fn1 readers at 8 probe arguments",
			"seq/list/iterator Zip/Zip3 are positional zips, not monadic products, and are left to C12",
			"forks: 2..7 continuations per base, at most two levels (base -> arm -> arm); the base carries 0..40 pending steps, every number equally often; an Iterator value itself is single-use and is never forked, only the functions and persistent sources that produce Iterators are",
			"operands are PRNG-sampled, not exhaustive",
			"a forced collection is runtime.GC() twice, each followed by a bounded wait for a probe finalizer armed before that cycle; the wait is not part of any verdict; ordered Go-map-backed operands have at most one entry, multi-entry maps are compared as multisets",
		},
		Finish: func(tier string, m *vrt.Merged, cov map[string]any) {
			per := map[string]int{}
			elemSites := map[string]int{}
			for k, v := range m.Counters {
				if strings.HasPrefix(k, "hit.") && v > 0 {
					name := strings.TrimPrefix(k, "hit.")
					if strings.Contains(name, "[") {
						elemSites[name[:strings.Index(name, ".")]]++
						continue
					}
					per[name[:strings.Index(name, ".")]]++
				}
			}
			cov["combinators_hit_per_package"] = per
			cov["element_type_sites_hit_per_package"] = elemSites
			rerun := map[string]int64{}
			elem := map[string]int64{}
			for k, v := range m.Counters {
				if strings.HasPrefix(k, "rerun.") {
					rerun[strings.TrimPrefix(k, "rerun.")] = v
				}
				if strings.HasPrefix(k, "elem.") {
					parts := strings.Split(k, ".") // elem.<what>.<pkg>.<tag>
					elem[parts[1]+"."+parts[len(parts)-1]] += v
				}
			}
			cov["rerun"] = rerun
			gcs := map[string]int64{}
			for k, v := range m.Counters {
				if strings.HasPrefix(k, "gc.") || strings.HasPrefix(k, "errors.flavour.") {
					gcs[k] = v
				}
			}
			cov["error_flavours_and_forced_collections"] = gcs
			// forks: per package the cases per number of pending steps (0..40) and the totals
			forks := map[string]any{}
			for _, h := range forkHarnesses {
				p := h.Prof.Pkg
				per := make([]int64, core.ForkMaxPending+1)
				for k := range per {
					per[k] = m.Counters[fmt.Sprintf("fork.pending.%s.%02d", p, k)]
				}
				t := map[string]any{"cases_per_number_of_pending_steps_0_to_40": per}
				for k, v := range m.Counters {
					if strings.HasPrefix(k, "fork.") && strings.HasSuffix(k, "."+p) {
						t[strings.TrimSuffix(strings.TrimPrefix(k, "fork."), "."+p)] = v
					}
				}
				arms := map[string]int64{}
				for _, e := range h.Extra {
					arms[strings.TrimPrefix(e, "fork:")] = m.Counters["hit."+e]
				}
				t["arms_by_combinator_and_position"] = arms
				forks[p] = t
			}
			cov["forks"] = forks
			if cs, ok := cov["counters"].(map[string]int64); ok {
				for k := range cs {
					if strings.HasPrefix(k, "fork.pending.") {
						delete(cs, k)
					}
				}
			}
			cov["element_types"] = elem
			cases := map[string]int64{}
			progs := map[string]int64{}
			for k, v := range m.Counters {
				if strings.HasPrefix(k, "cases.") {
					cases[strings.TrimPrefix(k, "cases.")] = v
				}
				if strings.HasPrefix(k, "hit.") && strings.HasSuffix(k, ".program") {
					progs[strings.TrimSuffix(strings.TrimPrefix(k, "hit."), ".program")] = v
				}
			}
			cov["cases_per_package"] = cases
			cov["programs_per_package"] = progs
			names := make([]string, 0, len(per))
			for k := range per {
				names = append(names, k)
			}
			sort.Strings(names)
			cov["packages"] = names
		},
	})
}
