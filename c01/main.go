// C01 — monad / functor / applicative laws and coherence of the derived combinators of
// option, try, either, seq, list, iterator, lazy, statet, fn0, fn1.
//
// Batch b exercises package harnesses[b % len(harnesses)]. Case i of a batch runs the check
// (one exported combinator, or one random expression program) selected by i alone, on
// operands drawn from w.Rand(i); w.Site names the combinator right before every library call
// so that a process-fatal stack overflow is attributed to it by the parent.
package main

import (
	"sort"
	"strings"

	"verif/vrt"
)

type pkgHarness struct {
	prof    *profile
	checks  []check
	program *check   // random expression programs (nil: none)
	extra   []string // further hit names (builder methods) that must be observed
}

var harnesses []pkgHarness

func init() {
	po, pt, pe, ps := programOption(), programTry(), programEither(), programStatet()
	harnesses = []pkgHarness{
		{profOption, append(checksOption(), builderChecksOption()...), &po, builderHitsOption()},
		{profTry, append(checksTry(), builderChecksTry()...), &pt, builderHitsTry()},
		{profEither, checksEither(), &pe, nil},
		{profStatet, checksStatet(), &ps, nil},
		{profSeq, checksSeq(), nil, nil},
		{profList, checksList(), nil, nil},
		{profIterator, checksIterator(), nil, nil},
	}
}

// slots: the regular checks in order, then one program slot for every four checks.
func (h *pkgHarness) slots() int {
	if h.program == nil {
		return len(h.checks)
	}
	return len(h.checks) + (len(h.checks)+3)/4
}

func batchesPerPkg(tier string) int {
	if tier == "thorough" {
		return 16
	}
	return 2
}

func casesPerBatch(tier string) int {
	if tier == "thorough" {
		return 7500
	}
	return 2000
}

func run(w *vrt.W) {
	h := &harnesses[w.Batch%len(harnesses)]
	round := w.Batch / len(harnesses)
	n := h.slots()
	for i := w.From; i < w.To; i++ {
		slot := i % n
		rot := i/n + round*5
		if slot < len(h.checks) {
			runCheck(w, i, h.prof, h.checks[slot], rot)
		} else {
			runCheck(w, i, h.prof, *h.program, rot)
		}
	}
}

func floors(tier string) map[string]int64 {
	fl := map[string]int64{}
	for _, h := range harnesses {
		for _, c := range h.checks {
			fl["hit."+c.name] = 1
		}
		if h.program != nil {
			fl["hit."+h.program.name] = 100
		}
		for _, e := range h.extra {
			fl["hit."+e] = 1
		}
		fl["cases."+h.prof.pkg] = 1000
	}
	return fl
}

func main() {
	vrt.Main(vrt.Config{
		Property: "C01",
		Batches:  func(tier string) int { return len(harnesses) * batchesPerPkg(tier) },
		Cases:    func(tier string, b int) int { return casesPerBatch(tier) },
		Run:      run,
		Floors:   floors,
		Rule:     "todo",
		Finish: func(tier string, m *vrt.Merged, cov map[string]any) {
			per := map[string]int{}
			for k, v := range m.Counters {
				if strings.HasPrefix(k, "hit.") && v > 0 {
					name := strings.TrimPrefix(k, "hit.")
					per[name[:strings.Index(name, ".")]]++
				}
			}
			cov["combinators_hit_per_package"] = per
			names := make([]string, 0, len(per))
			for k := range per {
				names = append(names, k)
			}
			sort.Strings(names)
			cov["packages"] = names
		},
	})
}
