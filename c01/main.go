// C01 — monad / functor / applicative laws and coherence of the derived combinators.
package main

import (
	"verif/vrt"
)

type pkgHarness struct {
	prof   *profile
	checks []check
}

var harnesses []pkgHarness

func init() {
	harnesses = []pkgHarness{
		{profOption, checksOption()},
		{profTry, checksTry()},
		{profEither, checksEither()},
		{profStatet, checksStatet()},
	}
}

func main() {
	vrt.Main(vrt.Config{
		Property: "C01",
		Batches: func(tier string) int {
			return len(harnesses) * 2
		},
		Cases: func(tier string, b int) int {
			return 2000
		},
		Run: func(w *vrt.W) {
			h := harnesses[w.Batch%len(harnesses)]
			for i := w.From; i < w.To; i++ {
				ck := h.checks[i%len(h.checks)]
				runCheck(w, i, h.prof, ck, i/len(h.checks))
			}
		},
		Rule: "todo",
	})
}
