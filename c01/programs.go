// C01 — random expression programs over the combinator palette of the generated monad
// packages: AST, PRNG generator and the plain-Go reference interpreter. The library-side
// interpreters are generated per package (evalLib<Pkg> in zz_<pkg>.go).
package main

import (
	"encoding/json"
	"fmt"
)

type expr struct {
	Op   string  `json:"op"`
	D    *opd    `json:"d,omitempty"`
	F    *f1d    `json:"f,omitempty"`
	G    *fnd    `json:"g,omitempty"`
	K    *kld    `json:"k,omitempty"`
	K2   *kld    `json:"k2,omitempty"`
	KN   *knd    `json:"kn,omitempty"`
	V    int     `json:"v,omitempty"`
	V2   int     `json:"v2,omitempty"`
	S    []int   `json:"s,omitempty"`
	SNil bool    `json:"snil,omitempty"`
	Kids []*expr `json:"kids,omitempty"`
}

func (e *expr) String() string {
	b, _ := json.Marshal(e)
	return string(b)
}

func (e *expr) seq() []int {
	if e.SNil {
		return nil
	}
	if e.S == nil {
		return []int{}
	}
	return e.S
}

// operators: name, number of plain kids, number of kids evaluated under one more bound variable
type opSpec struct {
	name        string
	kids, bound int
}

var progOps = []opSpec{
	{"map", 1, 0}, {"lift", 1, 0}, {"replace", 1, 0},
	{"flatmap", 1, 1}, {"liftm", 1, 1}, {"flatten", 1, 1},
	{"map2", 2, 0}, {"lifta2", 2, 0}, {"zip", 2, 0}, {"ap", 2, 0}, {"apfunc", 2, 0},
	{"map3", 3, 0}, {"lifta3", 3, 0}, {"zip3", 3, 0}, {"map4", 4, 0},
	{"liftm2", 2, 0}, {"flatmap2", 2, 0}, {"liftm3", 3, 0}, {"flatmap3", 3, 0},
	{"flapmap", 1, 0}, {"method1", 1, 0}, {"method2", 1, 0}, {"method3", 1, 0}, {"with", 1, 0},
	{"flatflapmap", 1, 0}, {"flatmethod1", 1, 0}, {"flatmethod2", 1, 0}, {"flatmethod3", 1, 0},
	{"flap", 1, 0}, {"flap2", 1, 0}, {"flap3", 1, 0},
	{"compose", 1, 0}, {"compose3", 1, 0},
	{"sequence", -1, 0}, {"sequenceIterator", -1, 0},
	{"traverseSeq", 0, 1}, {"traverse", 0, 1}, {"foldm", 0, 0},
	{"unzip1", 2, 0}, {"unzip2", 2, 0},
}

type progGen struct {
	c      *cas
	budget int
	ops    map[string]int
	depth  int

	depthReached int
}

func (g *progGen) leaf(nvars int) *expr {
	c := g.c
	x := c.r.IntN(3)
	if nvars == 0 {
		x = 0
	}
	switch x {
	case 1:
		f := f1d{1 + c.r.IntN(50), c.r.IntN(1000)}
		return &expr{Op: "var", V: c.r.IntN(nvars), F: &f}
	case 2:
		k := g.kl()
		return &expr{Op: "klvar", V: c.r.IntN(nvars), K: &k}
	}
	mode := c.r.IntN(100) < 22
	d := c.rawOpd(mode)
	return &expr{Op: "leaf", D: &d}
}

func (g *progGen) kl() kld {
	c := g.c
	k := kld{1 + c.r.IntN(50), c.r.IntN(1000), c.rawOpd(c.r.IntN(100) < 15)}
	if !c.p.stateful && k.O.M == 1 {
		k.O.M = 2 + c.r.IntN(3)
	}
	return k
}

func (g *progGen) kn() knd {
	c := g.c
	k := knd{fnd{c.r.IntN(1000)}, c.rawOpd(c.r.IntN(100) < 15)}
	if !c.p.stateful && k.O.M == 1 {
		k.O.M = 2 + c.r.IntN(3)
	}
	return k
}

func (g *progGen) gen(depth, nvars int) *expr {
	c := g.c
	g.budget--
	if depth <= 1 || g.budget <= 0 || c.r.IntN(100) < 12 {
		return g.leaf(nvars)
	}
	sp := progOps[c.r.IntN(len(progOps))]
	g.ops[sp.name]++
	e := &expr{Op: sp.name, V: c.r.IntN(1000), V2: c.r.IntN(1000)}
	f := f1d{1 + c.r.IntN(50), c.r.IntN(1000)}
	gg := fnd{c.r.IntN(1000)}
	e.F, e.G = &f, &gg
	k, k2, kn := g.kl(), g.kl(), g.kn()
	e.K, e.K2, e.KN = &k, &k2, &kn
	nk := sp.kids
	if nk < 0 {
		nk = c.r.IntN(4)
	}
	for i := 0; i < nk; i++ {
		e.Kids = append(e.Kids, g.gen(depth-1, nvars))
	}
	for i := 0; i < sp.bound; i++ {
		e.Kids = append(e.Kids, g.gen(depth-1, nvars+1))
	}
	switch sp.name {
	case "traverseSeq", "traverse", "foldm":
		s := seqOf(c.r.IntN(6000))
		if len(s) > 3 {
			s = s[:3]
		}
		e.S, e.SNil = s, s == nil
	}
	if d := g.depth - depth + 1; d > g.depthReached {
		g.depthReached = d
	}
	return e
}

func bind(env []int, x int) []int { return append(append(make([]int, 0, len(env)+1), env...), x) }

// evalRef is the reference interpreter (plain Go).
func evalRef(e *expr, env []int) ref[int] {
	kid := func(i int) ref[int] { return evalRef(e.Kids[i], env) }
	body := func(i int) func(int) ref[int] {
		return func(x int) ref[int] { return evalRef(e.Kids[i], bind(env, x)) }
	}
	switch e.Op {
	case "leaf":
		return refInt(*e.D)
	case "var":
		return rPure(e.F.call(env[e.V]))
	case "klvar":
		return e.K.ref(env[e.V])
	case "map", "lift":
		return rMap(kid(0), e.F.call)
	case "replace":
		return rMap(kid(0), func(int) int { return e.V })
	case "flatmap", "liftm", "flatten":
		return rFlatMap(kid(0), body(1))
	case "map2", "lifta2", "zip", "ap", "apfunc":
		return rMap2(kid(0), kid(1), e.G.call2)
	case "map3", "lifta3", "zip3":
		return rLiftA(e.G.call, kid(0), kid(1), kid(2))
	case "map4":
		return rLiftA(e.G.call, kid(0), kid(1), kid(2), kid(3))
	case "liftm2", "flatmap2":
		return rLiftM(e.KN.ref, kid(0), kid(1))
	case "liftm3", "flatmap3":
		return rLiftM(e.KN.ref, kid(0), kid(1), kid(2))
	case "flapmap", "method1":
		return rMap(kid(0), func(a int) int { return e.G.call(a, e.V) })
	case "method2":
		return rMap(kid(0), func(a int) int { return e.G.call(a, e.V, e.V2) })
	case "method3":
		return rMap(kid(0), func(a int) int { return e.G.call(a, e.V, e.V2) })
	case "with":
		return rMap(kid(0), func(b int) int { return e.G.call(e.V, b) })
	case "flatflapmap", "flatmethod1":
		return rFlatMap(kid(0), func(a int) ref[int] { return e.KN.ref(a, e.V) })
	case "flatmethod2", "flatmethod3":
		return rFlatMap(kid(0), func(a int) ref[int] { return e.KN.ref(a, e.V, e.V2) })
	case "flap":
		return rMap(kid(0), func(cv int) int { return e.G.call(cv, e.V) })
	case "flap2":
		return rMap(kid(0), func(cv int) int { return e.G.call(cv, e.V, e.V2) })
	case "flap3":
		return rMap(kid(0), func(cv int) int { return e.G.call(cv, e.V, e.V2, e.V) })
	case "compose":
		return rFlatMap(kid(0), rKleisli([]func(int) ref[int]{e.K.ref, e.K2.ref}))
	case "compose3":
		return rFlatMap(kid(0), rKleisli([]func(int) ref[int]{e.K.ref, e.K2.ref, e.K.ref}))
	case "sequence", "sequenceIterator":
		ms := make([]ref[int], len(e.Kids))
		for i := range e.Kids {
			ms[i] = kid(i)
		}
		return rMap(rAll(ms), func(vs []int) int { return e.G.call(vs...) })
	case "traverseSeq", "traverse":
		return rMap(rTraverse(e.seq(), body(0)), func(vs []int) int { return e.G.call(vs...) })
	case "foldm":
		return rFoldM(e.seq(), e.V, func(b, a int) ref[int] { return e.KN.ref(b, a) })
	case "unzip1":
		return rMap2(kid(0), kid(1), func(a, b int) int { return a })
	case "unzip2":
		return rMap2(kid(0), kid(1), func(a, b int) int { return b })
	}
	panic(fmt.Sprintf("evalRef: unknown op %q", e.Op))
}

func maxDepth(tier string) int {
	if tier == "thorough" {
		return 6
	}
	return 4
}

// runProgram: generate a program, interpret it with the library (evalLib) and the reference.
func runProgram(c *cas, evalLib func(e *expr) string) {
	depth := 2 + c.r.IntN(maxDepth(c.w.Tier)-1)
	g := &progGen{c: c, budget: 14 * depth, ops: map[string]int{}, depth: depth}
	e := g.gen(depth, 0)
	c.prog = e
	c.w.Max("program.depth."+c.p.pkg, int64(g.depthReached))
	for op, n := range g.ops {
		c.w.Add("prog."+c.p.pkg+"."+op, int64(n))
	}
	c.shape(fmt.Sprintf("depth=%d,ops=%d", g.depthReached, len(g.ops)))
	c.shapeHash(e.String())
	got := evalLib(e)
	c.eq(got, c.obs(evalRef(e, nil)))
}
