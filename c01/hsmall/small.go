// C01 — lazy.Eval (reference: the strict value), fn0 (reference: a plain value) and fn1 (the
// reader monad; reference: Go functions compared extensionally on 8 probe arguments).
package hsmall

import (
	"encoding/json"
	"fmt"

	. "verif/c01/core"

	"github.com/csgura/fp"
	"github.com/csgura/fp/fn0"
	"github.com/csgura/fp/fn1"
	"github.com/csgura/fp/lazy"
)

// Harnesses: lazy, fn0, fn1.
func Harnesses() []PkgHarness {
	pl := ProgramLazy()
	return []PkgHarness{
		{Prof: ProfLazy, Checks: append(ChecksLazy(), ChecksLazyArity()...), Program: &pl},
		{Prof: ProfFn0, Checks: ChecksFn0()},
		{Prof: ProfFn1, Checks: ChecksFn1()},
	}
}

func ChecksLazy() []Check {
	return []Check{
		{"lazy.FlatMap", func(c *Cas) {
			d, k1, k2 := c.Eopd(), c.Ekl(), c.Ekl()
			a := c.IntZ()
			c.Note("a=%d", a)
			c.Site("lazy.FlatMap")
			li := EvGet(lazy.FlatMap(lazy.Done(a), k1.At))
			c.Law("left-identity", ShowInt(li), ShowInt(EvGet(k1.At(a))))
			c.Law("left-identity-vs-reference", ShowInt(li), ShowInt(k1.Val(a)))
			ri := EvGet(lazy.FlatMap(d.Eval(), lazy.Done[int]))
			c.Law("right-identity", ShowInt(ri), ShowInt(EvGet(d.Eval())))
			c.Law("right-identity-vs-reference", ShowInt(ri), ShowInt(d.V))
			as1 := EvGet(lazy.FlatMap(lazy.FlatMap(d.Eval(), k1.At), k2.At))
			as2 := EvGet(lazy.FlatMap(d.Eval(), func(x int) EV { return lazy.FlatMap(k1.At(x), k2.At) }))
			c.Law("associativity", ShowInt(as1), ShowInt(as2))
			c.Law("associativity-vs-reference", ShowInt(as1), ShowInt(k2.Val(k1.Val(d.V))))
		}},
		{"lazy.Eval.FlatMap", func(c *Cas) {
			d, k := c.Eopd(), c.Ekl()
			c.Site("lazy.Eval.FlatMap")
			c.EqI(EvGet(d.Eval().FlatMap(k.At)), k.Val(d.V))
		}},
		{"lazy.Map", func(c *Cas) {
			d, f := c.Eopd(), c.F1()
			c.Site("lazy.Map")
			got := EvGet(lazy.Map(d.Eval(), f.Call))
			c.EqI(got, f.Call(d.V))
			c.Site("lazy.FlatMap")
			c.EqDef(ShowInt(got), ShowInt(EvGet(lazy.FlatMap(d.Eval(), func(x int) EV { return lazy.Done(f.Call(x)) }))))
		}},
		{"lazy.Eval.Map", func(c *Cas) {
			d, f := c.Eopd(), c.F1()
			c.Site("lazy.Eval.Map")
			c.EqI(EvGet(d.Eval().Map(f.Call)), f.Call(d.V))
		}},
		{"lazy.Map2", func(c *Cas) {
			a, b, g := c.Eopd(), c.Eopd(), c.Fn()
			c.Site("lazy.Map2")
			got := EvGet(lazy.Map2(a.Eval(), b.Eval(), g.Call2))
			c.EqI(got, g.Call(a.V, b.V))
			c.Site("lazy.FlatMap")
			def := EvGet(lazy.FlatMap(a.Eval(), func(x int) EV {
				return lazy.FlatMap(b.Eval(), func(y int) EV { return lazy.Done(g.Call(x, y)) })
			}))
			c.EqDef(ShowInt(got), ShowInt(def))
		}},
		{"lazy.Done", func(c *Cas) {
			a := c.IntZ()
			c.Shape("done")
			c.Site("lazy.Done")
			c.EqI(EvGet(lazy.Done(a)), a)
			c.Site("lazy.Run")
			c.EqI(lazy.Run(lazy.Done(a)), a)
		}},
		{"lazy.Call", func(c *Cas) {
			a := c.IntZ()
			c.Shape("call")
			c.Site("lazy.Call")
			c.EqI(EvGet(lazy.Call(func() int { return a })), a)
		}},
		{"lazy.TailCall", func(c *Cas) {
			d := c.Eopd()
			c.Site("lazy.TailCall")
			c.EqI(EvGet(lazy.TailCall(func() EV { return d.Eval() })), d.V)
		}},
		{"lazy.Func1", func(c *Cas) {
			f := c.F1()
			xs := c.Ints(1)
			c.Shape("func")
			c.Site("lazy.Func1")
			c.EqI(EvGet(lazy.Func1(f.Call)(xs[0])), f.Call(xs[0]))
		}},
		{"lazy.Func2", func(c *Cas) {
			g := c.Fn()
			xs := c.Ints(2)
			c.Shape("func")
			c.Site("lazy.Func2")
			c.EqI(EvGet(lazy.Func2(g.Call2)(xs[0], xs[1])), g.Call(xs[0], xs[1]))
		}},
		{"lazy.Func3", func(c *Cas) {
			g := c.Fn()
			xs := c.Ints(3)
			c.Shape("func")
			c.Site("lazy.Func3")
			c.EqI(EvGet(lazy.Func3(func(a, b, cc int) int { return g.Call(a, b, cc) })(xs[0], xs[1], xs[2])), g.Call(xs...))
		}},
	}
}

// ---- programs over Eval -----------------------------------------------------------------------

type Eexpr struct {
	Op   string   `json:"op"`
	D    *Eopd    `json:"d,omitempty"`
	F    *F1d     `json:"f,omitempty"`
	G    *Fnd     `json:"g,omitempty"`
	K    *Ekd     `json:"k,omitempty"`
	V    int      `json:"v,omitempty"`
	Kids []*Eexpr `json:"kids,omitempty"`
}

var EprogOps = []OpSpec{
	{"map", 1, 0}, {"mmap", 1, 0}, {"flatmap", 1, 1}, {"mflatmap", 1, 1}, {"map2", 2, 0},
	{"tailcall", 1, 0}, {"klapply", 1, 0},
}

func GenEExpr(c *Cas, depth, nvars, level int, height *int, budget *int, ops map[string]int) *Eexpr {
	*budget--
	if level > *height {
		*height = level
	}
	if depth <= 1 || *budget <= 0 || c.R.IntN(100) < 12 {
		x := c.R.IntN(2)
		if nvars == 0 {
			x = 0
		}
		if x == 1 {
			return &Eexpr{Op: "var", V: c.R.IntN(nvars), K: &Ekd{1 + c.R.IntN(50), c.R.IntN(1000), c.R.IntN(6)}}
		}
		return &Eexpr{Op: "leaf", D: &Eopd{c.R.IntN(1000), c.R.IntN(len(EvalKinds))}}
	}
	sp := EprogOps[c.R.IntN(len(EprogOps))]
	ops[sp.Name]++
	e := &Eexpr{Op: sp.Name, F: &F1d{1 + c.R.IntN(50), c.R.IntN(1000)}, G: &Fnd{c.R.IntN(1000)},
		K: &Ekd{1 + c.R.IntN(50), c.R.IntN(1000), c.R.IntN(6)}}
	for i := 0; i < sp.Kids; i++ {
		e.Kids = append(e.Kids, GenEExpr(c, depth-1, nvars, level+1, height, budget, ops))
	}
	for i := 0; i < sp.Bound; i++ {
		e.Kids = append(e.Kids, GenEExpr(c, depth-1, nvars+1, level+1, height, budget, ops))
	}
	return e
}

func EEvalRef(e *Eexpr, env []int) int {
	switch e.Op {
	case "leaf":
		return e.D.V
	case "var":
		return e.K.Val(env[e.V])
	case "map", "mmap":
		return e.F.Call(EEvalRef(e.Kids[0], env))
	case "flatmap", "mflatmap":
		return EEvalRef(e.Kids[1], Bind(env, EEvalRef(e.Kids[0], env)))
	case "map2":
		return e.G.Call(EEvalRef(e.Kids[0], env), EEvalRef(e.Kids[1], env))
	case "tailcall":
		return EEvalRef(e.Kids[0], env)
	case "klapply":
		return e.K.Val(EEvalRef(e.Kids[0], env))
	}
	panic("eEvalRef: " + e.Op)
}

func EEvalLib(c *Cas, e *Eexpr, env []int) EV {
	kid := func(i int) EV { return EEvalLib(c, e.Kids[i], env) }
	body := func(i int) func(int) EV {
		return func(x int) EV { return EEvalLib(c, e.Kids[i], Bind(env, x)) }
	}
	switch e.Op {
	case "leaf":
		return e.D.Eval()
	case "var":
		return e.K.At(env[e.V])
	case "map":
		m := kid(0)
		c.Site("lazy.Map")
		return lazy.Map(m, e.F.Call)
	case "mmap":
		m := kid(0)
		c.Site("lazy.Eval.Map")
		return m.Map(e.F.Call)
	case "flatmap":
		m := kid(0)
		c.Site("lazy.FlatMap")
		return lazy.FlatMap(m, body(1))
	case "mflatmap":
		m := kid(0)
		c.Site("lazy.Eval.FlatMap")
		return m.FlatMap(body(1))
	case "map2":
		a, b := kid(0), kid(1)
		c.Site("lazy.Map2")
		return lazy.Map2(a, b, e.G.Call2)
	case "tailcall":
		c.Site("lazy.TailCall")
		return lazy.TailCall(func() EV { return kid(0) })
	case "klapply":
		m := kid(0)
		c.Site("lazy.FlatMap")
		return lazy.FlatMap(m, e.K.At)
	}
	panic("eEvalLib: " + e.Op)
}

func ProgramLazy() Check {
	return Check{"lazy.program", func(c *Cas) {
		depth := 2 + c.R.IntN(MaxDepth(c.W.Tier)-1)
		height, budget := 0, 12*depth
		ops := map[string]int{}
		e := GenEExpr(c, depth, 0, 1, &height, &budget, ops)
		b, _ := json.Marshal(e)
		c.Note("program %s", b)
		c.W.Max("program.depth.lazy", int64(height))
		for op, n := range ops {
			c.W.Add("prog.lazy."+op, int64(n))
		}
		c.Shape(fmt.Sprintf("depth=%d,ops=%d", height, len(ops)))
		c.ShapeHash(string(b))
		got := EEvalLib(c, e, nil)
		c.Site("lazy.Eval.Get")
		c.EqI(EvGet(got), EEvalRef(e, nil))
	}}
}

// ---- fn0 ---------------------------------------------------------------------------------------

func ChecksFn0() []Check {
	type F = fp.Func0[int]
	_ = fp.Unit{}
	mk := func(v int, kind int) F {
		if kind%2 == 0 {
			return fn0.Pure(v)
		}
		return func(fp.Unit) int { return v }
	}
	opd0 := func(c *Cas) (int, F) {
		v, kind := c.R.IntN(1000), c.R.IntN(2)
		c.Shape([]string{"pure", "closure"}[kind])
		c.Note("fn0 value %d kind %d", v, kind)
		return v, mk(v, kind)
	}
	return []Check{
		{"fn0.FlatMap", func(c *Cas) {
			v, m := opd0(c)
			k1, k2 := c.F1(), c.F1()
			a := c.IntZ()
			f := func(x int) F { return mk(k1.Call(x), x) }
			g := func(x int) F { return mk(k2.Call(x), x+1) }
			c.Site("fn0.FlatMap")
			li := Run0I(fn0.FlatMap(fn0.Pure(a), f))
			c.Law("left-identity", ShowInt(li), ShowInt(Run0I(f(a))))
			c.Law("left-identity-vs-reference", ShowInt(li), ShowInt(k1.Call(a)))
			ri := Run0I(fn0.FlatMap(m, func(x int) F { return fn0.Pure(x) }))
			c.Law("right-identity", ShowInt(ri), ShowInt(Run0I(m)))
			c.Law("right-identity-vs-reference", ShowInt(ri), ShowInt(v))
			as1 := Run0I(fn0.FlatMap(fn0.FlatMap(m, f), g))
			as2 := Run0I(fn0.FlatMap(m, func(x int) F { return fn0.FlatMap(f(x), g) }))
			c.Law("associativity", ShowInt(as1), ShowInt(as2))
			c.Law("associativity-vs-reference", ShowInt(as1), ShowInt(k2.Call(k1.Call(v))))
		}},
		{"fn0.Pure", func(c *Cas) {
			a := c.IntZ()
			c.Shape("pure")
			c.Site("fn0.Pure")
			c.EqI(Run0I(fn0.Pure(a)), a)
		}},
		{"fn0.Map", func(c *Cas) {
			v, m := opd0(c)
			f := c.F1()
			c.Site("fn0.Map")
			got := Run0I(fn0.Map(m, f.Call))
			c.EqI(got, f.Call(v))
			c.Site("fn0.FlatMap")
			c.EqDef(ShowInt(got), ShowInt(Run0I(fn0.FlatMap(m, func(x int) F { return fn0.Pure(f.Call(x)) }))))
		}},
		{"fn0.Flatten", func(c *Cas) {
			v, _ := opd0(c)
			f := c.F1()
			kind := c.R.IntN(2)
			var mm fp.Func0[F] = func(fp.Unit) F { return mk(f.Call(v), kind) }
			c.Site("fn0.Flatten")
			got := Run0I(fn0.Flatten(mm))
			c.EqI(got, f.Call(v))
			c.Site("fn0.FlatMap")
			c.EqDef(ShowInt(got), ShowInt(Run0I(fn0.FlatMap(mm, func(x F) F { return x }))))
		}},
	}
}

// ---- fn1: reader monad over int -------------------------------------------------------------------

func ChecksFn1() []Check {
	return []Check{
		{"fn1.FlatMap", func(c *Cas) {
			d, k1, k2 := c.R1d(), c.R1k(), c.R1k()
			a := c.IntZ()
			c.Note("a=%d", a)
			c.Site("fn1.FlatMap")
			li := Probe(fn1.FlatMap(fn1.Pure[int](a), k1.Lib))
			c.Law("left-identity", li, Probe(k1.Lib(a)))
			c.Law("left-identity-vs-reference", li, ProbeRef(k1.Ref(a)))
			ri := Probe(fn1.FlatMap(d.Lib(), func(v int) R1 { return fn1.Pure[int](v) }))
			c.Law("right-identity", ri, Probe(d.Lib()))
			c.Law("right-identity-vs-reference", ri, ProbeRef(d.Ref))
			as1 := Probe(fn1.FlatMap(fn1.FlatMap(d.Lib(), k1.Lib), k2.Lib))
			as2 := Probe(fn1.FlatMap(d.Lib(), func(v int) R1 { return fn1.FlatMap(k1.Lib(v), k2.Lib) }))
			c.Law("associativity", as1, as2)
			c.Law("associativity-vs-reference", as1, ProbeRef(func(x int) int { return k2.Ref(k1.Ref(d.Ref(x))(x))(x) }))
		}},
		{"fn1.Pure", func(c *Cas) {
			a := c.IntZ()
			c.Shape("pure")
			c.Site("fn1.Pure")
			c.Eq(Probe(fn1.Pure[int](a)), ProbeRef(func(int) int { return a }))
		}},
		{"fn1.Map", func(c *Cas) {
			d, f := c.R1d(), c.F1()
			c.Site("fn1.Map")
			got := Probe(fn1.Map(d.Lib(), f.Call))
			c.Eq(got, ProbeRef(func(x int) int { return f.Call(d.Ref(x)) }))
			c.Site("fn1.FlatMap")
			c.EqDef(got, Probe(fn1.FlatMap(d.Lib(), func(v int) R1 { return fn1.Pure[int](f.Call(v)) })))
		}},
		{"fn1.Flatten", func(c *Cas) {
			d, k := c.R1d(), c.R1k()
			mm := func() fp.Func1[int, R1] { return func(x int) R1 { return k.Lib(d.Ref(x)) } }
			c.Site("fn1.Flatten")
			got := Probe(fn1.Flatten(mm()))
			c.Eq(got, ProbeRef(func(x int) int { return k.Ref(d.Ref(x))(x) }))
			c.Site("fn1.FlatMap")
			c.EqDef(got, Probe(fn1.FlatMap(mm(), func(v R1) R1 { return v })))
		}},
		{"fn1.Get", func(c *Cas) {
			c.Shape("get")
			c.Site("fn1.Get")
			c.Eq(Probe(fn1.Get[int]()), ProbeRef(func(x int) int { return x }))
		}},
		{"fn1.WithArg", func(c *Cas) {
			k := c.R1k()
			c.Shape("witharg")
			c.Site("fn1.WithArg")
			got := Probe(fn1.WithArg(func(a int) R1 { return k.Lib(a) }))
			c.Eq(got, ProbeRef(func(x int) int { return k.Ref(x)(x) }))
		}},
		{"fn1.program", func(c *Cas) {
			// a left- or right-nested chain of FlatMap/Map over readers
			n := 2 + c.R.IntN(MaxDepth(c.W.Tier))
			d := c.R1d()
			ks := make([]R1k, n)
			for i := range ks {
				ks[i] = c.R1k()
			}
			f := c.F1()
			right := c.R.IntN(2) == 0
			c.Shape(fmt.Sprintf("chain=%d,right=%v", n, right))
			c.Site("fn1.FlatMap")
			var got R1
			if right {
				var build func(i int) func(int) R1
				build = func(i int) func(int) R1 {
					if i == n-1 {
						return ks[i].Lib
					}
					return func(v int) R1 { return fn1.FlatMap(ks[i].Lib(v), build(i+1)) }
				}
				got = fn1.FlatMap(d.Lib(), build(0))
			} else {
				got = d.Lib()
				for i := range ks {
					got = fn1.FlatMap(got, ks[i].Lib)
				}
			}
			c.Site("fn1.Map")
			got = fn1.Map(got, f.Call)
			c.W.Max("program.depth.fn1", int64(n+1))
			c.Eq(Probe(got), ProbeRef(func(x int) int {
				v := d.Ref(x)
				for _, k := range ks {
					v = k.Ref(v)(x)
				}
				return f.Call(v)
			}))
		}},
	}
}
