// C01 — forks of lazy.Eval, fn0 and fn1 values (core/fork.go): one base value with k = 0..40
// pending steps, several continuations bound to it through every binding combinator of the
// package, all kept, each observed after the others were built, in PRNG order, more than once;
// plus the monad laws on such bases with both sides built from independent constructions.
package hsmall

import (
	"fmt"

	. "verif/c01/core"

	"github.com/csgura/fp"
	"github.com/csgura/fp/fn0"
	"github.com/csgura/fp/fn1"
	"github.com/csgura/fp/lazy"
)

// ForkHarnesses: the fork checks of lazy, fn0, fn1 (run in the batches appended after the
// classic ones, see ../main.go).
func ForkHarnesses() []PkgHarness {
	return []PkgHarness{
		{Prof: ProfLazy, Checks: []Check{{Name: "lazy.fork", Run: forkLazy}}, Extra: forkExtra(lazyArmKinds)},
		{Prof: ProfFn0, Checks: []Check{{Name: "fn0.fork", Run: forkFn0}}, Extra: forkExtra(fn0ArmKinds)},
		{Prof: ProfFn1, Checks: []Check{{Name: "fn1.fork", Run: forkFn1}}, Extra: forkExtra(fn1ArmKinds)},
	}
}

type armKind struct{ Comb, Pos string }

func forkExtra(ks []armKind) []string {
	seen := map[string]bool{}
	var out []string
	for _, k := range ks {
		for _, h := range []string{ForkHit(k.Comb, ""), ForkHit(k.Comb, k.Pos)} {
			if !seen[h] {
				seen[h] = true
				out = append(out, h)
			}
		}
	}
	return out
}

// ---- lazy.Eval ----------------------------------------------------------------------------------

// evStep: one pending step of a base. Kind 0: Eval.FlatMap(K.At), 1: Eval.Map(F.Call),
// 2: lazy.FlatMap, 3: lazy.Map.
type evStep struct {
	Kind int
	F    F1d
	K    Ekd
}

type evBase struct {
	D     Eopd
	Steps []evStep
}

func (b evBase) From(m EV) EV {
	for _, s := range b.Steps {
		switch s.Kind {
		case 0:
			m = m.FlatMap(s.K.At)
		case 1:
			m = m.Map(s.F.Call)
		case 2:
			m = lazy.FlatMap(m, s.K.At)
		default:
			m = lazy.Map(m, s.F.Call)
		}
	}
	return m
}

// Build constructs the base: every call is an independent construction.
func (b evBase) Build() EV { return b.From(b.D.Eval()) }

func (b evBase) ValFrom(v int) int {
	for _, s := range b.Steps {
		if s.Kind%2 == 0 {
			v = s.K.Val(v)
		} else {
			v = s.F.Call(v)
		}
	}
	return v
}

func (b evBase) Val() int { return b.ValFrom(b.D.V) }

func genEvBase(c *Cas, k int) evBase {
	b := evBase{D: Eopd{c.R.IntN(1000), c.R.IntN(5)}} // kinds 0..4: no pending step of its own besides TailCall's
	for i := 0; i < k; i++ {
		b.Steps = append(b.Steps, evStep{c.R.IntN(4), F1d{1 + c.R.IntN(50), c.R.IntN(1000)}, Ekd{1 + c.R.IntN(50), c.R.IntN(1000), c.R.IntN(len(EvalKinds))}})
	}
	c.Shape(fmt.Sprintf("%s+%d", EvalKinds[b.D.Kind], k))
	c.Note("base %+v with %d pending steps %+v", b.D, k, b.Steps)
	return b
}

var lazyArmKinds = []armKind{
	{"lazy.Eval.FlatMap", "receiver"}, {"lazy.Eval.Map", "receiver"}, {"lazy.FlatMap", "operand"}, {"lazy.Map", "operand"},
	{"lazy.Map2", "first-operand"}, {"lazy.Map2", "second-operand"}, {"lazy.Map2", "both-operands"},
	{"lazy.TailCall", "returned-by-thunk"}, {"lazy.Eval.FlatMap", "used-inside-continuation"}, {"lazy.TailCall1", "used-inside-function"},
	{"lazy.Eval.Get", "base-itself"},
}

type evArm struct {
	Kind int
	F    F1d
	K    Ekd
	G    Fnd
	O    Eopd
}

func (a evArm) Apply(c *Cas, m EV) EV {
	c.Site(lazyArmKinds[a.Kind].Comb)
	switch a.Kind {
	case 0:
		return m.FlatMap(a.K.At)
	case 1:
		return m.Map(a.F.Call)
	case 2:
		return lazy.FlatMap(m, a.K.At)
	case 3:
		return lazy.Map(m, a.F.Call)
	case 4:
		return lazy.Map2(m, a.O.Eval(), a.G.Call2)
	case 5:
		return lazy.Map2(a.O.Eval(), m, a.G.Call2)
	case 6:
		return lazy.Map2(m, m, a.G.Call2)
	case 7:
		return lazy.TailCall(func() EV { return m }).Map(a.F.Call)
	case 8:
		return a.O.Eval().FlatMap(func(x int) EV { return m.Map(func(y int) int { return a.G.Call(x, y) }) })
	case 9:
		return lazy.TailCall1(func(x int) EV { return m.Map(func(y int) int { return a.G.Call(x, y) }) }, a.O.V)
	}
	return m
}

func (a evArm) Val(v int) int {
	switch a.Kind {
	case 0, 2:
		return a.K.Val(v)
	case 1, 3, 7:
		return a.F.Call(v)
	case 4:
		return a.G.Call(v, a.O.V)
	case 5, 8, 9:
		return a.G.Call(a.O.V, v)
	case 6:
		return a.G.Call(v, v)
	}
	return v
}

func genEvArm(c *Cas, kind int) evArm {
	return evArm{kind, F1d{1 + c.R.IntN(50), c.R.IntN(1000)}, Ekd{1 + c.R.IntN(50), c.R.IntN(1000), c.R.IntN(len(EvalKinds))},
		Fnd{c.R.IntN(1000)}, Eopd{c.R.IntN(1000), c.R.IntN(len(EvalKinds))}}
}

func forkLazy(c *Cas) {
	k := c.ForkPending()
	b := genEvBase(c, k)
	nk := len(lazyArmKinds)
	kinds := c.ForkPick(nk, 2+c.R.IntN(4))
	obs := func(v EV) func() string { return func() string { return ShowInt(EvGet(v)) } }
	m := b.Build() // the shared base
	var arms []ForkArm
	var specs []evArm
	var vals []EV
	for _, kd := range kinds {
		a := genEvArm(c, kd)
		v := a.Apply(c, m)
		specs, vals = append(specs, a), append(vals, v)
		arms = append(arms, ForkArm{Comb: lazyArmKinds[kd].Comb, Pos: lazyArmKinds[kd].Pos, Desc: fmt.Sprintf("%+v", a), Obs: obs(v),
			Fresh: func() string { return ShowInt(EvGet(a.Apply(c, b.Build()))) }, Want: ShowInt(a.Val(b.Val()))})
	}
	// second level: two more continuations bound to the first arm (itself a value with k+1.. pending steps)
	if c.R.IntN(2) == 0 && lazyArmKinds[specs[0].Kind].Pos != "base-itself" {
		s0, d0 := specs[0], vals[0]
		for _, kd := range c.ForkPick(nk-1, 2) {
			a := genEvArm(c, kd)
			v := a.Apply(c, d0)
			arms = append(arms, ForkArm{Comb: lazyArmKinds[kd].Comb, Pos: lazyArmKinds[kd].Pos, Desc: fmt.Sprintf("bound to arm 0: %+v", a), Obs: obs(v),
				Fresh: func() string { return ShowInt(EvGet(a.Apply(c, s0.Apply(c, b.Build())))) }, Want: ShowInt(a.Val(s0.Val(b.Val())))})
		}
		c.W.Add("fork.second-level.lazy", 1)
	}
	c.RunForks(k, arms)

	// the laws on a value with k pending steps; every side from its own construction
	k1 := Ekd{1 + c.R.IntN(50), c.R.IntN(1000), c.R.IntN(len(EvalKinds))}
	k2 := Ekd{1 + c.R.IntN(50), c.R.IntN(1000), c.R.IntN(len(EvalKinds))}
	a := c.IntZ()
	c.Note("laws: k1 %+v k2 %+v a=%d", k1, k2, a)
	ev := func(v EV) string { return ShowInt(EvGet(v)) }
	method := c.R.IntN(2) == 0
	bind := func(m EV, f func(int) EV) EV {
		if method {
			c.Site("lazy.Eval.FlatMap")
			return m.FlatMap(f)
		}
		c.Site("lazy.FlatMap")
		return lazy.FlatMap(m, f)
	}
	key := "lazy.FlatMap"
	if method {
		key = "lazy.Eval.FlatMap"
	}
	// kleisli arrow with k pending steps of its own
	fk := func(x int) EV { return b.From(Eopd{x, b.D.Kind}.Eval()) }
	li := ev(bind(lazy.Done(a), fk))
	c.ForkLaw(key, "left-identity", k, li, ev(fk(a)))
	c.ForkLaw(key, "left-identity-vs-reference", k, li, ShowInt(b.ValFrom(a)))
	ri := ev(bind(b.Build(), lazy.Done[int]))
	c.ForkLaw(key, "right-identity", k, ri, ev(b.Build()))
	c.ForkLaw(key, "right-identity-vs-reference", k, ri, ShowInt(b.Val()))
	as1 := ev(bind(bind(b.Build(), k1.At), k2.At))
	as2 := ev(bind(b.Build(), func(x int) EV { return bind(k1.At(x), k2.At) }))
	c.ForkLaw(key, "associativity", k, as1, as2)
	c.ForkLaw(key, "associativity-vs-reference", k, as1, ShowInt(k2.Val(k1.Val(b.Val()))))
}

// ---- fn0 ----------------------------------------------------------------------------------------

type F0 = fp.Func0[int]

func mkF0(v, kind int) F0 {
	if kind%2 == 0 {
		return fn0.Pure(v)
	}
	return func(fp.Unit) int { return v }
}

// f0Step: Kind 0: fn0.Map(m, F), 1: fn0.FlatMap(m, x -> mk(F(x))).
type f0Step struct {
	Kind int
	F    F1d
	V    int
}

type f0Base struct {
	V, Kind int
	Steps   []f0Step
}

func (s f0Step) kl(x int) F0 { return mkF0(s.F.Call(x), s.V+x) }

func (b f0Base) From(m F0) F0 {
	for _, s := range b.Steps {
		if s.Kind == 0 {
			m = fn0.Map(m, s.F.Call)
		} else {
			m = fn0.FlatMap(m, s.kl)
		}
	}
	return m
}

func (b f0Base) Build() F0 { return b.From(mkF0(b.V, b.Kind)) }

func (b f0Base) ValFrom(v int) int {
	for _, s := range b.Steps {
		v = s.F.Call(v)
	}
	return v
}
func (b f0Base) Val() int { return b.ValFrom(b.V) }

var fn0ArmKinds = []armKind{
	{"fn0.Map", "operand"}, {"fn0.FlatMap", "operand"}, {"fn0.Flatten", "of-mapped-base"}, {"fn0.FlatMap", "used-inside-continuation"},
	{"fn0.Func0", "base-itself"},
}

type f0Arm struct {
	Kind int
	F    F1d
	G    Fnd
	O, V int
}

func (a f0Arm) Apply(c *Cas, m F0) F0 {
	c.Site(fn0ArmKinds[a.Kind].Comb)
	switch a.Kind {
	case 0:
		return fn0.Map(m, a.F.Call)
	case 1:
		return fn0.FlatMap(m, func(x int) F0 { return mkF0(a.F.Call(x), a.V+x) })
	case 2:
		return fn0.Flatten(fn0.Map(m, func(x int) F0 { return mkF0(a.F.Call(x), a.V+x) }))
	case 3:
		return fn0.FlatMap(mkF0(a.O, a.V), func(x int) F0 { return fn0.Map(m, func(y int) int { return a.G.Call(x, y) }) })
	}
	return m
}

func (a f0Arm) Val(v int) int {
	switch a.Kind {
	case 0, 1, 2:
		return a.F.Call(v)
	case 3:
		return a.G.Call(a.O, v)
	}
	return v
}

func forkFn0(c *Cas) {
	k := c.ForkPending()
	b := f0Base{V: c.R.IntN(1000), Kind: c.R.IntN(2)}
	for i := 0; i < k; i++ {
		b.Steps = append(b.Steps, f0Step{c.R.IntN(2), F1d{1 + c.R.IntN(50), c.R.IntN(1000)}, c.R.IntN(2)})
	}
	c.Shape(fmt.Sprintf("%s+%d", []string{"pure", "closure"}[b.Kind], k))
	c.Note("base %d kind %d with %d pending steps %+v", b.V, b.Kind, k, b.Steps)
	gen := func(kind int) f0Arm {
		return f0Arm{kind, F1d{1 + c.R.IntN(50), c.R.IntN(1000)}, Fnd{c.R.IntN(1000)}, c.R.IntN(1000), c.R.IntN(2)}
	}
	obs := func(v F0) func() string { return func() string { return ShowInt(Run0I(v)) } }
	m := b.Build()
	nk := len(fn0ArmKinds)
	var arms []ForkArm
	var specs []f0Arm
	var vals []F0
	for _, kd := range c.ForkPick(nk, 2+c.R.IntN(3)) {
		a := gen(kd)
		v := a.Apply(c, m)
		specs, vals = append(specs, a), append(vals, v)
		arms = append(arms, ForkArm{Comb: fn0ArmKinds[kd].Comb, Pos: fn0ArmKinds[kd].Pos, Desc: fmt.Sprintf("%+v", a), Obs: obs(v),
			Fresh: func() string { return ShowInt(Run0I(a.Apply(c, b.Build()))) }, Want: ShowInt(a.Val(b.Val()))})
	}
	if c.R.IntN(2) == 0 && fn0ArmKinds[specs[0].Kind].Pos != "base-itself" {
		s0, d0 := specs[0], vals[0]
		for _, kd := range c.ForkPick(nk-1, 2) {
			a := gen(kd)
			v := a.Apply(c, d0)
			arms = append(arms, ForkArm{Comb: fn0ArmKinds[kd].Comb, Pos: fn0ArmKinds[kd].Pos, Desc: fmt.Sprintf("bound to arm 0: %+v", a), Obs: obs(v),
				Fresh: func() string { return ShowInt(Run0I(a.Apply(c, s0.Apply(c, b.Build())))) }, Want: ShowInt(a.Val(s0.Val(b.Val())))})
		}
		c.W.Add("fork.second-level.fn0", 1)
	}
	c.RunForks(k, arms)

	k1, k2 := F1d{1 + c.R.IntN(50), c.R.IntN(1000)}, F1d{1 + c.R.IntN(50), c.R.IntN(1000)}
	a := c.IntZ()
	c.Note("laws: k1 %+v k2 %+v a=%d", k1, k2, a)
	f := func(x int) F0 { return mkF0(k1.Call(x), x) }
	g := func(x int) F0 { return mkF0(k2.Call(x), x+1) }
	run := func(v F0) string { return ShowInt(Run0I(v)) }
	fk := func(x int) F0 { return b.From(mkF0(x, b.Kind)) }
	c.Site("fn0.FlatMap")
	li := run(fn0.FlatMap(fn0.Pure(a), fk))
	c.ForkLaw("fn0.FlatMap", "left-identity", k, li, run(fk(a)))
	c.ForkLaw("fn0.FlatMap", "left-identity-vs-reference", k, li, ShowInt(b.ValFrom(a)))
	ri := run(fn0.FlatMap(b.Build(), func(x int) F0 { return fn0.Pure(x) }))
	c.ForkLaw("fn0.FlatMap", "right-identity", k, ri, run(b.Build()))
	c.ForkLaw("fn0.FlatMap", "right-identity-vs-reference", k, ri, ShowInt(b.Val()))
	as1 := run(fn0.FlatMap(fn0.FlatMap(b.Build(), f), g))
	as2 := run(fn0.FlatMap(b.Build(), func(x int) F0 { return fn0.FlatMap(f(x), g) }))
	c.ForkLaw("fn0.FlatMap", "associativity", k, as1, as2)
	c.ForkLaw("fn0.FlatMap", "associativity-vs-reference", k, as1, ShowInt(k2.Call(k1.Call(b.Val()))))
}

// ---- fn1 ----------------------------------------------------------------------------------------

// r1Step: Kind 0: fn1.Map(m, F), 1: fn1.FlatMap(m, K.Lib).
type r1Step struct {
	Kind int
	F    F1d
	K    R1k
}

type r1Base struct {
	D     R1d
	Steps []r1Step
}

func (b r1Base) From(m R1) R1 {
	for _, s := range b.Steps {
		if s.Kind == 0 {
			m = fn1.Map(m, s.F.Call)
		} else {
			m = fn1.FlatMap(m, s.K.Lib)
		}
	}
	return m
}

func (b r1Base) Build() R1 { return b.From(b.D.Lib()) }

func (b r1Base) RefFrom(v, x int) int {
	for _, s := range b.Steps {
		if s.Kind == 0 {
			v = s.F.Call(v)
		} else {
			v = s.K.Ref(v)(x)
		}
	}
	return v
}

func (b r1Base) Ref(x int) int { return b.RefFrom(b.D.Ref(x), x) }

var fn1ArmKinds = []armKind{
	{"fn1.Map", "operand"}, {"fn1.FlatMap", "operand"}, {"fn1.Flatten", "of-mapped-base"}, {"fn1.WithArg", "used-inside-function"},
	{"fn1.FlatMap", "used-inside-continuation"}, {"fn1.Func1", "base-itself"},
}

type r1Arm struct {
	Kind int
	F    F1d
	K    R1k
	G    Fnd
	O    R1d
}

func (a r1Arm) Apply(c *Cas, m R1) R1 {
	c.Site(fn1ArmKinds[a.Kind].Comb)
	switch a.Kind {
	case 0:
		return fn1.Map(m, a.F.Call)
	case 1:
		return fn1.FlatMap(m, a.K.Lib)
	case 2:
		return fn1.Flatten(fn1.Map(m, func(v int) R1 { return a.K.Lib(v) }))
	case 3:
		return fn1.WithArg(func(x int) R1 { return fn1.Map(m, func(v int) int { return a.G.Call(x, v) }) })
	case 4:
		return fn1.FlatMap(a.O.Lib(), func(x int) R1 { return fn1.Map(m, func(y int) int { return a.G.Call(x, y) }) })
	}
	return m
}

func (a r1Arm) Ref(base func(int) int) func(int) int {
	return func(x int) int {
		v := base(x)
		switch a.Kind {
		case 0:
			return a.F.Call(v)
		case 1, 2:
			return a.K.Ref(v)(x)
		case 3:
			return a.G.Call(x, v)
		case 4:
			return a.G.Call(a.O.Ref(x), v)
		}
		return v
	}
}

func forkFn1(c *Cas) {
	k := c.ForkPending()
	b := r1Base{D: R1d{c.R.IntN(50), c.R.IntN(1000), c.R.IntN(3)}}
	for i := 0; i < k; i++ {
		b.Steps = append(b.Steps, r1Step{c.R.IntN(2), F1d{1 + c.R.IntN(50), c.R.IntN(1000)}, R1k{c.R.IntN(50), c.R.IntN(50), c.R.IntN(1000)}})
	}
	c.Shape(fmt.Sprintf("%s+%d", []string{"pure", "closure", "get-mapped"}[b.D.Kind], k))
	c.Note("base %+v with %d pending steps %+v", b.D, k, b.Steps)
	gen := func(kind int) r1Arm {
		return r1Arm{kind, F1d{1 + c.R.IntN(50), c.R.IntN(1000)}, R1k{c.R.IntN(50), c.R.IntN(50), c.R.IntN(1000)}, Fnd{c.R.IntN(1000)},
			R1d{c.R.IntN(50), c.R.IntN(1000), c.R.IntN(3)}}
	}
	obs := func(v R1) func() string { return func() string { return Probe(v) } }
	m := b.Build()
	nk := len(fn1ArmKinds)
	var arms []ForkArm
	var specs []r1Arm
	var vals []R1
	for _, kd := range c.ForkPick(nk, 2+c.R.IntN(3)) {
		a := gen(kd)
		v := a.Apply(c, m)
		specs, vals = append(specs, a), append(vals, v)
		arms = append(arms, ForkArm{Comb: fn1ArmKinds[kd].Comb, Pos: fn1ArmKinds[kd].Pos, Desc: fmt.Sprintf("%+v", a), Obs: obs(v),
			Fresh: func() string { return Probe(a.Apply(c, b.Build())) }, Want: ProbeRef(a.Ref(b.Ref))})
	}
	if c.R.IntN(2) == 0 && fn1ArmKinds[specs[0].Kind].Pos != "base-itself" {
		s0, d0 := specs[0], vals[0]
		for _, kd := range c.ForkPick(nk-1, 2) {
			a := gen(kd)
			v := a.Apply(c, d0)
			arms = append(arms, ForkArm{Comb: fn1ArmKinds[kd].Comb, Pos: fn1ArmKinds[kd].Pos, Desc: fmt.Sprintf("bound to arm 0: %+v", a), Obs: obs(v),
				Fresh: func() string { return Probe(a.Apply(c, s0.Apply(c, b.Build()))) }, Want: ProbeRef(a.Ref(s0.Ref(b.Ref)))})
		}
		c.W.Add("fork.second-level.fn1", 1)
	}
	c.RunForks(k, arms)

	k1, k2 := R1k{c.R.IntN(50), c.R.IntN(50), c.R.IntN(1000)}, R1k{c.R.IntN(50), c.R.IntN(50), c.R.IntN(1000)}
	a := c.IntZ()
	c.Note("laws: k1 %+v k2 %+v a=%d", k1, k2, a)
	fk := func(v int) R1 { return b.From(fn1.Pure[int](v)) }
	c.Site("fn1.FlatMap")
	li := Probe(fn1.FlatMap(fn1.Pure[int](a), fk))
	c.ForkLaw("fn1.FlatMap", "left-identity", k, li, Probe(fk(a)))
	c.ForkLaw("fn1.FlatMap", "left-identity-vs-reference", k, li, ProbeRef(func(x int) int { return b.RefFrom(a, x) }))
	ri := Probe(fn1.FlatMap(b.Build(), func(v int) R1 { return fn1.Pure[int](v) }))
	c.ForkLaw("fn1.FlatMap", "right-identity", k, ri, Probe(b.Build()))
	c.ForkLaw("fn1.FlatMap", "right-identity-vs-reference", k, ri, ProbeRef(b.Ref))
	as1 := Probe(fn1.FlatMap(fn1.FlatMap(b.Build(), k1.Lib), k2.Lib))
	as2 := Probe(fn1.FlatMap(b.Build(), func(v int) R1 { return fn1.FlatMap(k1.Lib(v), k2.Lib) }))
	c.ForkLaw("fn1.FlatMap", "associativity", k, as1, as2)
	c.ForkLaw("fn1.FlatMap", "associativity-vs-reference", k, as1, ProbeRef(func(x int) int { return k2.Ref(k1.Ref(b.Ref(x))(x))(x) }))
}
