// C10 — every Ord instance / combinator is a strict total order consistent with
// Compare / LessEq / Min / Max, lexicographic on sequences and tuples, with the documented
// ThenComparing / Reversed semantics; Sort / Min / Max on Seq, Iterator and List return a
// sorted permutation / a least / greatest element / None on empty input.
//
// A case is one random Ord instance expression (library combinators nested up to depth 3, all
// component types instantiated at V = any, see package verif/c09/dyn) and a pool of values with
// ties in different representations, single-position mutants and shared prefixes. All ordered
// pairs and triples are evaluated against the reference order dyn.RefCmp, which is plain Go over
// the models of the values. The same instance then drives seq|iterator|list.Sort/Min/Max.
package main

import (
	"fmt"
	"sort"
	"strconv"
	"strings"
	"time"

	"verif/c09/dyn"
	"verif/vrt"

	"github.com/csgura/fp"
	"github.com/csgura/fp/as"
	"github.com/csgura/fp/hlist"
	"github.com/csgura/fp/iterator"
	"github.com/csgura/fp/lazy"
	"github.com/csgura/fp/list"
	"github.com/csgura/fp/ord"
	"github.com/csgura/fp/seq"
)

type V = dyn.V

// ---- type erasure ---------------------------------------------------------------------

// ordAd presents an fp.Ord[T] as an order over boxed values.
type ordAd[T any] struct{ in fp.Ord[T] }

func (o ordAd[T]) Eqv(a, b V) bool    { return o.in.Eqv(a.(T), b.(T)) }
func (o ordAd[T]) Compare(a, b V) int { return o.in.Compare(a.(T), b.(T)) }
func (o ordAd[T]) Less(a, b V) bool   { return o.in.Less(a.(T), b.(T)) }
func (o ordAd[T]) LessEq(a, b V) bool { return o.in.LessEq(a.(T), b.(T)) }
func (o ordAd[T]) Max(a, b V) V       { return o.in.Max(a.(T), b.(T)) }
func (o ordAd[T]) Min(a, b V) V       { return o.in.Min(a.(T), b.(T)) }
func (o ordAd[T]) Reversed() fp.Ord[V] { return ordAd[T]{o.in.Reversed()} }
func (o ordAd[T]) ThenComparing(other fp.Ord[V]) fp.Ord[V] {
	return ordAd[T]{o.in.ThenComparing(unAd[T]{other})}
}
func (o ordAd[T]) impl() string {
	switch x := any(o.in).(type) {
	case fp.LessFunc[T]:
		return "LessFunc"
	case fp.CompareFunc[T]:
		return "CompareFunc"
	case unAd[T]:
		return implOf(x.in)
	}
	return "other"
}

// unAd is the way back: an order over boxed values seen as fp.Ord[T].
type unAd[T any] struct{ in fp.Ord[V] }

func (o unAd[T]) Eqv(a, b T) bool    { return o.in.Eqv(a, b) }
func (o unAd[T]) Compare(a, b T) int { return o.in.Compare(a, b) }
func (o unAd[T]) Less(a, b T) bool   { return o.in.Less(a, b) }
func (o unAd[T]) LessEq(a, b T) bool { return o.in.LessEq(a, b) }
func (o unAd[T]) Max(a, b T) T       { return o.in.Max(a, b).(T) }
func (o unAd[T]) Min(a, b T) T       { return o.in.Min(a, b).(T) }
func (o unAd[T]) Reversed() fp.Ord[T] { return unAd[T]{o.in.Reversed()} }
func (o unAd[T]) ThenComparing(other fp.Ord[T]) fp.Ord[T] {
	return unAd[T]{o.in.ThenComparing(ordAd[T]{other})}
}

func eraseOrd[T any](in fp.Ord[T]) fp.Ord[V] { return ordAd[T]{in} }

// implOf names the typeclass.go implementation behind an instance (its method set is the
// call site of Compare / Less / LessEq / Min / Max / Reversed / ThenComparing).
func implOf(o fp.Ord[V]) string {
	switch x := o.(type) {
	case interface{ impl() string }:
		return x.impl()
	case fp.LessFunc[V]:
		return "LessFunc"
	case fp.CompareFunc[V]:
		return "CompareFunc"
	}
	return "other"
}

func givenOrd[T fp.ImplicitOrd]() fp.Ord[V] { return eraseOrd[T](ord.Given[T]()) }

var ordLeaf = map[string]func() fp.Ord[V]{
	"int": givenOrd[int], "int8": givenOrd[int8], "int16": givenOrd[int16], "int32": givenOrd[int32], "int64": givenOrd[int64],
	"uint": givenOrd[uint], "uint8": givenOrd[uint8], "uint16": givenOrd[uint16], "uint32": givenOrd[uint32], "uint64": givenOrd[uint64],
	"uintptr": givenOrd[uintptr], "float32": givenOrd[float32], "float64": givenOrd[float64], "string": givenOrd[string],
}

var ordLeaves = []string{"int", "int8", "int16", "int32", "int64", "uint", "uint8", "uint16", "uint32", "uint64", "uintptr", "float32", "float64", "string"}
var fieldLeaves = []string{"int", "string", "float64"}

// ---- building library instances -------------------------------------------------------

type registry struct {
	inst map[*dyn.Expr]fp.Ord[V]
	name map[*dyn.Expr]string
}

func (g *registry) nameOf(e *dyn.Expr) string { return g.name[e] }

func buildOrd(e *dyn.Expr, reg *registry) fp.Ord[V] {
	kids := make([]fp.Ord[V], len(e.Kids))
	for i, k := range e.Kids {
		kids[i] = buildOrd(k, reg)
	}
	var out fp.Ord[V]
	var name string
	switch e.Op {
	case dyn.OpLeaf:
		out, name = ordLeaf[e.Dom.Leaf](), "ord.Given["+e.Dom.Leaf+"]"
	case dyn.OpTime:
		out, name = eraseOrd[time.Time](ord.Time), "ord.Time"
	case dyn.OpSeq:
		out, name = eraseOrd[fp.Seq[V]](ord.Seq(kids[0])), "ord.Seq"
	case dyn.OpSlice:
		out, name = eraseOrd[[]V](ord.Slice(kids[0])), "ord.Slice"
	case dyn.OpOption:
		out, name = eraseOrd[fp.Option[V]](ord.Option(kids[0])), "ord.Option"
	case dyn.OpPtr:
		k := kids[0]
		lz := lazy.Done(k)
		if e.Variant%2 == 1 {
			lz = lazy.Call(func() fp.Ord[V] { return k })
		}
		out, name = eraseOrd[*V](ord.Ptr(lz)), "ord.Ptr"
	case dyn.OpTuple:
		out, name = ordTuple(kids), "ord.Tuple"+strconv.Itoa(len(kids))
	case dyn.OpHList:
		out, name = eraseOrd[hlist.Nil](ord.HNil), "ord.HNil"
		for i := len(kids) - 1; i >= 0; i-- {
			out, name = eraseOrd[hlist.Cons[V, V]](ord.HCons[V, V](kids[i], out)), "ord.HCons"
		}
	case dyn.OpContra:
		out, name = ord.ContraMap[V, V](kids[0], e.Fn.V), "ord.ContraMap"
	case dyn.OpField:
		f := e.Fn.V
		switch e.Fn.Dst.Leaf {
		case "int":
			out = ord.GivenField[V, int](func(v V) int { return f(v).(int) })
		case "string":
			out = ord.GivenField[V, string](func(v V) string { return f(v).(string) })
		default:
			out = ord.GivenField[V, float64](func(v V) float64 { return f(v).(float64) })
		}
		name = "ord.GivenField[" + e.Fn.Dst.Leaf + "]"
	case dyn.OpNew:
		out, name = ord.New[V](kids[0], fp.LessFunc[V](kids[0].Less)), "ord.New"
	case dyn.OpFromCompare:
		k := kids[0]
		scale := []int{1, 3, 1 << 40}[e.Variant%3]
		out, name = ord.FromCompare(func(a, b V) int {
			switch c := k.Compare(a, b); {
			case c < 0:
				return -scale
			case c > 0:
				return scale
			}
			return 0
		}), "ord.FromCompare"
	case dyn.OpAsOrd:
		out, name = as.Ord[V](fp.LessFunc[V](kids[0].Less)), "as.Ord"
	case dyn.OpReversed:
		out, name = kids[0].Reversed(), implOf(kids[0])+".Reversed"
	case dyn.OpThen:
		out, name = kids[0].ThenComparing(kids[1]), implOf(kids[0])+".ThenComparing"
	default:
		panic("c10: op without Ord instance")
	}
	reg.inst[e] = out
	reg.name[e] = name
	return out
}

// staticName is the name of a node before any instance exists (used for the open-case site).
func staticName(e *dyn.Expr) string {
	switch e.Op {
	case dyn.OpLeaf:
		return "ord.Given[" + e.Dom.Leaf + "]"
	case dyn.OpTime:
		return "ord.Time"
	case dyn.OpSeq:
		return "ord.Seq"
	case dyn.OpSlice:
		return "ord.Slice"
	case dyn.OpOption:
		return "ord.Option"
	case dyn.OpPtr:
		return "ord.Ptr"
	case dyn.OpTuple:
		return "ord.Tuple" + strconv.Itoa(len(e.Kids))
	case dyn.OpHList:
		if len(e.Kids) == 0 {
			return "ord.HNil"
		}
		return "ord.HCons"
	case dyn.OpContra:
		return "ord.ContraMap"
	case dyn.OpField:
		return "ord.GivenField[" + e.Fn.Dst.Leaf + "]"
	case dyn.OpNew:
		return "ord.New"
	case dyn.OpFromCompare:
		return "ord.FromCompare"
	case dyn.OpAsOrd:
		return "as.Ord"
	case dyn.OpReversed:
		return "Ord.Reversed"
	case dyn.OpThen:
		return "Ord.ThenComparing"
	}
	return "?"
}

func hits(w *vrt.W, e *dyn.Expr, reg *registry) {
	e.Walk(func(x *dyn.Expr) {
		if x.Op == dyn.OpHList {
			for range x.Kids {
				w.Hit("ord.HCons")
			}
			w.Hit("ord.HNil")
			return
		}
		w.Hit(reg.name[x])
	})
}

// ---- forced-op catalogue --------------------------------------------------------------

type forced struct {
	op    dyn.Op
	arity int
	leaf  string // "*": cycle through the kinds
}

var catalogue []forced

func init() {
	add := func(op dyn.Op, arity int, leaf string) { catalogue = append(catalogue, forced{op, arity, leaf}) }
	add(dyn.OpLeaf, -1, "*")
	add(dyn.OpTime, -1, "")
	add(dyn.OpOption, -1, "")
	add(dyn.OpSeq, -1, "")
	add(dyn.OpSlice, -1, "")
	add(dyn.OpPtr, -1, "")
	add(dyn.OpHList, 0, "")
	add(dyn.OpHList, -1, "")
	add(dyn.OpContra, -1, "")
	add(dyn.OpField, -1, "*")
	add(dyn.OpNew, -1, "")
	add(dyn.OpFromCompare, -1, "")
	add(dyn.OpAsOrd, -1, "")
	add(dyn.OpReversed, -1, "")
	add(dyn.OpThen, -1, "")
	for n := 1; n <= dyn.MaxArity; n++ {
		add(dyn.OpTuple, n, "")
	}
}

var ordOps = []dyn.Op{dyn.OpLeaf, dyn.OpTime, dyn.OpField, dyn.OpSeq, dyn.OpSlice, dyn.OpOption, dyn.OpPtr, dyn.OpTuple, dyn.OpHList,
	dyn.OpContra, dyn.OpNew, dyn.OpFromCompare, dyn.OpAsOrd, dyn.OpReversed, dyn.OpThen}

var ordCfg = &dyn.Cfg{Leaves: ordLeaves, MainLeaves: []string{"int", "string", "float64"}, Ops: ordOps, FieldLeaves: fieldLeaves, MaxDepth: 3, Budget: 70}

// ---- one case -------------------------------------------------------------------------

type caseT struct {
	w       *vrt.W
	idx     int
	e       *dyn.Expr
	reg     *registry
	exprStr string
	pool    []dyn.Entry
	x, y    []V
	failed  bool
}

func (c *caseT) show(i int) string { return dyn.Show(c.e.Dom, c.pool[i].M) }

func (c *caseT) witness(idx ...int) any {
	vals := map[string]string{}
	for k, i := range idx {
		vals[string(rune('a'+k))] = c.show(i)
	}
	return map[string]any{"expr": c.exprStr, "values": vals, "domain": c.e.Dom.String()}
}

func (c *caseT) viol(key, detail string, idx ...int) {
	c.failed = true
	c.w.Violation(c.idx, key, detail+"\ninstance: "+c.exprStr, c.witness(idx...))
}

func sign(x int) int {
	switch {
	case x < 0:
		return -1
	case x > 0:
		return 1
	}
	return 0
}

// lessSign is the order an instance reports through Less alone.
func lessSign(o fp.Ord[V], a, b V) int {
	switch {
	case o.Less(a, b):
		return -1
	case o.Less(b, a):
		return 1
	}
	return 0
}

// blame descends to the innermost sub-instance that disagrees with the reference on the
// components it is given.
func (c *caseT) blame(e *dyn.Expr, a, b *dyn.M) string {
	for _, al := range dyn.Align(e, a, b) {
		inst := c.reg.inst[al.Kid]
		va, vb := dyn.Build(al.Kid.Dom, al.A), dyn.Build(al.Kid.Dom, al.B)
		want := dyn.RefCmp(al.Kid, al.A, al.B)
		if lessSign(inst, va, vb) != want || inst.Eqv(va, vb) != (want == 0) || sign(inst.Compare(va, vb)) != want {
			return c.blame(al.Kid, al.A, al.B)
		}
	}
	return c.reg.name[e]
}

func (c *caseT) checkOrder(inst fp.Ord[V]) (ties, onePos int) {
	w, e, n := c.w, c.e, len(c.pool)
	root := c.reg.name[e]
	w.Site(root)
	L := make([][]bool, n)
	E := make([][]bool, n)
	for i := 0; i < n; i++ {
		L[i] = make([]bool, n)
		E[i] = make([]bool, n)
		for j := 0; j < n; j++ {
			L[i][j] = inst.Less(c.x[i], c.x[j])
			E[i][j] = inst.Eqv(c.x[i], c.x[j])
		}
	}
	w.Add("pairs", int64(n*n))
	blameOf := func(i, j int) string { return c.blame(e, c.pool[i].M, c.pool[j].M) }
	pairStr := func(i, j int) string { return "\na = " + c.show(i) + "\nb = " + c.show(j) }
	isSeq := e.Op == dyn.OpSeq || e.Op == dyn.OpSlice
	for i := 0; i < n; i++ {
		// a value against a freshly allocated, structurally identical copy
		if !inst.Eqv(c.x[i], c.y[i]) || inst.Less(c.x[i], c.y[i]) || inst.Less(c.y[i], c.x[i]) {
			c.viol(blameOf(i, i)+"/fresh-copy-not-equivalent", "a value and a structurally identical copy are not Eqv / are ordered, a = "+c.show(i), i)
		}
		for j := 0; j < n; j++ {
			a, b := c.x[i], c.x[j]
			want := dyn.RefCmp(e, c.pool[i].M, c.pool[j].M)
			// trichotomy on the library's own answers
			cnt := 0
			for _, t := range []bool{L[i][j], L[j][i], E[i][j]} {
				if t {
					cnt++
				}
			}
			if cnt != 1 {
				kind := "/less-and-eqv"
				switch {
				case L[i][j] && L[j][i]:
					kind = "/not-antisymmetric"
				case cnt == 0:
					kind = "/neither-less-nor-eqv"
				}
				c.viol(blameOf(i, j)+kind, fmt.Sprintf("exactly one of Less(a,b), Less(b,a), Eqv(a,b) must hold: %v %v %v%s", L[i][j], L[j][i], E[i][j], pairStr(i, j)), i, j)
			}
			if E[i][j] != E[j][i] {
				c.viol(blameOf(i, j)+"/eqv-not-symmetric", fmt.Sprintf("Eqv(a,b)=%v Eqv(b,a)=%v%s", E[i][j], E[j][i], pairStr(i, j)), i, j)
			}
			// Compare / LessEq / Min / Max consistent with Less
			cmp := inst.Compare(a, b)
			if (cmp < 0) != L[i][j] || (cmp > 0) != L[j][i] || (cmp == 0) != E[i][j] {
				c.viol(root+"/compare-inconsistent-with-less", fmt.Sprintf("Compare(a,b)=%d, Less(a,b)=%v Less(b,a)=%v Eqv(a,b)=%v%s", cmp, L[i][j], L[j][i], E[i][j], pairStr(i, j)), i, j)
			}
			if le := inst.LessEq(a, b); le != (L[i][j] || E[i][j]) {
				c.viol(root+"/lesseq-inconsistent-with-less", fmt.Sprintf("LessEq(a,b)=%v, Less(a,b)=%v Eqv(a,b)=%v%s", le, L[i][j], E[i][j], pairStr(i, j)), i, j)
			}
			mn, mx := inst.Min(a, b), inst.Max(a, b)
			lo, hi := a, b // expected representatives (either one when a ~ b)
			if L[j][i] {
				lo, hi = b, a
			}
			if !inst.Eqv(mn, lo) || (!E[i][j] && inst.Eqv(mn, hi)) {
				c.viol(root+"/min-inconsistent-with-less", fmt.Sprintf("Min(a,b) is not the smaller argument (Less(a,b)=%v Less(b,a)=%v)%s", L[i][j], L[j][i], pairStr(i, j)), i, j)
			}
			if !inst.Eqv(mx, hi) || (!E[i][j] && inst.Eqv(mx, lo)) {
				c.viol(root+"/max-inconsistent-with-less", fmt.Sprintf("Max(a,b) is not the greater argument (Less(a,b)=%v Less(b,a)=%v)%s", L[i][j], L[j][i], pairStr(i, j)), i, j)
			}
			// the reference order
			got := 0
			if L[i][j] {
				got = -1
			} else if L[j][i] {
				got = 1
			}
			if got != want {
				c.viol(blameOf(i, j)+"/order-differs-from-reference", fmt.Sprintf("Less says %d, the reference order says %d (-1: a<b, 0: equivalent, +1: a>b)%s", got, want, pairStr(i, j)), i, j)
			}
			if E[i][j] != (want == 0) {
				c.viol(blameOf(i, j)+"/eqv-differs-from-reference", fmt.Sprintf("Eqv(a,b)=%v, the reference order says %d%s", E[i][j], want, pairStr(i, j)), i, j)
			}
			if sign(cmp) != want {
				c.viol(blameOf(i, j)+"/compare-differs-from-reference", fmt.Sprintf("Compare(a,b)=%d, the reference order says %d%s", cmp, want, pairStr(i, j)), i, j)
			}
			if i < j {
				if want == 0 {
					ties++
					if !dyn.NatEq(e.Dom, c.pool[i].M, c.pool[j].M) {
						w.Add("ties.between_different_values", 1)
					} else if dyn.ReprDiff(e.Dom, c.pool[i].M, c.pool[j].M) {
						w.Add("ties.between_representations", 1)
					}
				}
				if isSeq && want != 0 {
					a, b := c.pool[i].M, c.pool[j].M
					k := 0
					for k < len(a.Kids) && k < len(b.Kids) && dyn.RefCmp(e.Kids[0], a.Kids[k], b.Kids[k]) == 0 {
						k++
					}
					if k > 0 {
						w.Add("pairs.shared_prefix", 1)
						if k == len(a.Kids) || k == len(b.Kids) {
							w.Add("pairs.proper_prefix", 1)
						}
					}
				}
				if (e.Op == dyn.OpOption || e.Op == dyn.OpPtr) && c.pool[i].M.Nil != c.pool[j].M.Nil {
					w.Add("pairs.none_vs_some", 1)
				}
				if e.Op == dyn.OpThen && dyn.RefCmp(e.Kids[0], c.pool[i].M, c.pool[j].M) == 0 && want != 0 {
					w.Add("then.ties_broken_by_secondary", 1)
				}
			}
		}
	}
	// transitivity over all triples
	triples := 0
	for i := 0; i < n; i++ {
		for j := 0; j < n; j++ {
			if !L[i][j] && !E[i][j] {
				triples += n
				continue
			}
			for k := 0; k < n; k++ {
				triples++
				bad := ""
				if L[i][j] && L[j][k] && !L[i][k] {
					bad = "/less-not-transitive"
				} else if E[i][j] && E[j][k] && !E[i][k] {
					bad = "/eqv-not-transitive"
				}
				if bad != "" {
					b := root
					for _, pr := range [][2]int{{i, j}, {j, k}, {i, k}} {
						if lessSign(inst, c.x[pr[0]], c.x[pr[1]]) != dyn.RefCmp(e, c.pool[pr[0]].M, c.pool[pr[1]].M) {
							b = blameOf(pr[0], pr[1])
							break
						}
					}
					c.viol(b+bad, fmt.Sprintf("a,b and b,c are related but a,c is not\na = %s\nb = %s\nc = %s", c.show(i), c.show(j), c.show(k)), i, j, k)
				}
			}
		}
	}
	w.Add("triples", int64(triples))
	// single-position differences: strictly ordered one way
	allPos := map[int]bool{}
	for j, en := range c.pool {
		if en.Rel != "mutant" || en.Parent < 0 {
			continue
		}
		if dyn.RefCmp(e, c.pool[en.Parent].M, en.M) != 0 && L[en.Parent][j] != L[j][en.Parent] {
			onePos++
			if en.Parent == 0 && en.Pos >= 0 {
				allPos[en.Pos] = true
			}
		}
	}
	w.Add("pairs.one_position_apart", int64(onePos))
	if e.Op == dyn.OpTuple && len(allPos) == len(e.Kids) {
		w.Add("allpos."+root, 1)
	}
	w.Add("root.impl."+implOf(inst), 1)
	return ties, onePos
}

// ---- Sort / Min / Max -----------------------------------------------------------------

type tagged struct {
	v  V
	id int // index into the pool
}

// tagOrd orders tagged elements by the instance under test; only the harness defines it.
type tagOrd struct{ in fp.Ord[V] }

func (o tagOrd) Eqv(a, b tagged) bool    { return o.in.Eqv(a.v, b.v) }
func (o tagOrd) Compare(a, b tagged) int { return o.in.Compare(a.v, b.v) }
func (o tagOrd) Less(a, b tagged) bool   { return o.in.Less(a.v, b.v) }
func (o tagOrd) LessEq(a, b tagged) bool { return o.in.LessEq(a.v, b.v) }
func (o tagOrd) Max(a, b tagged) tagged {
	if o.in.Less(a.v, b.v) {
		return b
	}
	return a
}
func (o tagOrd) Min(a, b tagged) tagged {
	if o.in.Less(b.v, a.v) {
		return b
	}
	return a
}
func (o tagOrd) Reversed() fp.Ord[tagged]                         { panic("tagOrd.Reversed is not used") }
func (o tagOrd) ThenComparing(other fp.Ord[tagged]) fp.Ord[tagged] { panic("tagOrd.ThenComparing is not used") }

func ids(s []tagged) []int {
	out := make([]int, len(s))
	for i, t := range s {
		out[i] = t.id
	}
	return out
}

func sameInts(a, b []int) bool {
	if len(a) != len(b) {
		return false
	}
	for i := range a {
		if a[i] != b[i] {
			return false
		}
	}
	return true
}

func (c *caseT) sortWitness(in []int, out []int) any {
	vals := []string{}
	seen := map[int]bool{}
	for _, id := range in {
		if !seen[id] && len(vals) < 30 {
			seen[id] = true
			vals = append(vals, fmt.Sprintf("#%d = %s", id, c.show(id)))
		}
	}
	return map[string]any{"expr": c.exprStr, "input_ids": in, "output_ids": out, "values": vals}
}

func (c *caseT) checkSorts(inst fp.Ord[V], trials int) {
	w, e, r := c.w, c.e, c.w.Rand(c.idx+1_000_000)
	to := tagOrd{inst}
	n := len(c.pool)
	for t := 0; t < trials; t++ {
		var length int
		switch r.IntN(8) {
		case 0:
			length = 0
		case 1:
			length = 1
		case 2:
			length = 2
		case 3, 4:
			length = 3 + r.IntN(20)
		default:
			length = 1 + r.IntN(200)
		}
		if t == 0 && c.idx%16 == 0 {
			length = 0
		}
		mode := r.IntN(5)
		idsIn := make([]int, length)
		switch mode {
		case 3: // few distinct values, very many duplicates
			k := 1 + r.IntN(3)
			pick := make([]int, k)
			for i := range pick {
				pick[i] = r.IntN(n)
			}
			for i := range idsIn {
				idsIn[i] = pick[r.IntN(k)]
			}
		default:
			for i := range idsIn {
				idsIn[i] = r.IntN(n)
			}
		}
		refLess := func(a, b int) bool { return dyn.RefCmp(e, c.pool[a].M, c.pool[b].M) < 0 }
		switch mode {
		case 1:
			sort.SliceStable(idsIn, func(i, j int) bool { return refLess(idsIn[i], idsIn[j]) })
			w.Add("sort.inputs_already_sorted", 1)
		case 2:
			sort.SliceStable(idsIn, func(i, j int) bool { return refLess(idsIn[j], idsIn[i]) })
			w.Add("sort.inputs_reversed", 1)
		}
		dups := false
		seen := map[int]bool{}
		for _, id := range idsIn {
			if seen[id] {
				dups = true
			}
			seen[id] = true
		}
		if dups {
			w.Add("sort.inputs_with_duplicates", 1)
		}
		if length == 0 {
			w.Add("sort.inputs_empty", 1)
		}
		w.Max("sort.max_length", int64(length))
		mk := func() fp.Seq[tagged] {
			s := make(fp.Seq[tagged], length)
			for i, id := range idsIn {
				s[i] = tagged{c.x[id], id}
			}
			if length == 0 && r.IntN(2) == 0 {
				return nil
			}
			return s
		}
		apis := []string{"seq", "iterator", "list"}
		for _, api := range apis {
			// ---- Sort
			in := mk()
			var out fp.Seq[tagged]
			site := api + ".Sort"
			w.Site(site)
			switch api {
			case "seq":
				out = seq.Sort(in, to)
			case "iterator":
				out = iterator.Sort(iterator.FromSeq(in), to)
			default:
				out = list.Sort(list.FromSeq(in), to)
			}
			w.Hit(site)
			w.Add("sorts", 1)
			outIDs := ids(out)
			fail := func(kind, detail string) {
				c.w.Violation(c.idx, site+kind, detail+"\ninstance: "+c.exprStr, c.sortWitness(idsIn, outIDs))
			}
			if !sameInts(ids(in), idsIn) {
				fail("/input-mutated", fmt.Sprintf("the input sequence was reordered by %s: before %v, after %v", site, idsIn, ids(in)))
			}
			cnt := map[int]int{}
			for _, id := range idsIn {
				cnt[id]++
			}
			for _, id := range outIDs {
				cnt[id]--
			}
			perm := len(outIDs) == len(idsIn)
			for _, v := range cnt {
				if v != 0 {
					perm = false
				}
			}
			if !perm {
				fail("/not-a-permutation", fmt.Sprintf("output is not a permutation of the input: %d elements in, %d out", len(idsIn), len(outIDs)))
			}
			for k := 0; k+1 < len(out); k++ {
				if inst.Less(out[k+1].v, out[k].v) || dyn.RefCmp(e, c.pool[out[k].id].M, c.pool[out[k+1].id].M) > 0 {
					fail("/not-sorted", fmt.Sprintf("output[%d] > output[%d]: #%d %s  then  #%d %s", k, k+1, out[k].id, c.show(out[k].id), out[k+1].id, c.show(out[k+1].id)))
					break
				}
			}
			// ---- Min / Max
			for _, which := range []string{"Min", "Max"} {
				in := mk()
				site := api + "." + which
				w.Site(site)
				var got fp.Option[tagged]
				switch api + which {
				case "seqMin":
					got = seq.Min(in, to)
				case "seqMax":
					got = seq.Max(in, to)
				case "iteratorMin":
					got = iterator.Min(iterator.FromSeq(in), to)
				case "iteratorMax":
					got = iterator.Max(iterator.FromSeq(in), to)
				case "listMin":
					got = list.Min(list.FromSeq(in), to)
				default:
					got = list.Max(list.FromSeq(in), to)
				}
				w.Hit(site)
				w.Add("minmax", 1)
				fail := func(kind, detail string) {
					c.w.Violation(c.idx, site+kind, detail+"\ninstance: "+c.exprStr, c.sortWitness(idsIn, nil))
				}
				if length == 0 {
					if got.IsDefined() {
						fail("/some-on-empty", "a value was returned for an empty input")
					}
					w.Add("minmax.none_on_empty", 1)
					continue
				}
				if !got.IsDefined() {
					fail("/none-on-nonempty", fmt.Sprintf("None for an input of %d elements", length))
					continue
				}
				g := got.Get()
				if g.id < 0 || g.id >= n || !seen[g.id] {
					fail("/not-an-element", fmt.Sprintf("returned element #%d is not in the input", g.id))
					continue
				}
				for _, id := range idsIn {
					var bad bool
					if which == "Min" {
						bad = inst.Less(c.x[id], g.v) || dyn.RefCmp(e, c.pool[g.id].M, c.pool[id].M) > 0
					} else {
						bad = inst.Less(g.v, c.x[id]) || dyn.RefCmp(e, c.pool[g.id].M, c.pool[id].M) < 0
					}
					if bad {
						kind := map[string]string{"Min": "/not-least", "Max": "/not-greatest"}[which]
						fail(kind, fmt.Sprintf("%s returned #%d %s but the input holds #%d %s", site, g.id, c.show(g.id), id, c.show(id)))
						break
					}
				}
				if !sameInts(ids(in), idsIn) {
					fail("/input-mutated", "the input sequence was changed")
				}
			}
		}
	}
}

func casesPerBatch(tier string) int {
	if tier == "thorough" {
		return 1200
	}
	return 600
}

func runCase(w *vrt.W, i int) {
	r := w.Rand(i)
	g := w.Batch*casesPerBatch(w.Tier) + i
	f := catalogue[g%len(catalogue)]
	round := g / len(catalogue)
	force := &dyn.Force{Op: f.op, Arity: f.arity, Leaf: f.leaf}
	if f.leaf == "*" {
		if f.op == dyn.OpField {
			force.Leaf = fieldLeaves[round%len(fieldLeaves)]
		} else {
			force.Leaf = ordLeaves[round%len(ordLeaves)]
		}
	}
	levels := 3
	if f.op == dyn.OpLeaf || f.op == dyn.OpTime || f.op == dyn.OpField || (f.op == dyn.OpHList && f.arity == 0) {
		levels = 4
	}
	force.At = (round / 2) % levels
	if round%2 == 1 && round/2 >= levels {
		force = nil
	}
	e := dyn.GenExpr(r, ordCfg, force)
	n, trials := 24, 2
	if w.Tier == "thorough" {
		n, trials = 40, 4
	}
	c := &caseT{w: w, idx: i, e: e, pool: dyn.GenPool(r, e.Dom, n), reg: &registry{map[*dyn.Expr]fp.Ord[V]{}, map[*dyn.Expr]string{}}}
	for _, en := range c.pool {
		c.x = append(c.x, dyn.Build(e.Dom, en.M))
		c.y = append(c.y, dyn.Build(e.Dom, en.M))
	}
	c.exprStr = e.Format(staticName)
	depth := 0
	var walk func(x *dyn.Expr, d int)
	walk = func(x *dyn.Expr, d int) {
		if d > depth {
			depth = d
		}
		for _, k := range x.Kids {
			walk(k, d+1)
		}
	}
	walk(e, 0)
	w.Max("expr.depth", int64(depth))
	w.Max("pool.size", int64(len(c.pool)))

	ties, onePos := 0, 0
	w.Begin(i, staticName(e))
	w.Guard(i, func() any { return c.witness() }, func() {
		inst := buildOrd(e, c.reg)
		c.exprStr = e.Format(c.reg.nameOf)
		hits(w, e, c.reg)
		ties, onePos = c.checkOrder(inst)
		if !c.failed {
			c.checkSorts(inst, trials)
		} else {
			w.Add("sorts.skipped_because_order_is_broken", 1)
		}
	})
	w.Done(i)
	w.Add("exprs", 1)
	w.Add("pairs.ties", int64(ties))
	if ties > 0 && onePos > 0 {
		var b strings.Builder
		b.WriteString(c.exprStr)
		for k := range c.pool {
			b.WriteString("|" + c.show(k))
		}
		w.Distinct(b.String())
		if w.WantSample() && len(c.exprStr) < 400 {
			vals := []string{}
			for k := 0; k < len(c.pool) && k < 8; k++ {
				vals = append(vals, fmt.Sprintf("#%d %s of #%d: %s", k, c.pool[k].Rel, c.pool[k].Parent, c.show(k)))
			}
			w.Sample(map[string]any{"expr": c.exprStr, "pool_size": len(c.pool), "first_values": vals, "tied_pairs": ties, "one_position_pairs": onePos})
		}
	}
}

// allNames lists every instance / combinator / call site that must be exercised.
func allNames() []string {
	var out []string
	for _, l := range ordLeaves {
		out = append(out, "ord.Given["+l+"]")
	}
	for _, l := range fieldLeaves {
		out = append(out, "ord.GivenField["+l+"]")
	}
	out = append(out, "ord.Time", "ord.Option", "ord.Seq", "ord.Slice", "ord.Ptr", "ord.HCons", "ord.HNil", "ord.ContraMap",
		"ord.New", "ord.FromCompare", "as.Ord",
		"LessFunc.Reversed", "CompareFunc.Reversed", "LessFunc.ThenComparing", "CompareFunc.ThenComparing",
		"seq.Sort", "iterator.Sort", "list.Sort", "seq.Min", "seq.Max", "iterator.Min", "iterator.Max", "list.Min", "list.Max")
	for n := 1; n <= dyn.MaxArity; n++ {
		out = append(out, "ord.Tuple"+strconv.Itoa(n))
	}
	return out
}

func main() {
	vrt.Main(vrt.Config{
		Property: "C10",
		Batches: func(tier string) int {
			if tier == "thorough" {
				return 64
			}
			return 16
		},
		Cases: func(tier string, b int) int { return casesPerBatch(tier) },
		Run: func(w *vrt.W) {
			for i := w.From; i < w.To; i++ {
				runCase(w, i)
			}
		},
		Rule: "case = one Ord instance expression + one value pool + Sort/Min/Max runs driven by that instance. The expression is drawn by a PRNG over Given (13 numeric kinds and string), Time, Option, Seq, Slice, Ptr (lazy.Done|lazy.Call), Tuple1..21, HCons/HNil, ContraMap and GivenField (through id/half/neg/len/lower/floor/isDefined/tuple projection), New, FromCompare (results scaled by 1, 3, 2^40), as.Ord, Reversed and ThenComparing (primary = an order with ties, both on LessFunc- and CompareFunc-backed receivers), nested up to 3 combinators deep with every component type instantiated at any; case i forces catalogue entry i mod 36 (each instance, every tuple arity) at nesting level 0,1,2(,3). The pool (>=24 quick / >=40 thorough values) holds random base values, copies in another representation, one single-position mutant per tuple component / sequence element of the first base value, all proper prefixes and an extension for sequence roots, and random further mutants; NaN is never generated. On all ordered pairs and all triples: exactly one of Less(a,b), Less(b,a), Eqv(a,b); Less and Eqv transitive; Compare sign, LessEq, Min, Max consistent with Less; Less, Eqv and Compare equal to the reference order on the models (leaf <, instants, None/nil first, lexicographic with the shorter prefix first, function-then-order for ContraMap/GivenField, wrapped order for New/FromCompare/as.Ord, flipped for Reversed, primary-then-secondary for ThenComparing). If the instance is consistent, seq|iterator|list.Sort/Min/Max run on inputs of length 0..200 drawn from the pool with replacement (random, pre-sorted, reversed, 1-3 distinct values); elements carry an identity tag so that permutation, untouched input, sortedness (by the instance and by the reference), least/greatest element and None-on-empty are decided exactly. distinct_nontrivial counts distinct (expression, pool) fingerprints of cases whose pool had at least one tie between different pool entries AND at least one strictly ordered pair exactly one position apart.",
		Assumptions: []string{
			"component types are instantiated at any (boxed values); the generic library code is the same for every type argument",
			"functions given to ContraMap / GivenField / New / FromCompare / as.Ord are pure; compare functions return small or large magnitudes but never math.MinInt",
			"values are PRNG-sampled; NaN excluded (floats are not totally ordered with NaN)",
			"stability of Sort is not demanded",
		},
		Floors: func(tier string) map[string]int64 {
			min := int64(3)
			if tier == "thorough" {
				min = 20
			}
			fl := map[string]int64{
				"pairs.ties": 5000, "pairs.one_position_apart": 5000, "distinct": 500, "pairs.shared_prefix": 500, "pairs.proper_prefix": 100,
				"pairs.none_vs_some": 100, "then.ties_broken_by_secondary": 100, "ties.between_representations": 500, "ties.between_different_values": 500,
				"root.impl.LessFunc": 20, "root.impl.CompareFunc": 20,
				"sorts": 3000, "sort.inputs_with_duplicates": 500, "sort.inputs_already_sorted": 100, "sort.inputs_reversed": 100, "sort.inputs_empty": 50, "minmax.none_on_empty": 100,
			}
			for _, n := range allNames() {
				fl["hit."+n] = min
			}
			for n := 1; n <= dyn.MaxArity; n++ {
				fl["allpos.ord.Tuple"+strconv.Itoa(n)] = 1
			}
			return fl
		},
		Finish: func(tier string, m *vrt.Merged, cov map[string]any) {
			missing := []string{}
			for _, n := range allNames() {
				if m.Counters["hit."+n] == 0 {
					missing = append(missing, n)
				}
			}
			sort.Strings(missing)
			cov["instances_required"] = len(allNames())
			cov["instances_never_exercised"] = missing
			cov["instance_expressions"] = m.Counters["exprs"]
			cov["sorts_checked"] = m.Counters["sorts"]
			cov["pairs_with_shared_nonempty_prefix"] = m.Counters["pairs.shared_prefix"]
		},
	})
}
