// C10 — every Ord instance / combinator is a strict total order consistent with
// Compare / LessEq / Min / Max, lexicographic on sequences and tuples, with the documented
// ThenComparing / Reversed semantics; Sort / Min / Max on Seq, Iterator and List return a
// sorted permutation / a least / greatest element / None on empty input.
//
// A case is one random Ord instance expression (library combinators nested up to depth 3, all
// component types instantiated at V = any, see package verif/c09/dyn) and a pool of values with
// ties in different representations, single-position mutants, shared prefixes and values that
// share storage (windows of one backing array, the same pointer inside different values). All ordered
// pairs and triples are evaluated against the reference order dyn.RefCmp, which is plain Go over
// the models of the values. The same instance then drives seq|iterator|list.Sort/Min/Max.
package main

import (
	"fmt"
	"math"
	"sort"
	"strconv"
	"strings"
	"time"

	"verif/c09/dyn"
	"verif/vrt"

	"github.com/csgura/fp"
	"github.com/csgura/fp/as"
	"github.com/csgura/fp/hlist"
	"github.com/csgura/fp/iterator"
	"github.com/csgura/fp/lazy"
	"github.com/csgura/fp/list"
	"github.com/csgura/fp/ord"
	"github.com/csgura/fp/seq"
)

type V = dyn.V

// ---- type erasure ---------------------------------------------------------------------

// ordAd presents an fp.Ord[T] as an order over boxed values.
type ordAd[T any] struct{ in fp.Ord[T] }

func (o ordAd[T]) Eqv(a, b V) bool     { return o.in.Eqv(a.(T), b.(T)) }
func (o ordAd[T]) Compare(a, b V) int  { return o.in.Compare(a.(T), b.(T)) }
func (o ordAd[T]) Less(a, b V) bool    { return o.in.Less(a.(T), b.(T)) }
func (o ordAd[T]) LessEq(a, b V) bool  { return o.in.LessEq(a.(T), b.(T)) }
func (o ordAd[T]) Max(a, b V) V        { return o.in.Max(a.(T), b.(T)) }
func (o ordAd[T]) Min(a, b V) V        { return o.in.Min(a.(T), b.(T)) }
func (o ordAd[T]) Reversed() fp.Ord[V] { return ordAd[T]{o.in.Reversed()} }
func (o ordAd[T]) ThenComparing(other fp.Ord[V]) fp.Ord[V] {
	return ordAd[T]{o.in.ThenComparing(unAd[T]{other})}
}
func (o ordAd[T]) impl() string {
	switch x := any(o.in).(type) {
	case fp.LessFunc[T]:
		return "LessFunc"
	case fp.CompareFunc[T]:
		return "CompareFunc"
	case unAd[T]:
		return implOf(x.in)
	}
	return "other"
}

// unAd is the way back: an order over boxed values seen as fp.Ord[T].
type unAd[T any] struct{ in fp.Ord[V] }

func (o unAd[T]) Eqv(a, b T) bool     { return o.in.Eqv(a, b) }
func (o unAd[T]) Compare(a, b T) int  { return o.in.Compare(a, b) }
func (o unAd[T]) Less(a, b T) bool    { return o.in.Less(a, b) }
func (o unAd[T]) LessEq(a, b T) bool  { return o.in.LessEq(a, b) }
func (o unAd[T]) Max(a, b T) T        { return o.in.Max(a, b).(T) }
func (o unAd[T]) Min(a, b T) T        { return o.in.Min(a, b).(T) }
func (o unAd[T]) Reversed() fp.Ord[T] { return unAd[T]{o.in.Reversed()} }
func (o unAd[T]) ThenComparing(other fp.Ord[T]) fp.Ord[T] {
	return unAd[T]{o.in.ThenComparing(ordAd[T]{other})}
}

func eraseOrd[T any](in fp.Ord[T]) fp.Ord[V] { return ordAd[T]{in} }

// implOf names the typeclass.go implementation behind an instance (its method set is the
// call site of Compare / Less / LessEq / Min / Max / Reversed / ThenComparing).
func implOf(o fp.Ord[V]) string {
	switch x := o.(type) {
	case interface{ impl() string }:
		return x.impl()
	case fp.LessFunc[V]:
		return "LessFunc"
	case fp.CompareFunc[V]:
		return "CompareFunc"
	}
	return "other"
}

// ---- cost accounting ------------------------------------------------------------------
//
// ord.TupleN / ord.HCons compare the tails of two products once for Eqv and once more for
// Less at every level, so a comparison of two products whose first difference is at field p
// costs about g^p component comparisons (g = 2 after the ord.New repair, 2.3 before it).
// Every leaf instance is wrapped in a call counter. It serves two purposes:
//   - a logical budget: one Compare / Less / Eqv / ... call may invoke the component orders
//     at most budgetFactor * 3^depth * size times (depth of the instance expression, size of
//     the two values); more is reported as <combinator>/exponential-comparisons. Every
//     combinator legitimately multiplies the work by at most 3 per nesting level (Eqv, then
//     Less in one or both directions), so the bound is far above any polynomial behaviour and
//     far below g^p for wide products;
//   - cost control of the monitor itself: pairs whose estimated cost is too high are not
//     evaluated (except in the designated deep cases), and a hard cap aborts an evaluation
//     that still runs away (sentinel panic, recovered by withCap). These two only reduce
//     what is observed (counters pairs.skipped_* / *.aborted_*), they never make a verdict.

type costExceeded struct{}

var cost struct{ n, cap int64 }

func init() { cost.cap = 1 << 62 }

// counting is switched off (before the goroutines start) by the conc cases: the call counter
// is a plain global of the single-threaded cases.
var counting = true

func tick() {
	if !counting {
		return
	}
	cost.n++
	if cost.n > cost.cap {
		panic(costExceeded{})
	}
}

// withCap runs f with a budget of leaf-instance calls; false = aborted.
func withCap(cap int64, f func()) (ok bool) {
	cost.n, cost.cap = 0, cap
	defer func() {
		cost.cap = 1 << 62
		if r := recover(); r != nil {
			if _, is := r.(costExceeded); is {
				ok = false
				return
			}
			panic(r)
		}
	}()
	f()
	return true
}

// countOrd is a leaf instance of the library behind the call counter.
type countOrd struct{ in fp.Ord[V] }

func (o countOrd) Eqv(a, b V) bool     { tick(); return o.in.Eqv(a, b) }
func (o countOrd) Compare(a, b V) int  { tick(); return o.in.Compare(a, b) }
func (o countOrd) Less(a, b V) bool    { tick(); return o.in.Less(a, b) }
func (o countOrd) LessEq(a, b V) bool  { tick(); return o.in.LessEq(a, b) }
func (o countOrd) Max(a, b V) V        { tick(); return o.in.Max(a, b) }
func (o countOrd) Min(a, b V) V        { tick(); return o.in.Min(a, b) }
func (o countOrd) Reversed() fp.Ord[V] { return countOrd{o.in.Reversed()} }
func (o countOrd) ThenComparing(other fp.Ord[V]) fp.Ord[V] {
	return countOrd{o.in.ThenComparing(other)}
}
func (o countOrd) impl() string { return implOf(o.in) }

// growth is the measured cost factor per equal leading field of ord.TupleN (1 = no blow-up).
// It only tunes which pairs the monitor can afford, see calibrate.
var growth = 1.0

const budgetFactor = 200

// calibrate measures how the library's TupleN comparison grows, by counting component calls
// for Tuple6 and Tuple12 values that differ in the last field only.
func calibrate() {
	leaf := givenOrd[int]()
	measure := func(n int) float64 {
		ins := make([]fp.Ord[V], n)
		a, b := make([]V, n), make([]V, n)
		for i := range ins {
			ins[i], a[i], b[i] = leaf, 1, 1
		}
		b[n-1] = 2
		o := ordTuple(ins)
		va, vb := dyn.MkTuple(a), dyn.MkTuple(b)
		if !withCap(50_000_000, func() { o.Less(vb, va); o.Less(va, vb) }) {
			return 50_000_000
		}
		return float64(cost.n)
	}
	c6, c12 := measure(6), measure(12)
	growth = math.Pow(c12/c6, 1.0/6)
	if growth < 1.3 { // polynomial: (12/6)^2 over 6 steps is 1.26
		growth = 1
	}
}

// estimate bounds (roughly, from the models) how many leaf calls one Compare(a,b) of the
// instance costs; it mirrors how the combinators are built from New / LessFunc.
func estimate(e *dyn.Expr, a, b *dyn.M) float64 {
	switch e.Op {
	case dyn.OpOption, dyn.OpPtr:
		if a.Nil || b.Nil {
			return 1
		}
		return 3 * estimate(e.Kids[0], a.Kids[0], b.Kids[0])
	case dyn.OpSeq, dyn.OpSlice:
		t := 1.0
		for i := 0; i < len(a.Kids) && i < len(b.Kids); i++ {
			t += 5 * estimate(e.Kids[0], a.Kids[i], b.Kids[i])
		}
		return t
	case dyn.OpTuple, dyn.OpHList:
		t, f := 1.0, 1.0
		for i := range e.Kids {
			t += 5 * f * estimate(e.Kids[i], a.Kids[i], b.Kids[i])
			if dyn.RefCmp(e.Kids[i], a.Kids[i], b.Kids[i]) != 0 {
				return t
			}
			f *= growth
		}
		// equal tuples: the Eqv chain alone decides, linear
		t = 1
		for i := range e.Kids {
			t += estimate(e.Kids[i], a.Kids[i], b.Kids[i])
		}
		return t
	case dyn.OpContra:
		return 3 * estimate(e.Kids[0], e.Fn.M(a), e.Fn.M(b))
	case dyn.OpNew:
		return 3 * estimate(e.Kids[0], a, b)
	case dyn.OpAsOrd:
		return 2 * estimate(e.Kids[0], a, b)
	case dyn.OpFromCompare, dyn.OpReversed:
		return estimate(e.Kids[0], a, b)
	case dyn.OpThen:
		return estimate(e.Kids[0], a, b) + estimate(e.Kids[1], a, b)
	}
	return 1
}

const (
	estLimit  = 40_000      // pairs estimated above this are not evaluated (except the designated deep pairs)
	pairCap   = 6_000_000   // hard cap of leaf calls for one ordered pair
	deepCap   = 400_000_000 // hard cap for a designated deep pair
	sortLimit = 1_500       // estimated cost allowed between two elements of a Sort input
	sortCap   = 30_000_000  // hard cap for one Sort / Min / Max call
)

func givenOrd[T fp.ImplicitOrd]() fp.Ord[V] { return countOrd{eraseOrd[T](ord.Given[T]())} }

var ordLeaf = map[string]func() fp.Ord[V]{
	"int": givenOrd[int], "int8": givenOrd[int8], "int16": givenOrd[int16], "int32": givenOrd[int32], "int64": givenOrd[int64],
	"uint": givenOrd[uint], "uint8": givenOrd[uint8], "uint16": givenOrd[uint16], "uint32": givenOrd[uint32], "uint64": givenOrd[uint64],
	"uintptr": givenOrd[uintptr], "float32": givenOrd[float32], "float64": givenOrd[float64], "string": givenOrd[string],
}

var ordLeaves = []string{"int", "int8", "int16", "int32", "int64", "uint", "uint8", "uint16", "uint32", "uint64", "uintptr", "float32", "float64", "string"}
var fieldLeaves = []string{"int", "string", "float64"}

// ---- building library instances -------------------------------------------------------

type registry struct {
	inst map[*dyn.Expr]fp.Ord[V]
	name map[*dyn.Expr]string
}

func (g *registry) nameOf(e *dyn.Expr) string { return g.name[e] }

// buildOrd memoises by expression node: a node that occurs at several places of an expression
// DAG (fork cases) is built once and the identical instance VALUE is used everywhere.
func buildOrd(e *dyn.Expr, reg *registry) fp.Ord[V] {
	if out, ok := reg.inst[e]; ok {
		return out
	}
	kids := make([]fp.Ord[V], len(e.Kids))
	for i, k := range e.Kids {
		kids[i] = buildOrd(k, reg)
	}
	var out fp.Ord[V]
	var name string
	switch e.Op {
	case dyn.OpLeaf:
		out, name = ordLeaf[e.Dom.Leaf](), "ord.Given["+e.Dom.Leaf+"]"
	case dyn.OpTime:
		out, name = countOrd{eraseOrd[time.Time](ord.Time)}, "ord.Time"
	case dyn.OpSeq:
		out, name = eraseOrd[fp.Seq[V]](ord.Seq(kids[0])), "ord.Seq"
	case dyn.OpSlice:
		out, name = eraseOrd[[]V](ord.Slice(kids[0])), "ord.Slice"
	case dyn.OpOption:
		out, name = eraseOrd[fp.Option[V]](ord.Option(kids[0])), "ord.Option"
	case dyn.OpPtr:
		k := kids[0]
		lz := lazy.Done(k)
		if e.Variant%2 == 1 {
			lz = lazy.Call(func() fp.Ord[V] { return k })
		}
		out, name = eraseOrd[*V](ord.Ptr(lz)), "ord.Ptr"
	case dyn.OpTuple:
		out, name = ordTuple(kids), "ord.Tuple"+strconv.Itoa(len(kids))
	case dyn.OpHList:
		out, name = countOrd{eraseOrd[hlist.Nil](ord.HNil)}, "ord.HNil"
		for i := len(kids) - 1; i >= 0; i-- {
			out, name = eraseOrd[hlist.Cons[V, V]](ord.HCons[V, V](kids[i], out)), "ord.HCons"
		}
	case dyn.OpContra:
		out, name = ord.ContraMap[V, V](kids[0], e.Fn.V), "ord.ContraMap"
	case dyn.OpField:
		f := e.Fn.V
		switch e.Fn.Dst.Leaf {
		case "int":
			out = ord.GivenField[V, int](func(v V) int { tick(); return f(v).(int) })
		case "string":
			out = ord.GivenField[V, string](func(v V) string { tick(); return f(v).(string) })
		default:
			out = ord.GivenField[V, float64](func(v V) float64 { tick(); return f(v).(float64) })
		}
		name = "ord.GivenField[" + e.Fn.Dst.Leaf + "]"
	case dyn.OpNew:
		out, name = ord.New[V](kids[0], fp.LessFunc[V](kids[0].Less)), "ord.New"
	case dyn.OpFromCompare:
		k := kids[0]
		scale := []int{1, 3, 1 << 40}[e.Variant%3]
		out, name = ord.FromCompare(func(a, b V) int {
			switch c := k.Compare(a, b); {
			case c < 0:
				return -scale
			case c > 0:
				return scale
			}
			return 0
		}), "ord.FromCompare"
	case dyn.OpAsOrd:
		out, name = as.Ord[V](fp.LessFunc[V](kids[0].Less)), "as.Ord"
	case dyn.OpReversed:
		out, name = kids[0].Reversed(), implOf(kids[0])+".Reversed"
	case dyn.OpThen:
		out, name = kids[0].ThenComparing(kids[1]), implOf(kids[0])+".ThenComparing"
	default:
		panic("c10: op without Ord instance")
	}
	reg.inst[e] = out
	reg.name[e] = name
	return out
}

// staticName is the name of a node before any instance exists (used for the open-case site).
func staticName(e *dyn.Expr) string {
	switch e.Op {
	case dyn.OpLeaf:
		return "ord.Given[" + e.Dom.Leaf + "]"
	case dyn.OpTime:
		return "ord.Time"
	case dyn.OpSeq:
		return "ord.Seq"
	case dyn.OpSlice:
		return "ord.Slice"
	case dyn.OpOption:
		return "ord.Option"
	case dyn.OpPtr:
		return "ord.Ptr"
	case dyn.OpTuple:
		return "ord.Tuple" + strconv.Itoa(len(e.Kids))
	case dyn.OpHList:
		if len(e.Kids) == 0 {
			return "ord.HNil"
		}
		return "ord.HCons"
	case dyn.OpContra:
		return "ord.ContraMap"
	case dyn.OpField:
		return "ord.GivenField[" + e.Fn.Dst.Leaf + "]"
	case dyn.OpNew:
		return "ord.New"
	case dyn.OpFromCompare:
		return "ord.FromCompare"
	case dyn.OpAsOrd:
		return "as.Ord"
	case dyn.OpReversed:
		return "Ord.Reversed"
	case dyn.OpThen:
		return "Ord.ThenComparing"
	}
	return "?"
}

func hits(w *vrt.W, e *dyn.Expr, reg *registry) {
	e.Walk(func(x *dyn.Expr) {
		if x.Op == dyn.OpHList {
			for range x.Kids {
				w.Hit("ord.HCons")
			}
			w.Hit("ord.HNil")
			return
		}
		w.Hit(reg.name[x])
	})
}

// ---- forced-op catalogue --------------------------------------------------------------

type forced struct {
	op    dyn.Op
	arity int
	leaf  string // "*": cycle through the kinds
}

var catalogue []forced

func init() {
	add := func(op dyn.Op, arity int, leaf string) { catalogue = append(catalogue, forced{op, arity, leaf}) }
	add(dyn.OpLeaf, -1, "*")
	add(dyn.OpTime, -1, "")
	add(dyn.OpOption, -1, "")
	add(dyn.OpSeq, -1, "")
	add(dyn.OpSlice, -1, "")
	add(dyn.OpPtr, -1, "")
	add(dyn.OpHList, 0, "")
	add(dyn.OpHList, -1, "")
	add(dyn.OpContra, -1, "")
	add(dyn.OpField, -1, "*")
	add(dyn.OpNew, -1, "")
	add(dyn.OpFromCompare, -1, "")
	add(dyn.OpAsOrd, -1, "")
	add(dyn.OpReversed, -1, "")
	add(dyn.OpThen, -1, "")
	for n := 1; n <= dyn.MaxArity; n++ {
		add(dyn.OpTuple, n, "")
	}
	add(dyn.OpHList, wideHList, "") // a long HCons chain (the designated deep case measures its cost)
}

const wideHList = 18

var ordOps = []dyn.Op{dyn.OpLeaf, dyn.OpTime, dyn.OpField, dyn.OpSeq, dyn.OpSlice, dyn.OpOption, dyn.OpPtr, dyn.OpTuple, dyn.OpHList,
	dyn.OpContra, dyn.OpNew, dyn.OpFromCompare, dyn.OpAsOrd, dyn.OpReversed, dyn.OpThen}

var ordCfg = &dyn.Cfg{Leaves: ordLeaves, MainLeaves: []string{"int", "string", "float64"}, Ops: ordOps, FieldLeaves: fieldLeaves, MaxDepth: 3, Budget: 70}

// ---- one case -------------------------------------------------------------------------

type caseT struct {
	w       *vrt.W
	idx     int
	e       *dyn.Expr
	reg     *registry
	exprStr string
	pool    []dyn.Entry
	x, y    []V
	failed  bool
	deep    bool // designated case: all single-position pairs of a large tuple, whatever they cost
	// estLimit: pairs estimated above it are not evaluated (0 = the default estLimit)
	estLimit float64
	// sortLens: input lengths of the Sort / Min / Max trials (nil = PRNG lengths)
	sortLens []int
}

func (c *caseT) show(i int) string { return dyn.Show(c.e.Dom, c.pool[i].M) }

func (c *caseT) witness(idx ...int) any {
	vals := map[string]string{}
	for k, i := range idx {
		vals[string(rune('a'+k))] = c.show(i)
	}
	return map[string]any{"expr": c.exprStr, "values": vals, "domain": c.e.Dom.String()}
}

func (c *caseT) viol(key, detail string, idx ...int) {
	c.failed = true
	c.w.Violation(c.idx, key, detail+"\ninstance: "+c.exprStr, c.witness(idx...))
}

func sign(x int) int {
	switch {
	case x < 0:
		return -1
	case x > 0:
		return 1
	}
	return 0
}

// blame descends to the innermost sub-instance that disagrees with the reference on the
// components it is given.
func (c *caseT) blame(e *dyn.Expr, a, b *dyn.M) string {
	for _, al := range dyn.Align(e, a, b) {
		inst := c.reg.inst[al.Kid]
		ctx := dyn.NewCtx() // one context: the two components share storage exactly as they do inside the pool values
		va, vb := ctx.Build(al.Kid.Dom, al.A), ctx.Build(al.Kid.Dom, al.B)
		want := dyn.RefCmp(al.Kid, al.A, al.B)
		if inst.Less(va, vb) != (want < 0) || inst.Less(vb, va) != (want > 0) || inst.Eqv(va, vb) != (want == 0) || sign(inst.Compare(va, vb)) != want {
			return c.blame(al.Kid, al.A, al.B)
		}
	}
	return c.reg.name[e]
}

// blameIncons descends to the innermost sub-instance whose own Compare / LessEq / Eqv / Min /
// Max answers are inconsistent with its Less on the components it is given.
func (c *caseT) blameIncons(e *dyn.Expr, a, b *dyn.M) string {
	for _, al := range dyn.Align(e, a, b) {
		k := c.reg.inst[al.Kid]
		ctx := dyn.NewCtx()
		va, vb := ctx.Build(al.Kid.Dom, al.A), ctx.Build(al.Kid.Dom, al.B)
		l, g, q, cmp := k.Less(va, vb), k.Less(vb, va), k.Eqv(va, vb), k.Compare(va, vb)
		ok := (cmp < 0) == l && (cmp > 0) == g && (cmp == 0) == q && k.LessEq(va, vb) == (l || q) && btoi(l)+btoi(g)+btoi(q) == 1
		if ok {
			lo, hi := va, vb
			if g {
				lo, hi = vb, va
			}
			ok = k.Eqv(k.Min(va, vb), lo) && k.Eqv(k.Max(va, vb), hi)
		}
		if !ok {
			return c.blameIncons(al.Kid, al.A, al.B)
		}
	}
	return c.reg.name[e]
}

func btoi(b bool) int {
	if b {
		return 1
	}
	return 0
}

// callBudget is the logical budget of one call of an instance of the given nesting depth on
// two values with the given total number of nodes.
func callBudget(depth, size int) int64 {
	return int64(budgetFactor * math.Pow(3, float64(depth)) * float64(size+2))
}

// blameCost descends to the innermost sub-instance that exceeds its own budget on the
// components it is given.
func (c *caseT) blameCost(e *dyn.Expr, a, b *dyn.M) string {
	for _, al := range dyn.Align(e, a, b) {
		inst := c.reg.inst[al.Kid]
		ctx := dyn.NewCtx()
		va, vb := ctx.Build(al.Kid.Dom, al.A), ctx.Build(al.Kid.Dom, al.B)
		start := cost.n
		inst.Compare(va, vb)
		if cost.n-start > callBudget(al.Kid.Depth(), al.A.Size()+al.B.Size()) {
			return c.blameCost(al.Kid, al.A, al.B)
		}
	}
	return c.reg.name[e]
}

// rec is what the instance answered for one ordered pair (a, b).
type rec struct {
	worst             int64 // most component calls made by one call of the instance
	known             bool
	full              bool // false: only less was asked
	less, eqv, lessEq bool
	cmp               int
	minmax            bool // Min / Max were evaluated
	minA, minB        bool // Eqv(Min(a,b), a), Eqv(Min(a,b), b)
	maxA, maxB        bool
}

func (c *caseT) checkOrder(inst fp.Ord[V]) (ties, onePos int) {
	w, e, n := c.w, c.e, len(c.pool)
	root := c.reg.name[e]
	w.Site(root)
	blameOf := func(i, j int) string {
		out := root
		withCap(pairCap, func() { out = c.blame(e, c.pool[i].M, c.pool[j].M) })
		return out
	}
	blameIncons := func(i, j int) string {
		out := root
		withCap(pairCap, func() { out = c.blameIncons(e, c.pool[i].M, c.pool[j].M) })
		return out
	}
	pairStr := func(i, j int) string { return "\na = " + c.show(i) + "\nb = " + c.show(j) }
	// designated deep pairs: the first base value against its single-position mutants
	mandated := func(i, j int) bool {
		if !c.deep {
			return false
		}
		if i > j {
			i, j = j, i
		}
		return i == 0 && c.pool[j].Parent == 0 && c.pool[j].Rel == "mutant" && c.pool[j].Pos >= 0
	}
	R := make([][]rec, n)
	var maxCost, maxRatio int64
	depth := e.Depth()
	sizes := make([]int, n)
	for i := range sizes {
		sizes[i] = c.pool[i].M.Size()
	}
	for i := 0; i < n; i++ {
		R[i] = make([]rec, n)
		for j := 0; j < n; j++ {
			a, b := c.x[i], c.x[j]
			must := mandated(i, j)
			lim := c.estLimit
			if lim == 0 {
				lim = estLimit
			}
			if !must && (estimate(e, c.pool[i].M, c.pool[j].M) > lim || estimate(e, c.pool[j].M, c.pool[i].M) > lim) {
				w.Add("pairs.skipped_by_cost_estimate", 1)
				continue
			}
			limit := int64(pairCap)
			if must {
				limit = deepCap
			}
			var r rec
			// ord.TupleN is several times cheaper when the smaller value comes first; of a
			// designated deep pair only Less is asked in the expensive orientation
			r.full = !must || dyn.RefCmp(e, c.pool[i].M, c.pool[j].M) <= 0
			mark := int64(0)
			step := func() { // closes one call of the instance
				if d := cost.n - mark; d > r.worst {
					r.worst = d
				}
				mark = cost.n
			}
			ok := withCap(limit, func() {
				defer step()
				r.less = inst.Less(a, b)
				step()
				if !r.full {
					return
				}
				r.eqv = inst.Eqv(a, b)
				step()
				r.cmp = inst.Compare(a, b)
				step()
				r.lessEq = inst.LessEq(a, b)
				step()
				if !must {
					mn := inst.Min(a, b)
					step()
					mx := inst.Max(a, b)
					step()
					r.minA, r.minB = inst.Eqv(mn, a), inst.Eqv(mn, b)
					r.maxA, r.maxB = inst.Eqv(mx, a), inst.Eqv(mx, b)
					r.minmax = true
				}
			})
			if cost.n > maxCost {
				maxCost = cost.n
			}
			// logical budget of one call
			budget := callBudget(depth, sizes[i]+sizes[j])
			if ratio := r.worst * 1000 / budget; ratio > maxRatio {
				maxRatio = ratio
			}
			if r.worst > budget {
				site := root
				withCap(deepCap, func() { site = c.blameCost(e, c.pool[i].M, c.pool[j].M) })
				c.viol(site+"/exponential-comparisons", fmt.Sprintf("one call (Less/Eqv/Compare/LessEq/Min/Max) on these two values invoked the component instances %d times (aborted=%v); budget %d = %d * 3^depth(%d) * size(%d)%s",
					r.worst, !ok, budget, budgetFactor, depth, sizes[i]+sizes[j], pairStr(i, j)), i, j)
			}
			if !ok {
				w.Add("pairs.aborted_by_cost_cap", 1)
				continue
			}
			r.known = true
			R[i][j] = r
			w.Add("pairs", 1)
			if must {
				w.Add("pairs.deep", 1)
			}
		}
	}
	w.Max("cost.max_call_per_mille_of_budget", maxRatio)
	w.Max("cost.max_leaf_calls_for_one_pair", maxCost)
	isSeq := e.Op == dyn.OpSeq || e.Op == dyn.OpSlice
	for i := 0; i < n; i++ {
		// a value against a freshly allocated, structurally identical copy
		var bad bool
		withCap(pairCap, func() {
			bad = !inst.Eqv(c.x[i], c.y[i]) || inst.Less(c.x[i], c.y[i]) || inst.Less(c.y[i], c.x[i])
		})
		if bad {
			c.viol(blameOf(i, i)+"/fresh-copy-not-equivalent", "a value and a structurally identical copy are not Eqv / are ordered, a = "+c.show(i), i)
		}
		for j := 0; j < n; j++ {
			r, q := R[i][j], R[j][i]
			if !r.known || !q.known {
				continue
			}
			want := dyn.RefCmp(e, c.pool[i].M, c.pool[j].M)
			if !r.full {
				continue // everything about this pair is checked from the (b, a) side
			}
			// trichotomy on the library's own answers
			cnt := 0
			for _, t := range []bool{r.less, q.less, r.eqv} {
				if t {
					cnt++
				}
			}
			if cnt != 1 {
				kind := "/less-and-eqv"
				switch {
				case r.less && q.less:
					kind = "/not-antisymmetric"
				case cnt == 0:
					kind = "/neither-less-nor-eqv"
				}
				c.viol(blameOf(i, j)+kind, fmt.Sprintf("exactly one of Less(a,b), Less(b,a), Eqv(a,b) must hold: %v %v %v%s", r.less, q.less, r.eqv, pairStr(i, j)), i, j)
			}
			if q.full && r.eqv != q.eqv {
				c.viol(blameOf(i, j)+"/eqv-not-symmetric", fmt.Sprintf("Eqv(a,b)=%v Eqv(b,a)=%v%s", r.eqv, q.eqv, pairStr(i, j)), i, j)
			}
			// Compare / LessEq / Min / Max consistent with Less
			if (r.cmp < 0) != r.less || (r.cmp > 0) != q.less || (r.cmp == 0) != r.eqv {
				c.viol(blameIncons(i, j)+"/compare-inconsistent-with-less", fmt.Sprintf("Compare(a,b)=%d, Less(a,b)=%v Less(b,a)=%v Eqv(a,b)=%v%s", r.cmp, r.less, q.less, r.eqv, pairStr(i, j)), i, j)
			}
			if r.lessEq != (r.less || r.eqv) {
				c.viol(blameIncons(i, j)+"/lesseq-inconsistent-with-less", fmt.Sprintf("LessEq(a,b)=%v, Less(a,b)=%v Eqv(a,b)=%v%s", r.lessEq, r.less, r.eqv, pairStr(i, j)), i, j)
			}
			if r.minmax {
				// expected representatives: a is the smaller one unless Less(b,a); either one when a ~ b
				minLo, minHi, maxLo, maxHi := r.minA, r.minB, r.maxA, r.maxB
				if q.less {
					minLo, minHi, maxLo, maxHi = r.minB, r.minA, r.maxB, r.maxA
				}
				if !minLo || (!r.eqv && minHi) {
					c.viol(blameIncons(i, j)+"/min-inconsistent-with-less", fmt.Sprintf("Min(a,b) is not the smaller argument (Less(a,b)=%v Less(b,a)=%v)%s", r.less, q.less, pairStr(i, j)), i, j)
				}
				if !maxHi || (!r.eqv && maxLo) {
					c.viol(blameIncons(i, j)+"/max-inconsistent-with-less", fmt.Sprintf("Max(a,b) is not the greater argument (Less(a,b)=%v Less(b,a)=%v)%s", r.less, q.less, pairStr(i, j)), i, j)
				}
			}
			// the reference order
			got := 0
			if r.less {
				got = -1
			} else if q.less {
				got = 1
			}
			if got != want {
				c.viol(blameOf(i, j)+"/order-differs-from-reference", fmt.Sprintf("Less says %d, the reference order says %d (-1: a<b, 0: equivalent, +1: a>b)%s", got, want, pairStr(i, j)), i, j)
			}
			if r.eqv != (want == 0) {
				c.viol(blameOf(i, j)+"/eqv-differs-from-reference", fmt.Sprintf("Eqv(a,b)=%v, the reference order says %d%s", r.eqv, want, pairStr(i, j)), i, j)
			}
			if sign(r.cmp) != want {
				c.viol(blameOf(i, j)+"/compare-differs-from-reference", fmt.Sprintf("Compare(a,b)=%d, the reference order says %d%s", r.cmp, want, pairStr(i, j)), i, j)
			}
			if i < j {
				if want == 0 {
					ties++
					if !dyn.NatEq(e.Dom, c.pool[i].M, c.pool[j].M) {
						w.Add("ties.between_different_values", 1)
					} else if dyn.ReprDiff(e.Dom, c.pool[i].M, c.pool[j].M) {
						w.Add("ties.between_representations", 1)
					}
				}
				if isSeq && want != 0 {
					a, b := c.pool[i].M, c.pool[j].M
					k := 0
					for k < len(a.Kids) && k < len(b.Kids) && dyn.RefCmp(e.Kids[0], a.Kids[k], b.Kids[k]) == 0 {
						k++
					}
					if k > 0 {
						w.Add("pairs.shared_prefix", 1)
						if k == len(a.Kids) || k == len(b.Kids) {
							w.Add("pairs.proper_prefix", 1)
						}
					}
				}
				if (e.Op == dyn.OpOption || e.Op == dyn.OpPtr) && c.pool[i].M.Nil != c.pool[j].M.Nil {
					w.Add("pairs.none_vs_some", 1)
				}
				if e.Op == dyn.OpThen && dyn.RefCmp(e.Kids[0], c.pool[i].M, c.pool[j].M) == 0 && want != 0 {
					w.Add("then.ties_broken_by_secondary", 1)
				}
			}
		}
	}
	// transitivity over all triples whose three pairs were evaluated
	triples := 0
	for i := 0; i < n; i++ {
		for j := 0; j < n; j++ {
			if !R[i][j].full || !R[i][j].known || (!R[i][j].less && !R[i][j].eqv) {
				continue
			}
			for k := 0; k < n; k++ {
				if !R[j][k].known || !R[i][k].known || !R[j][k].full || !R[i][k].full {
					continue
				}
				triples++
				bad := ""
				if R[i][j].less && R[j][k].less && !R[i][k].less {
					bad = "/less-not-transitive"
				} else if R[i][j].eqv && R[j][k].eqv && !R[i][k].eqv {
					bad = "/eqv-not-transitive"
				}
				if bad != "" {
					b := root
					for _, pr := range [][2]int{{i, j}, {j, k}, {i, k}} {
						x, y := R[pr[0]][pr[1]], R[pr[1]][pr[0]]
						got := 0
						if x.less {
							got = -1
						} else if y.known && y.less {
							got = 1
						}
						if got != dyn.RefCmp(e, c.pool[pr[0]].M, c.pool[pr[1]].M) {
							b = blameOf(pr[0], pr[1])
							break
						}
					}
					c.viol(b+bad, fmt.Sprintf("a,b and b,c are related but a,c is not\na = %s\nb = %s\nc = %s", c.show(i), c.show(j), c.show(k)), i, j, k)
				}
			}
		}
	}
	w.Add("triples", int64(triples))
	// single-position differences: strictly ordered exactly one way
	allPos := map[int]bool{}
	for j, en := range c.pool {
		if en.Rel != "mutant" || en.Parent < 0 {
			continue
		}
		r, q := R[en.Parent][j], R[j][en.Parent]
		if r.known && q.known && dyn.RefCmp(e, c.pool[en.Parent].M, en.M) != 0 && r.less != q.less {
			onePos++
			if en.Parent == 0 && en.Pos >= 0 {
				allPos[en.Pos] = true
			}
		}
	}
	w.Add("pairs.one_position_apart", int64(onePos))
	if e.Op == dyn.OpTuple && len(allPos) == len(e.Kids) {
		w.Add("allpos."+root, 1)
	}
	// storage sharing and time range among the pairs that were evaluated in both directions
	hasTime := dyn.HasKind(e.Dom, dyn.KTime)
	for j, en := range c.pool {
		if hasTime {
			dyn.TimeClasses(e.Dom, en.M, func(class string) { w.Add("time."+class, 1) })
		}
		if strings.HasPrefix(en.Rel, "alias-") && R[en.Parent][j].known && R[j][en.Parent].known {
			w.Add("alias.variant_vs_origin."+en.Rel[len("alias-"):], 1)
		}
		if en.Shared {
			w.Add("alias.values_with_shared_storage", 1)
		}
		for i := 0; i < j; i++ {
			if !R[i][j].known || !R[j][i].known {
				continue
			}
			if en.Shared && c.pool[i].Shared {
				dyn.AliasClasses(e.Dom, c.pool[i].M, en.M, func(class string) { w.Add("alias."+class, 1) })
			}
			if e.Op == dyn.OpTime {
				a, b := c.pool[i].M, en.M
				if fa, fb := dyn.OutsideInt64Nanos(a.Sec, a.Ns), dyn.OutsideInt64Nanos(b.Sec, b.Ns); fa || fb {
					w.Add("time.root_pairs_with_an_instant_outside_int64_nanoseconds", 1)
					if fa && fb && (a.Sec < 0) != (b.Sec < 0) {
						w.Add("time.root_pairs_far_past_vs_far_future", 1)
					}
				}
				if dyn.TimeMono(a) != dyn.TimeMono(b) {
					w.Add("time.root_pairs_monotonic_vs_wall", 1)
				} else if dyn.TimeMono(a) {
					w.Add("time.root_pairs_both_monotonic", 1)
				}
			}
		}
	}
	w.Add("root.impl."+implOf(inst), 1)
	return ties, onePos
}

// ---- Sort / Min / Max -----------------------------------------------------------------

type tagged struct {
	v  V
	id int // index into the pool
}

// tagOrd orders tagged elements by the instance under test; only the harness defines it.
type tagOrd struct{ in fp.Ord[V] }

func (o tagOrd) Eqv(a, b tagged) bool    { return o.in.Eqv(a.v, b.v) }
func (o tagOrd) Compare(a, b tagged) int { return o.in.Compare(a.v, b.v) }
func (o tagOrd) Less(a, b tagged) bool   { return o.in.Less(a.v, b.v) }
func (o tagOrd) LessEq(a, b tagged) bool { return o.in.LessEq(a.v, b.v) }
func (o tagOrd) Max(a, b tagged) tagged {
	if o.in.Less(a.v, b.v) {
		return b
	}
	return a
}
func (o tagOrd) Min(a, b tagged) tagged {
	if o.in.Less(b.v, a.v) {
		return b
	}
	return a
}
func (o tagOrd) Reversed() fp.Ord[tagged] { panic("tagOrd.Reversed is not used") }
func (o tagOrd) ThenComparing(other fp.Ord[tagged]) fp.Ord[tagged] {
	panic("tagOrd.ThenComparing is not used")
}

func ids(s []tagged) []int {
	out := make([]int, len(s))
	for i, t := range s {
		out[i] = t.id
	}
	return out
}

func sameInts(a, b []int) bool {
	if len(a) != len(b) {
		return false
	}
	for i := range a {
		if a[i] != b[i] {
			return false
		}
	}
	return true
}

func (c *caseT) sortWitness(in []int, out []int) any {
	vals := []string{}
	seen := map[int]bool{}
	for _, id := range in {
		if !seen[id] && len(vals) < 30 {
			seen[id] = true
			vals = append(vals, fmt.Sprintf("#%d = %s", id, c.show(id)))
		}
	}
	return map[string]any{"expr": c.exprStr, "input_ids": in, "output_ids": out, "values": vals}
}

func (c *caseT) checkSorts(inst fp.Ord[V], trials int) {
	w, e, r := c.w, c.e, c.w.Rand(c.idx+1_000_000)
	to := tagOrd{inst}
	n := len(c.pool)
	// elements are drawn from pool entries that are pairwise cheap to compare (see estimate)
	var cand []int
	for _, idx := range r.Perm(n) {
		ok := true
		for _, s := range cand {
			if estimate(e, c.pool[idx].M, c.pool[s].M) > sortLimit || estimate(e, c.pool[s].M, c.pool[idx].M) > sortLimit {
				ok = false
				break
			}
		}
		if ok {
			cand = append(cand, idx)
		}
	}
	if len(cand) < n {
		w.Add("sort.cases_with_reduced_element_pool", 1)
	}
	for t := 0; t < trials; t++ {
		var length int
		switch r.IntN(8) {
		case 0:
			length = 0
		case 1:
			length = 1
		case 2:
			length = 2
		case 3, 4:
			length = 3 + r.IntN(20)
		default:
			length = 1 + r.IntN(200)
		}
		if t == 0 && c.idx%16 == 0 {
			length = 0
		}
		if c.sortLens != nil {
			length = c.sortLens[t%len(c.sortLens)]
			w.Add("sort.sized_input."+strconv.Itoa(length), 1)
		}
		mode := r.IntN(5)
		idsIn := make([]int, length)
		switch mode {
		case 3: // few distinct values, very many duplicates
			k := 1 + r.IntN(3)
			pick := make([]int, k)
			for i := range pick {
				pick[i] = cand[r.IntN(len(cand))]
			}
			for i := range idsIn {
				idsIn[i] = pick[r.IntN(k)]
			}
		default:
			for i := range idsIn {
				idsIn[i] = cand[r.IntN(len(cand))]
			}
		}
		refLess := func(a, b int) bool { return dyn.RefCmp(e, c.pool[a].M, c.pool[b].M) < 0 }
		switch mode {
		case 1:
			sort.SliceStable(idsIn, func(i, j int) bool { return refLess(idsIn[i], idsIn[j]) })
			w.Add("sort.inputs_already_sorted", 1)
		case 2:
			sort.SliceStable(idsIn, func(i, j int) bool { return refLess(idsIn[j], idsIn[i]) })
			w.Add("sort.inputs_reversed", 1)
		}
		dups := false
		seen := map[int]bool{}
		for _, id := range idsIn {
			if seen[id] {
				dups = true
			}
			seen[id] = true
		}
		if dups {
			w.Add("sort.inputs_with_duplicates", 1)
		}
		if length == 0 {
			w.Add("sort.inputs_empty", 1)
		}
		w.Max("sort.max_length", int64(length))
		nilEmpty := r.IntN(2) == 0
		mk := func() fp.Seq[tagged] {
			if length == 0 && nilEmpty {
				return nil
			}
			s := make(fp.Seq[tagged], length)
			for i, id := range idsIn {
				s[i] = tagged{c.x[id], id}
			}
			return s
		}
		for _, api := range []string{"seq", "iterator", "list"} {
			// ---- Sort
			site := api + ".Sort"
			ok := withCap(sortCap, func() {
				in := mk()
				var out fp.Seq[tagged]
				w.Site(site)
				switch api {
				case "seq":
					out = seq.Sort(in, to)
				case "iterator":
					out = iterator.Sort(iterator.FromSeq(in), to)
				default:
					out = list.Sort(list.FromSeq(in), to)
				}
				w.Hit(site)
				w.Add("sorts", 1)
				outIDs := ids(out)
				fail := func(kind, detail string) {
					c.w.Violation(c.idx, site+kind, detail+"\ninstance: "+c.exprStr, c.sortWitness(idsIn, outIDs))
				}
				if !sameInts(ids(in), idsIn) {
					fail("/input-mutated", fmt.Sprintf("the input sequence was reordered by %s: before %v, after %v", site, idsIn, ids(in)))
				}
				cnt := map[int]int{}
				for _, id := range idsIn {
					cnt[id]++
				}
				for _, id := range outIDs {
					cnt[id]--
				}
				perm := len(outIDs) == len(idsIn)
				for _, v := range cnt {
					if v != 0 {
						perm = false
					}
				}
				if !perm {
					fail("/not-a-permutation", fmt.Sprintf("output is not a permutation of the input: %d elements in, %d out", len(idsIn), len(outIDs)))
				}
				for k := 0; k+1 < len(out); k++ {
					if inst.Less(out[k+1].v, out[k].v) || dyn.RefCmp(e, c.pool[out[k].id].M, c.pool[out[k+1].id].M) > 0 {
						fail("/not-sorted", fmt.Sprintf("output[%d] > output[%d]: #%d %s  then  #%d %s", k, k+1, out[k].id, c.show(out[k].id), out[k+1].id, c.show(out[k+1].id)))
						break
					}
				}
			})
			if !ok {
				w.Add("sorts.aborted_by_cost_cap", 1)
			}
			// ---- Min / Max
			for _, which := range []string{"Min", "Max"} {
				site := api + "." + which
				ok := withCap(sortCap, func() {
					in := mk()
					w.Site(site)
					var got fp.Option[tagged]
					switch api + which {
					case "seqMin":
						got = seq.Min(in, to)
					case "seqMax":
						got = seq.Max(in, to)
					case "iteratorMin":
						got = iterator.Min(iterator.FromSeq(in), to)
					case "iteratorMax":
						got = iterator.Max(iterator.FromSeq(in), to)
					case "listMin":
						got = list.Min(list.FromSeq(in), to)
					default:
						got = list.Max(list.FromSeq(in), to)
					}
					w.Hit(site)
					w.Add("minmax", 1)
					fail := func(kind, detail string) {
						c.w.Violation(c.idx, site+kind, detail+"\ninstance: "+c.exprStr, c.sortWitness(idsIn, nil))
					}
					if length == 0 {
						if got.IsDefined() {
							fail("/some-on-empty", "a value was returned for an empty input")
						}
						w.Add("minmax.none_on_empty", 1)
						return
					}
					if !got.IsDefined() {
						fail("/none-on-nonempty", fmt.Sprintf("None for an input of %d elements", length))
						return
					}
					g := got.Get()
					if g.id < 0 || g.id >= n || !seen[g.id] {
						fail("/not-an-element", fmt.Sprintf("returned element #%d is not in the input", g.id))
						return
					}
					for _, id := range idsIn {
						var bad bool
						if which == "Min" {
							bad = inst.Less(c.x[id], g.v) || dyn.RefCmp(e, c.pool[g.id].M, c.pool[id].M) > 0
						} else {
							bad = inst.Less(g.v, c.x[id]) || dyn.RefCmp(e, c.pool[g.id].M, c.pool[id].M) < 0
						}
						if bad {
							kind := map[string]string{"Min": "/not-least", "Max": "/not-greatest"}[which]
							fail(kind, fmt.Sprintf("%s returned #%d %s but the input holds #%d %s", site, g.id, c.show(g.id), id, c.show(id)))
							break
						}
					}
					if !sameInts(ids(in), idsIn) {
						fail("/input-mutated", "the input sequence was changed")
					}
				})
				if !ok {
					w.Add("minmax.aborted_by_cost_cap", 1)
				}
			}
		}
	}
}

func casesPerBatch(tier string) int {
	if tier == "thorough" {
		return 2400
	}
	return 1200
}

const deepFromArity = 10

// forcedRootWide returns a slot number > 0 if global case g forces a wide product at the
// root: N for TupleN, 22 for the long HCons chain.
func forcedRootWide(g int) int {
	f := catalogue[g%len(catalogue)]
	round := g / len(catalogue)
	if (round/2)%3 != 0 || (round%2 == 1 && round/2 >= 3) {
		return 0
	}
	switch {
	case f.op == dyn.OpTuple && f.arity >= deepFromArity:
		return f.arity
	case f.op == dyn.OpHList && f.arity == wideHList:
		return dyn.MaxArity + 1
	}
	return 0
}

// isDeepCase designates, as a pure function of (tier, batch, index), one case per wide product
// and run in which every single-position pair is evaluated whatever it costs: the first case
// of its batch that forces that product at the root, in the batches assigned to it.
func isDeepCase(w *vrt.W, g int) bool {
	n := forcedRootWide(g)
	if n == 0 {
		return false
	}
	slots := 16
	if (n-1)%slots != w.Batch%slots {
		return false
	}
	for h := w.Batch * casesPerBatch(w.Tier); h < g; h++ {
		if forcedRootWide(h) == n {
			return false
		}
	}
	return true
}

func runCase(w *vrt.W, i int) {
	r := w.Rand(i)
	g := w.Batch*casesPerBatch(w.Tier) + i
	f := catalogue[g%len(catalogue)]
	round := g / len(catalogue)
	force := &dyn.Force{Op: f.op, Arity: f.arity, Leaf: f.leaf}
	if f.leaf == "*" {
		if f.op == dyn.OpField {
			force.Leaf = fieldLeaves[round%len(fieldLeaves)]
		} else {
			force.Leaf = ordLeaves[round%len(ordLeaves)]
		}
	}
	levels := 3
	if f.op == dyn.OpLeaf || f.op == dyn.OpTime || f.op == dyn.OpField || (f.op == dyn.OpHList && f.arity == 0) {
		levels = 4
	}
	force.At = (round / 2) % levels
	if round%2 == 1 && round/2 >= levels {
		force = nil
	}
	deep := force != nil && isDeepCase(w, g)
	if deep {
		force.LeafKids = true
	}
	e := dyn.GenExpr(r, ordCfg, force)
	n, trials := 24, 2
	if w.Tier == "thorough" {
		n, trials = 40, 3
	}
	checkPoolCase(&caseT{w: w, idx: i, e: e, deep: deep, pool: dyn.GenPool(r, e.Dom, n), reg: &registry{map[*dyn.Expr]fp.Ord[V]{}, map[*dyn.Expr]string{}}}, trials)
}

// checkPoolCase: the instance denoted by c.e on all pairs and triples of c.pool, then Sort /
// Min / Max driven by it.
func checkPoolCase(c *caseT, trials int) {
	w, i, e, deep := c.w, c.idx, c.e, c.deep
	ctx := dyn.NewCtx() // one context for the whole pool: pinned parts of different values share their storage
	for _, en := range c.pool {
		c.x = append(c.x, ctx.Build(e.Dom, en.M))
		c.y = append(c.y, dyn.Build(e.Dom, en.M)) // a copy in storage of its own
	}
	c.exprStr = e.Format(staticName)
	depth := 0
	var walk func(x *dyn.Expr, d int)
	walk = func(x *dyn.Expr, d int) {
		if d > depth {
			depth = d
		}
		for _, k := range x.Kids {
			walk(k, d+1)
		}
	}
	walk(e, 0)
	w.Max("expr.depth", int64(depth))
	w.Max("pool.size", int64(len(c.pool)))

	ties, onePos := 0, 0
	w.Begin(i, staticName(e))
	w.Guard(i, func() any { return c.witness() }, func() {
		inst := buildOrd(e, c.reg)
		c.exprStr = e.Format(c.reg.nameOf)
		hits(w, e, c.reg)
		ties, onePos = c.checkOrder(inst)
		if deep {
			w.Add("deep.cases", 1)
			w.Add("deep."+c.reg.name[e], 1)
		} else if !c.failed {
			c.checkSorts(inst, trials)
		} else {
			w.Add("sorts.skipped_because_order_is_broken", 1)
		}
	})
	w.Done(i)
	w.Add("exprs", 1)
	w.Add("pairs.ties", int64(ties))
	if ties > 0 && onePos > 0 {
		var b strings.Builder
		b.WriteString(c.exprStr)
		for k := range c.pool {
			b.WriteString("|" + c.show(k))
		}
		w.Distinct(b.String())
		if w.WantSample() && len(c.exprStr) < 400 {
			vals := []string{}
			for k := 0; k < len(c.pool) && k < 8; k++ {
				vals = append(vals, fmt.Sprintf("#%d %s of #%d: %s", k, c.pool[k].Rel, c.pool[k].Parent, c.show(k)))
			}
			w.Sample(map[string]any{"expr": c.exprStr, "pool_size": len(c.pool), "first_values": vals, "tied_pairs": ties, "one_position_pairs": onePos})
		}
	}
}

// allNames lists every instance / combinator / call site that must be exercised.
func allNames() []string {
	var out []string
	for _, l := range ordLeaves {
		out = append(out, "ord.Given["+l+"]")
	}
	for _, l := range fieldLeaves {
		out = append(out, "ord.GivenField["+l+"]")
	}
	out = append(out, "ord.Time", "ord.Option", "ord.Seq", "ord.Slice", "ord.Ptr", "ord.HCons", "ord.HNil", "ord.ContraMap",
		"ord.New", "ord.FromCompare", "as.Ord",
		"LessFunc.Reversed", "CompareFunc.Reversed", "LessFunc.ThenComparing", "CompareFunc.ThenComparing",
		"seq.Sort", "iterator.Sort", "list.Sort", "seq.Min", "seq.Max", "iterator.Min", "iterator.Max", "list.Min", "list.Max")
	for n := 1; n <= dyn.MaxArity; n++ {
		out = append(out, "ord.Tuple"+strconv.Itoa(n))
	}
	return out
}

// batch layout: [classic | fork | sized | conc (first half in the -race build)]; the new
// families are appended so that the PRNG streams of the classic batches stay where they were
func classicBatches(tier string) int {
	if tier == "thorough" {
		return 64
	}
	return 16
}

func forkBatches(tier string) int {
	if tier == "thorough" {
		return 8
	}
	return 2
}

func sizedBatches(tier string) int {
	if tier == "thorough" {
		return 8
	}
	return 2
}

func concBatches(tier string) int {
	if tier == "thorough" {
		return 8
	}
	return 4
}

// family of batch b and its index inside the family
func batchFamily(tier string, b int) (string, int) {
	if b < classicBatches(tier) {
		return "classic", b
	}
	b -= classicBatches(tier)
	if b < forkBatches(tier) {
		return "fork", b
	}
	b -= forkBatches(tier)
	if b < sizedBatches(tier) {
		return "sized", b
	}
	return "conc", b - sizedBatches(tier)
}

func main() {
	vrt.Main(vrt.Config{
		Property:      "C10",
		CaseCPUBudget: 120,
		WorkerProcs:   8,
		Batches: func(tier string) int {
			return classicBatches(tier) + forkBatches(tier) + sizedBatches(tier) + concBatches(tier)
		},
		Cases: func(tier string, b int) int {
			switch fam, k := batchFamily(tier, b); fam {
			case "fork":
				return 200
			case "sized":
				return sizedPerBatch()
			case "conc":
				if k < concBatches(tier)/2 {
					return 120 // -race build
				}
				return 400
			}
			return casesPerBatch(tier)
		},
		RaceBatch: func(tier string, b int) bool {
			fam, k := batchFamily(tier, b)
			return fam == "conc" && k < concBatches(tier)/2
		},
		Run: func(w *vrt.W) {
			calibrate()
			w.Max("cost.measured_growth_per_equal_leading_field_x100", int64(growth*100))
			fam, k := batchFamily(w.Tier, w.Batch)
			for i := w.From; i < w.To; i++ {
				switch fam {
				case "fork":
					runForkCase(w, i)
				case "sized":
					runSizedCase(w, i, k)
				case "conc":
					runConcCase(w, i)
				default:
					runCase(w, i)
				}
			}
		},
		Rule: "case = one Ord instance expression + one value pool + Sort/Min/Max runs driven by that instance. The expression is drawn by a PRNG over Given (13 numeric kinds and string), Time, Option, Seq, Slice, Ptr (lazy.Done|lazy.Call), Tuple1..21, HCons/HNil, ContraMap and GivenField (through id/half/neg/len/lower/floor/isDefined/tuple projection), New, FromCompare (results scaled by 1, 3, 2^40), as.Ord, Reversed and ThenComparing (primary = an order with ties, both on LessFunc- and CompareFunc-backed receivers), nested up to 3 combinators deep with every component type instantiated at any; global case number g forces catalogue entry g mod 37 (each instance, every tuple arity, an 18-element HCons chain) at nesting level 0,1,2(,3). The pool (>=24 quick / >=40 thorough values) holds random base values, copies in another representation, one single-position mutant per tuple component / sequence element of the first base value, all proper prefixes and an extension for sequence roots, and random further mutants; if values of the domain have storage (fp.Seq, []T, pointers at any depth), additionally one value without empty parts whose slices are windows of longer backing arrays, a fresh copy of it, and values sharing all their storage with it (one allocation context per pool) except for one sequence that is another window of the same array (same start shorter / longer, same content at another offset, overlapping window), the identical object once more, and mutants sharing every untouched part; NaN is never generated. Leaves: integers at both extremes of every width and around +-2^7..2^63, floats +-0/+-Inf/+-max/subnormals/neighbours of 1/beyond 2^53 and 2^64, strings with long shared prefixes, NULs, invalid UTF-8, substrings of one string; time.Time from year -1000 to 30000 incl. the zero Time, both ends of the int64-nanosecond window (1677-09-21 / 2262-04-11) to the nanosecond, pre-1970 instants with fractions, 5 locations, forged mutually consistent monotonic readings. On all ordered pairs and all triples: exactly one of Less(a,b), Less(b,a), Eqv(a,b); Less and Eqv transitive; Compare sign, LessEq, Min, Max consistent with Less; Less, Eqv and Compare equal to the reference order on the models (leaf <, instants, None/nil first, lexicographic with the shorter prefix first, function-then-order for ContraMap/GivenField, wrapped order for New/FromCompare/as.Ord, flipped for Reversed, primary-then-secondary for ThenComparing). Every leaf instance sits behind a call counter: one Less/Eqv/Compare/LessEq/Min/Max call may invoke the component instances at most 200 * 3^depth(expression) * size(a,b) times (logical budget, key <combinator>/exponential-comparisons); per run and wide product (Tuple10..21, HCons chain of 18) one designated deep case evaluates the first base value against its mutant at every position whatever it costs, other pairs whose estimated cost (calibrated by measuring Tuple6 vs Tuple12) is too high are skipped and counted. If the instance is consistent, seq|iterator|list.Sort/Min/Max run on inputs of length 0..200 drawn from the pool with replacement (random, pre-sorted, reversed, 1-3 distinct values); elements carry an identity tag so that permutation, untouched input, sortedness (by the instance and by the reference), least/greatest element and None-on-empty are decided exactly. distinct_nontrivial counts distinct (expression, pool) fingerprints of cases whose pool had at least one tie between different pool entries AND at least one strictly ordered pair exactly one position apart. Three more batch families follow the classic ones. FORK batches: one base instance VALUE (7 in 10: an order on one component of a product of 3..10 leaves, so that it has ties), a chain of 1..9 successive derivations of it and 2..4 further derivations of every chain member - ThenComparing with different tie-breakers (as receiver and as argument), Reversed, ContraMap through different functions, New, FromCompare (scales 1, 3, 2^40), as.Ord, Option, Seq, Slice, Ptr via lazy.Done|lazy.Call, TupleN at different positions with different companions, HCons as head or tail neighbour; half of the chains consist of one family only (ThenComparing most often, so that a value built by k = 0..9 successive ThenComparing calls is forked again by ThenComparing); all instances are kept (up to ~45), each is used on its pool right after it was built and compared with its own reference order (Less, Compare; Eqv, LessEq on a quarter of the pairs) only after ALL of them exist, in PRNG order, twice; a disagreement that a freshly built instance of the same expression does not show is keyed <combinator>/forked-instance-disturbed (Ord.ThenComparing, Ord.Reversed, ord.Option, ...). SIZED batches: domains with one fp.Seq / []T of exactly 0,1,7,8,9,15,16,17,31,32,33,63,64,65,100,128,129,257,1000 elements (root or below Option / Ptr / a tuple / an hlist) with a pool of neighbours (another representation, first / middle / last element changed, one shorter / longer, same first half, windows of one backing array) through the same pair / triple oracle, and Sort / Min / Max inputs of exactly those lengths. CONC batches (half of them in the -race build, DATA RACEs with a frame inside csgura/fp are violations race/<location>): ONE instance value (every third case contains the package-level ord.Time or ord.HNil) is used by 4..32 goroutines released together, each on its own private pool (all pairs, and seq.Sort by the instance) with PRNG runtime.Gosched() yields; every answer must equal what the same instance answered single-threaded beforehand (key <instance>/concurrent-use-differs).",
		Assumptions: []string{
			"component types are instantiated at any (boxed values); the generic library code is the same for every type argument",
			"functions given to ContraMap / GivenField / New / FromCompare / as.Ord are pure; compare functions return small or large magnitudes but never math.MinInt",
			"values are PRNG-sampled; NaN excluded (floats are not totally ordered with NaN)",
			"stability of Sort is not demanded",
			"an instance is a value: it may be used by any number of goroutines at once (each on its own values) and any number of further instances may be derived from it; neither may change what it or another instance answers (instances are package-level variables in the library and in derived code)",
			"the cost budget (200 * 3^depth * size component calls per call) separates polynomial from exponential behaviour only for products of about 12 or more fields",
		},
		Floors: func(tier string) map[string]int64 {
			min := int64(3)
			if tier == "thorough" {
				min = 20
			}
			fl := map[string]int64{
				"pairs.ties": 5000, "pairs.one_position_apart": 5000, "distinct": 500, "pairs.shared_prefix": 500, "pairs.proper_prefix": 100,
				"pairs.none_vs_some": 100, "then.ties_broken_by_secondary": 100, "ties.between_representations": 500, "ties.between_different_values": 500,
				"root.impl.LessFunc": 20, "root.impl.CompareFunc": 20,
				"sorts": 3000, "sort.inputs_with_duplicates": 500, "sort.inputs_already_sorted": 100, "sort.inputs_reversed": 100, "sort.inputs_empty": 50, "minmax.none_on_empty": 100,
			}
			// storage sharing: every slice-like kind in every window relation, identical pointers
			for k, v := range map[string]int64{"alias.values_with_shared_storage": 5000, "alias.variant_vs_origin.prefix": 500, "alias.variant_vs_origin.extend": 300,
				"alias.variant_vs_origin.shift": 300, "alias.variant_vs_origin.window": 300, "alias.variant_vs_origin.same": 300, "alias.pointer.identical": 200,
				"time.values_outside_int64_nanoseconds": 500, "time.values_before_1970_with_fraction": 100, "time.values_zero_time": 20, "time.values_year_below_1_or_above_9999": 100,
				"time.root_pairs_with_an_instant_outside_int64_nanoseconds": 500, "time.root_pairs_far_past_vs_far_future": 50} {
				fl[k] = v
			}
			for _, kind := range []string{"seq", "slice"} {
				for _, class := range []string{"identical", "same_start_different_length", "other_offset_equal_content", "other_offset_different_content"} {
					fl["alias."+kind+"."+class] = 200
				}
				fl["alias."+kind+".same_start_one_empty"] = 20
			}
			if dyn.MonoAvailable() {
				fl["time.values_with_monotonic_reading"] = 100
				fl["time.root_pairs_monotonic_vs_wall"] = 50
				fl["time.root_pairs_both_monotonic"] = 20
			}
			for _, n := range allNames() {
				fl["hit."+n] = min
			}
			for n := 1; n <= dyn.MaxArity; n++ {
				fl["allpos.ord.Tuple"+strconv.Itoa(n)] = 1
				if n >= deepFromArity {
					fl["deep.ord.Tuple"+strconv.Itoa(n)] = 1
				}
			}
			fl["deep.ord.HCons"] = 1
			// forks of one instance value: every chain length, every family, ThenComparing forked
			// after 0..9 successive ThenComparing calls, siblings that really order values differently
			fl["fork.cases"] = 350
			for k := 1; k <= 9; k++ {
				fl["fork.chain_length."+strconv.Itoa(k)] = 15
				fl["fork.pure_then_chain_of."+strconv.Itoa(k)] = 2
			}
			for k := 0; k <= 9; k++ {
				fl["fork.then_forked_after_successive_then_calls."+strconv.Itoa(k)] = 3
			}
			for _, f := range ordForkFamilies {
				fl["fork.family."+f] = 100
			}
			fl["fork.impl.LessFunc"] = 100
			fl["fork.impl.CompareFunc"] = 1000
			fl["fork.pairs_after_all_were_built"] = 500_000
			fl["fork.then_siblings_with_different_tie_breaks"] = 200
			fl["fork.value_pairs_on_which_two_siblings_differ"] = 50_000
			// sized pools / sized Sort inputs: every family at every length
			for _, f := range sizedFamilies {
				for _, n := range dyn.SizedLens {
					fl["sized."+f+"."+strconv.Itoa(n)] = 3
				}
			}
			for _, n := range dyn.SizedLens {
				fl["sort.sized_input."+strconv.Itoa(n)] = 3
			}
			// one instance value used by 4..32 goroutines at once
			fl["conc.cases"] = 800
			fl["conc.cases_with_16_or_more_goroutines"] = 250
			fl["conc.calls"] = 5_000_000
			fl["conc.sorts"] = 5000
			fl["conc.shared_package_level.ord.Time"] = 50
			fl["conc.shared_package_level.ord.HNil"] = 50
			return fl
		},
		Finish: func(tier string, m *vrt.Merged, cov map[string]any) {
			missing := []string{}
			for _, n := range allNames() {
				if m.Counters["hit."+n] == 0 {
					missing = append(missing, n)
				}
			}
			sort.Strings(missing)
			cov["instances_required"] = len(allNames())
			cov["instances_never_exercised"] = missing
			cov["instance_expressions"] = m.Counters["exprs"]
			cov["sorts_checked"] = m.Counters["sorts"]
			cov["pairs_with_shared_nonempty_prefix"] = m.Counters["pairs.shared_prefix"]
			cov["values_sharing_storage_with_another_pool_value"] = m.Counters["alias.values_with_shared_storage"]
			cov["time_values_outside_int64_nanoseconds"] = m.Counters["time.values_outside_int64_nanoseconds"]
			cov["time_monotonic_variant_available"] = dyn.MonoAvailable()
			cov["sized_container_lengths"] = dyn.SizedLens
			if cs, ok := cov["counters"].(map[string]int64); ok {
				least := map[string]int64{}
				for _, f := range sizedFamilies {
					least[f] = -1
					for _, n := range dyn.SizedLens {
						key := "sized." + f + "." + strconv.Itoa(n)
						if v := m.Counters[key]; least[f] < 0 || v < least[f] {
							least[f] = v
						}
						delete(cs, key) // 57 counters: summarised
					}
				}
				cov["sized_cases_per_length_at_least"] = least
			}
		},
	})
}
