// Fork, sized and concurrent cases of C10 (appended batches; the classic batches keep their
// PRNG streams).
package main

import (
	"fmt"
	"math/rand/v2"
	"runtime"
	"sort"
	"strconv"
	"strings"
	"sync"

	"verif/c09/dyn"
	"verif/vrt"

	"github.com/csgura/fp"
	"github.com/csgura/fp/seq"
)

func trunc(s string, n int) string {
	if len(s) > n {
		return s[:n] + "…"
	}
	return s
}

// ---- forks of instance values -------------------------------------------------------------
//
// An Ord instance is a value. ThenComparing, Reversed, ContraMap, New / FromCompare / as.Ord and
// the Option / Seq / Slice / Ptr / TupleN / HCons wrappers derive a new instance from it, and
// may be applied to the SAME value any number of times. A fork case (plan: dyn.GenForks) builds
// one base - mostly an order that looks at one component of a product, so that it has ties - a
// chain of 1..9 successive derivations and 2..4 more derivations of every chain member (for
// ThenComparing: different tie-breakers, on either side), keeps all instances, uses each right
// after it was built, and only when all of them exist compares each with its own reference order
// on all pairs of its pool, in PRNG order. A disagreement that a freshly built instance of the
// same expression (sharing nothing) does not show is <combinator>/forked-instance-disturbed.

var forkOrdCfg = &dyn.Cfg{Leaves: ordLeaves, MainLeaves: []string{"int", "string", "float64"}, Ops: ordOps, FieldLeaves: fieldLeaves, MaxDepth: 2, Budget: 10}

var ordForkCfg = &dyn.ForkCfg{
	Cfg:    forkOrdCfg,
	// ThenComparing is the one derivation that takes an instance argument: it gets the weight
	Chain: []string{dyn.FamThen, dyn.FamThen, dyn.FamThen, dyn.FamThen, dyn.FamThen, dyn.FamThen, dyn.FamThenArg, dyn.FamThenArg, dyn.FamReversed, dyn.FamReversed,
		dyn.FamFromCompare, dyn.FamNew, dyn.FamAsOrd, dyn.FamContra},
	Wrap:   []string{dyn.FamOption, dyn.FamSeq, dyn.FamSlice, dyn.FamPtr, dyn.FamTuple, dyn.FamHCons},
	Costly: []string{dyn.FamNew, dyn.FamAsOrd, dyn.FamContra},
}

var ordForkFamilies = []string{dyn.FamThen, dyn.FamThenArg, dyn.FamReversed, dyn.FamFromCompare, dyn.FamNew, dyn.FamAsOrd, dyn.FamContra,
	dyn.FamOption, dyn.FamSeq, dyn.FamSlice, dyn.FamPtr, dyn.FamTuple, dyn.FamHCons}

type forkPool struct {
	pool []dyn.Entry
	x    []V
}

func (p *forkPool) show(dom *dyn.Shape, i int) string { return trunc(dyn.Show(dom, p.pool[i].M), 400) }

func planStr(plan *dyn.ForkPlan) []string {
	out := make([]string, len(plan.Nodes))
	for k, nd := range plan.Nodes {
		out[k] = fmt.Sprintf("#%d (from #%d by %q, %d derivations from the base, on the chain: %v) %s", k, nd.Parent, nd.Family, nd.Level, nd.OnChain, trunc(nd.Expr.Format(staticName), 300))
	}
	return out
}

func runForkCase(w *vrt.W, i int) {
	r := w.Rand(i)
	var base *dyn.Expr
	if r.IntN(10) < 7 {
		dom := dyn.ForkTupleDom(r, forkOrdCfg)
		base = dyn.Comparator(r, forkOrdCfg, dom, r.IntN(len(dom.Kids)))
	} else {
		base = dyn.GenExpr(r, forkOrdCfg, nil)
	}
	plan := dyn.GenForks(r, ordForkCfg, base)
	nodes := plan.Nodes
	pools := map[*dyn.Shape]*forkPool{}
	for _, nd := range nodes {
		dom := nd.Expr.Dom
		if pools[dom] != nil {
			continue
		}
		p := &forkPool{pool: dyn.GenPool(r, dom, 8)}
		ctx := dyn.NewCtx()
		for _, en := range p.pool {
			p.x = append(p.x, ctx.Build(dom, en.M))
		}
		pools[dom] = p
	}
	wit := func(k int, idx ...int) any {
		nd := nodes[k]
		p := pools[nd.Expr.Dom]
		vals := map[string]string{}
		for j, x := range idx {
			vals[string(rune('a'+j))] = p.show(nd.Expr.Dom, x)
		}
		return map[string]any{"instance": "#" + strconv.Itoa(k), "values": vals, "domain": nd.Expr.Dom.String(), "instances_in_creation_order": planStr(plan), "chain_length": plan.ChainLen}
	}
	// what instance in answers on pool pair (a, b) of node k against the reference; "" = agrees
	disagrees := func(in fp.Ord[V], k, a, b int) (out string) {
		defer func() { // a panic is a disagreement like any other: the reference does not panic
			if p := recover(); p != nil {
				if _, isBudget := p.(vrt.BudgetExceeded); isBudget {
					panic(p)
				}
				out = fmt.Sprintf("the call panicked: %v", p)
			}
		}()
		nd := nodes[k]
		p := pools[nd.Expr.Dom]
		want := dyn.RefCmp(nd.Expr, p.pool[a].M, p.pool[b].M)
		x, y := p.x[a], p.x[b]
		less, cmp := in.Less(x, y), in.Compare(x, y)
		eqv, le := want == 0, want <= 0
		if (a+b)%4 == 0 { // Eqv / LessEq are derived from Compare or Less: on a quarter of the pairs
			eqv, le = in.Eqv(x, y), in.LessEq(x, y)
		}
		if less != (want < 0) || sign(cmp) != want || eqv != (want == 0) || le != (want <= 0) {
			return fmt.Sprintf("Less(a,b)=%v Compare(a,b)=%d Eqv(a,b)=%v LessEq(a,b)=%v, the reference order says %d (-1: a<b, 0: equivalent, +1: a>b)", less, cmp, eqv, le, want)
		}
		return ""
	}
	firstDisN := func(in fp.Ord[V], k, stride int) (string, int, int, int) {
		n := len(pools[nodes[k].Expr.Dom].pool)
		cnt := 0
		for a := 0; a < n; a++ {
			for b := 0; b < n; b++ {
				// stride 1: every unordered pair once, orientation by parity; else a sample of all
				if stride > 1 && (a*n+b)%stride != 0 {
					continue
				}
				if stride == 1 && ((a < b) == ((a+b)%2 == 0)) && a != b {
					continue
				}
				cnt++
				if d := disagrees(in, k, a, b); d != "" {
					return d, a, b, cnt
				}
			}
		}
		return "", -1, -1, cnt
	}
	fresh := func(e *dyn.Expr) (fp.Ord[V], *registry) {
		reg := &registry{map[*dyn.Expr]fp.Ord[V]{}, map[*dyn.Expr]string{}}
		return buildOrd(e, reg), reg
	}
	plain := func(k, a, b int, detail string, freg *registry) {
		nd := nodes[k]
		p := pools[nd.Expr.Dom]
		site := (&caseT{reg: freg}).blame(nd.Expr, p.pool[a].M, p.pool[b].M)
		w.Violation(i, site+"/order-differs-from-reference", detail+" (a freshly built instance of the same expression, sharing nothing, answers the same)\ninstance: "+trunc(nd.Expr.Format(staticName), 600)+
			"\na = "+p.show(nd.Expr.Dom, a)+"\nb = "+p.show(nd.Expr.Dom, b), wit(k, a, b))
	}
	disturbed := func(k, a, b int, detail, when string) {
		nd := nodes[k]
		p := pools[nd.Expr.Dom]
		w.Violation(i, staticName(nd.Expr)+"/forked-instance-disturbed",
			fmt.Sprintf("instance #%d (derived from #%d by %q) %s: %s\na = %s\nb = %s\n(a freshly built instance of the same expression, sharing nothing, agrees with the reference)\n%s",
				k, nd.Parent, nd.Family, when, detail, p.show(nd.Expr.Dom, a), p.show(nd.Expr.Dom, b), strings.Join(planStr(plan), "\n")), wit(k, a, b))
	}
	w.Begin(i, "Ord/forks")
	w.Guard(i, func() any { return map[string]any{"instances_in_creation_order": planStr(plan)} }, func() {
		reg := &registry{map[*dyn.Expr]fp.Ord[V]{}, map[*dyn.Expr]string{}}
		insts := make([]fp.Ord[V], len(nodes))
		// phase A: build in creation order, use every new instance at once
		for k, nd := range nodes {
			w.Site(staticName(nd.Expr))
			insts[k] = buildOrd(nd.Expr, reg)
			w.Hit(reg.name[nd.Expr])
			p := pools[nd.Expr.Dom]
			for t := 0; t < 3; t++ {
				a, b := r.IntN(len(p.x)), r.IntN(len(p.x))
				if d := disagrees(insts[k], k, a, b); d != "" {
					f, freg := fresh(nd.Expr)
					if disagrees(f, k, a, b) != "" {
						plain(k, a, b, d, freg)
					} else {
						disturbed(k, a, b, d, "disagrees with its own reference right after it was built")
					}
					return
				}
			}
			w.Add("fork.instances", 1)
			w.Add("fork.family."+nd.Family, 1)
			w.Add("fork.impl."+implOf(insts[k]), 1)
		}
		// values that were themselves built by k successive ThenComparing calls and have two or
		// more ThenComparing results derived from them (whatever grows inside such an instance
		// has passed k steps when it is forked)
		thenKids := make([]int, len(nodes))
		for _, nd := range nodes {
			if nd.Family == dyn.FamThen {
				thenKids[nd.Parent]++
			}
		}
		for k := range nodes {
			if thenKids[k] < 2 {
				continue
			}
			run := 0
			for q := k; q > 0 && nodes[q].Family == dyn.FamThen; q = nodes[q].Parent {
				run++
			}
			w.Add("fork.then_forked_after_successive_then_calls."+strconv.Itoa(run), 1)
		}
		// how telling the forks are: sibling derivations of one value whose reference orders differ
		for k := 1; k < len(nodes); k++ {
			for q := k + 1; q < len(nodes) && q < k+4; q++ {
				if nodes[q].Parent != nodes[k].Parent || nodes[q].Expr.Dom != nodes[k].Expr.Dom {
					continue
				}
				p := pools[nodes[k].Expr.Dom]
				diff := 0
				for a := range p.pool {
					for b := range p.pool {
						if dyn.RefCmp(nodes[k].Expr, p.pool[a].M, p.pool[b].M) != dyn.RefCmp(nodes[q].Expr, p.pool[a].M, p.pool[b].M) {
							diff++
						}
					}
				}
				if diff > 0 {
					w.Add("fork.sibling_pairs_of_instances_ordering_some_values_differently", 1)
					w.Add("fork.value_pairs_on_which_two_siblings_differ", int64(diff))
					if nodes[k].Family == dyn.FamThen && nodes[q].Family == dyn.FamThen {
						w.Add("fork.then_siblings_with_different_tie_breaks", 1)
						w.Add("fork.then_siblings_on_a_chain_of."+strconv.Itoa(nodes[k].Level), 1)
					}
				}
			}
		}
		// phase B: all instances exist and were used; each against its own reference, PRNG order
		for pass := 0; pass < 2; pass++ {
			for _, k := range r.Perm(len(nodes)) {
				w.Site(staticName(nodes[k].Expr))
				stride := 1
				if pass > 0 {
					stride = 5
				}
				d, a, b, cnt := firstDisN(insts[k], k, stride)
				w.Add("fork.pairs_after_all_were_built", int64(cnt))
				if d == "" {
					continue
				}
				f, freg := fresh(nodes[k].Expr)
				if disagrees(f, k, a, b) != "" {
					plain(k, a, b, d, freg)
					return
				}
				// the innermost kept instance that is disturbed (parents come first)
				for q := 0; q <= k; q++ {
					qd, qa, qb, _ := firstDisN(insts[q], q, 1)
					if qd == "" {
						continue
					}
					if qf, _ := fresh(nodes[q].Expr); disagrees(qf, q, qa, qb) != "" {
						continue
					}
					disturbed(q, qa, qb, qd, "no longer agrees with its own reference after the other instances were derived from the same values and used")
					return
				}
				return
			}
		}
	})
	w.Done(i)
	w.Add("fork.cases", 1)
	w.Add("fork.chain_length."+strconv.Itoa(plan.ChainLen), 1)
	if plan.Pure != "" {
		w.Add("fork.pure_chain."+plan.Pure, 1)
		if plan.Pure == dyn.FamThen {
			w.Add("fork.pure_then_chain_of."+strconv.Itoa(plan.ChainLen), 1)
		}
	}
	w.Max("fork.max_instances_kept", int64(len(nodes)))
	if len(nodes) >= 12 {
		w.Distinct("fork:" + strings.Join(planStr(plan), "|"))
	}
	if w.WantSample() && i%97 == 0 {
		w.Sample(map[string]any{"kind": "forks of one instance value", "instances_in_creation_order": planStr(plan)})
	}
}

// ---- sized pools and sized Sort inputs ----------------------------------------------------

var sizedLeaves = []string{"int", "string", "float64", "uint8", "int64"}
var sizedWrappers = []dyn.Kind{dyn.KOption, dyn.KPtr, dyn.KTuple, dyn.KHList}
var sizedFamilies = []string{"seq", "slice", "sort-input"}

func sizedPerBatch() int { return len(sizedFamilies) * len(dyn.SizedLens) * 2 }

func runSizedCase(w *vrt.W, i, sizedBatch int) {
	g := sizedBatch*sizedPerBatch() + i
	fam := sizedFamilies[g%len(sizedFamilies)]
	n := dyn.SizedLens[(g/len(sizedFamilies))%len(dyn.SizedLens)]
	r := w.Rand(i)
	reg := func() *registry { return &registry{map[*dyn.Expr]fp.Ord[V]{}, map[*dyn.Expr]string{}} }
	w.Add("sized."+fam+"."+strconv.Itoa(n), 1)
	w.Add("sized.cases", 1)
	if fam == "sort-input" {
		// a cheap order over small values; Sort / Min / Max inputs of exactly n elements
		e := dyn.GenExpr(r, &dyn.Cfg{Leaves: ordLeaves, MainLeaves: ordCfg.MainLeaves, Ops: ordOps, FieldLeaves: fieldLeaves, MaxDepth: 2, Budget: 8}, nil)
		checkPoolCase(&caseT{w: w, idx: i, e: e, pool: dyn.GenPool(r, e.Dom, 16), reg: reg(), sortLens: []int{n}}, 1)
		return
	}
	kind := dyn.KSeq
	if fam == "slice" {
		kind = dyn.KSlice
	}
	dom := dyn.SizedShape(r, kind, sizedLeaves, sizedWrappers)
	e := dyn.Natural(dom)
	pool := dyn.GenPoolSized(r, dom, n)
	if got := dyn.SizedLen(dom, pool[0].M); got != n {
		panic(fmt.Sprintf("c10: HARNESS BUG: sized value has %d elements, wanted %d", got, n))
	}
	// the elements of a Sort input are whole sized values here: short inputs only
	checkPoolCase(&caseT{w: w, idx: i, e: e, pool: pool, reg: reg(), estLimit: 5_000_000, sortLens: []int{0, 1, 2, 3, 9}}, 2)
}

// ---- one instance value used by many goroutines --------------------------------------------

type concGo struct {
	pool   []dyn.Entry
	x      []V
	yield  []bool
	seqCmp [][]int8 // sign of Compare, single-threaded beforehand
	seqSrt []int    // ids of seq.Sort's output, single-threaded beforehand
	bad    string   // first difference seen by the goroutine
	badA   int
	badB   int
	panicS string
}

type concObs struct {
	less, eqv, le bool
	cmp           int
}

func observe(in fp.Ord[V], a, b V) concObs {
	return concObs{in.Less(a, b), in.Eqv(a, b), in.LessEq(a, b), sign(in.Compare(a, b))}
}

func concRun(G int, body func(g int)) {
	start := make(chan struct{})
	var wg sync.WaitGroup
	for g := 0; g < G; g++ {
		wg.Add(1)
		go func(g int) {
			defer wg.Done()
			<-start
			body(g)
		}(g)
	}
	close(start)
	wg.Wait()
}

// concExperiment: G goroutines use the one instance value on goroutine-private pools.
func concExperiment(r *rand.Rand, dom *dyn.Shape, in fp.Ord[V], G, poolN, rounds int, withSort bool) []*concGo {
	gs := make([]*concGo, G)
	to := tagOrd{in}
	for g := range gs {
		cg := &concGo{pool: dyn.GenPool(r, dom, poolN), badA: -1, badB: -1}
		ctx := dyn.NewCtx()
		for _, en := range cg.pool {
			cg.x = append(cg.x, ctx.Build(dom, en.M))
		}
		n := len(cg.x)
		cg.yield = make([]bool, 64)
		for k := range cg.yield {
			cg.yield[k] = r.IntN(3) == 0
		}
		// the sequential reference: the very same instance, single-threaded, beforehand
		cg.seqCmp = make([][]int8, n)
		for a := 0; a < n; a++ {
			cg.seqCmp[a] = make([]int8, n)
			for b := 0; b < n; b++ {
				o := observe(in, cg.x[a], cg.x[b])
				cg.seqCmp[a][b] = int8(o.cmp)
			}
		}
		if withSort {
			cg.seqSrt = ids(seq.Sort(taggedSeq(cg.x), to))
		}
		gs[g] = cg
	}
	concRun(G, func(g int) {
		cg := gs[g]
		defer func() {
			if p := recover(); p != nil {
				cg.panicS = fmt.Sprint(p)
			}
		}()
		n, step := len(cg.x), 0
		tick := func() {
			if cg.yield[step%len(cg.yield)] {
				runtime.Gosched()
			}
			step++
		}
		for round := 0; round < rounds; round++ {
			for a := 0; a < n; a++ {
				for b := 0; b < n; b++ {
					if (a+b+round)%3 == 0 {
						tick()
					}
					o := observe(in, cg.x[a], cg.x[b])
					want := int(cg.seqCmp[a][b])
					if cg.bad == "" && (o.cmp != want || o.less != (want < 0) || o.eqv != (want == 0) || o.le != (want <= 0)) {
						cg.bad = fmt.Sprintf("Less=%v Eqv=%v LessEq=%v sign(Compare)=%d under concurrent use; single-threaded beforehand the same instance said %d", o.less, o.eqv, o.le, o.cmp, want)
						cg.badA, cg.badB = a, b
					}
				}
			}
			if withSort {
				tick()
				got := ids(seq.Sort(taggedSeq(cg.x), to))
				if cg.bad == "" && !sameInts(got, cg.seqSrt) {
					cg.bad = fmt.Sprintf("seq.Sort by the instance returned the elements in the order %v under concurrent use, %v single-threaded beforehand", got, cg.seqSrt)
				}
			}
		}
	})
	return gs
}

func taggedSeq(xs []V) fp.Seq[tagged] {
	s := make(fp.Seq[tagged], len(xs))
	for i, v := range xs {
		s[i] = tagged{v, i}
	}
	return s
}

func concBad(gs []*concGo) int {
	for g, cg := range gs {
		if cg.panicS != "" || cg.bad != "" {
			return g
		}
	}
	return -1
}

// concRoots: the package-level instance VALUES of package ord.
var concRoots = []forced{{dyn.OpTime, -1, ""}, {dyn.OpHList, 0, ""}}

func runConcCase(w *vrt.W, i int) {
	r := w.Rand(i)
	small := &dyn.Cfg{Leaves: ordLeaves, MainLeaves: ordCfg.MainLeaves, Ops: ordOps, FieldLeaves: fieldLeaves, MaxDepth: 2, Budget: 16}
	var e *dyn.Expr
	rootName := ""
	if i%3 == 0 {
		f := concRoots[(i/3+w.Batch)%len(concRoots)]
		e = dyn.GenExpr(r, small, &dyn.Force{Op: f.op, Arity: f.arity, Leaf: f.leaf, At: r.IntN(3)})
		rootName = map[dyn.Op]string{dyn.OpTime: "ord.Time", dyn.OpHList: "ord.HNil"}[f.op]
	} else {
		e = dyn.GenExpr(r, small, nil)
	}
	G := 4 + r.IntN(29)
	exprStr := e.Format(staticName)
	w.Begin(i, staticName(e))
	wit := map[string]any{"expr": exprStr, "goroutines": G, "domain": e.Dom.String(), "note": "pools are rebuilt from the case PRNG; the interleaving is the scheduler's"}
	counting = false // the goroutines must not share the call counter
	w.Guard(i, func() any { return wit }, func() {
		reg := &registry{map[*dyn.Expr]fp.Ord[V]{}, map[*dyn.Expr]string{}}
		in := buildOrd(e, reg)
		hits(w, e, reg)
		gs := concExperiment(r, e.Dom, in, G, 5, 2, true)
		calls := 0
		for _, cg := range gs {
			calls += 2 * 4 * len(cg.x) * len(cg.x)
		}
		w.Add("conc.calls", int64(calls))
		w.Add("conc.sorts", int64(2*G))
		g := concBad(gs)
		if g < 0 {
			return
		}
		cg := gs[g]
		// which instance? the smallest sub-instance (the very values inside this expression)
		// that shows a difference in a concurrent experiment of its own; else the root
		type sub struct {
			e    *dyn.Expr
			size int
		}
		var subs []sub
		seen := map[*dyn.Expr]bool{}
		e.Walk(func(x *dyn.Expr) {
			if x != e && !seen[x] {
				seen[x] = true
				n := 0
				x.Walk(func(*dyn.Expr) { n++ })
				subs = append(subs, sub{x, n})
			}
		})
		sort.SliceStable(subs, func(a, b int) bool { return subs[a].size < subs[b].size })
		blamed := reg.name[e]
		for _, sb := range subs {
			si := reg.inst[sb.e]
			if si == nil {
				continue
			}
			found := false
			for t := 0; t < 3 && !found; t++ {
				found = concBad(concExperiment(r, sb.e.Dom, si, 8+r.IntN(9), 4, 6, false)) >= 0
			}
			if found {
				blamed = reg.name[sb.e]
				break
			}
		}
		detail := cg.bad
		if cg.panicS != "" {
			detail = "a call panicked: " + cg.panicS
		}
		if cg.badA >= 0 {
			detail += "\na = " + trunc(dyn.Show(e.Dom, cg.pool[cg.badA].M), 400) + "\nb = " + trunc(dyn.Show(e.Dom, cg.pool[cg.badB].M), 400)
		}
		w.Violation(i, blamed+"/concurrent-use-differs", fmt.Sprintf("%d goroutines used ONE instance value on their own private values at the same time; goroutine %d: %s\ninstance: %s", G, g, detail, exprStr), wit)
	})
	counting = true
	w.Done(i)
	w.Add("conc.cases", 1)
	w.Add("conc.goroutines", int64(G))
	w.Max("conc.max_goroutines", int64(G))
	if G >= 16 {
		w.Add("conc.cases_with_16_or_more_goroutines", 1)
	}
	if rootName != "" {
		w.Add("conc.shared_package_level."+rootName, 1)
	}
}

var _ = vrt.Hash64
