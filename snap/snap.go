// Package snap is the reflect-based storage walker shared by the checks that reason about
// aliasing and mutation (C18 Clone, C04 persistence, C08 derived Clone).
//
// It answers three questions about arbitrary Go values, including values with unexported
// fields (fp.Option, hlist.Cons, …):
//
//	Snapshot(v)   – a canonical deep rendering of everything reachable from v. Two values
//	                are structurally equal iff their snapshots are equal. nil and empty
//	                slices/maps render alike; map entries are sorted; pointers are followed
//	                (identity of pointers is deliberately NOT part of the snapshot).
//	Reachable(v)  – the mutable storage reachable from v: memory ranges of pointer targets
//	                and of slice backing arrays (cap > 0), and the identities of Go maps and
//	                channels. Zero-sized targets are skipped: Go gives all of them the same
//	                address and they hold no state. String data is immutable and skipped.
//	Shared(a, b)  – the storage that two Reach sets have in common (overlap of memory ranges,
//	                so a pointer into the middle of a shared array is found too).
//	Scramble(v)   – overwrite every mutable location reachable from v (every scalar leaf is
//	                changed, nil/empty containers become non-empty) – the behavioural side of
//	                "no shared mutable storage": scramble one value and the snapshot of the
//	                other must not move.
//
// All entry points take a reflect.Value obtained from an exported path (use Of to get an
// addressable copy of any Go value). Cyclic values are supported (cycles render as "↺").
package snap

import (
	"fmt"
	"math"
	"reflect"
	"sort"
	"strconv"
	"strings"
	"unsafe"
)

// Of returns an addressable reflect.Value holding a shallow copy of *p's content – i.e. the
// value itself, sharing everything it points to.  Use: snap.Of(&x).
func Of[T any](p *T) reflect.Value { return reflect.ValueOf(p).Elem() }

// Addressable returns v itself when it is addressable, else an addressable shallow copy.
// v must not stem from an unexported field (the walker never hands such values out).
func Addressable(v reflect.Value) reflect.Value {
	if v.CanAddr() {
		return v
	}
	t := reflect.New(v.Type()).Elem()
	t.Set(v)
	return t
}

// Field returns field i of the addressable struct s as a settable value, also when the field
// is unexported (the read-only flag is cleared through the field's address).
func Field(s reflect.Value, i int) reflect.Value { return field(s, i) }

func field(s reflect.Value, i int) reflect.Value {
	f := s.Field(i)
	if f.CanSet() {
		return f
	}
	return reflect.NewAt(f.Type(), unsafe.Pointer(f.UnsafeAddr())).Elem()
}

// ---- snapshot -----------------------------------------------------------------------------

// Snapshot renders everything reachable from v canonically (see package comment).
func Snapshot(v reflect.Value) string {
	var b strings.Builder
	s := snapper{b: &b, onPath: map[visitKey]bool{}}
	s.render(v)
	return b.String()
}

type visitKey struct {
	p unsafe.Pointer
	t reflect.Type
}

type snapper struct {
	b      *strings.Builder
	onPath map[visitKey]bool
}

func (s *snapper) render(v reflect.Value) {
	b := s.b
	if !v.IsValid() {
		b.WriteString("<invalid>")
		return
	}
	switch v.Kind() {
	case reflect.Bool:
		if v.Bool() {
			b.WriteString("true")
		} else {
			b.WriteString("false")
		}
	case reflect.Int, reflect.Int8, reflect.Int16, reflect.Int32, reflect.Int64:
		b.WriteString(strconv.FormatInt(v.Int(), 10))
	case reflect.Uint, reflect.Uint8, reflect.Uint16, reflect.Uint32, reflect.Uint64, reflect.Uintptr:
		b.WriteString(strconv.FormatUint(v.Uint(), 10))
		b.WriteByte('u')
	case reflect.Float32, reflect.Float64:
		// by bits, so that NaN equals itself and -0 differs from +0
		fmt.Fprintf(b, "f%x", math.Float64bits(v.Float()))
	case reflect.Complex64, reflect.Complex128:
		c := v.Complex()
		fmt.Fprintf(b, "c%x,%x", math.Float64bits(real(c)), math.Float64bits(imag(c)))
	case reflect.String:
		b.WriteString(strconv.Quote(v.String()))
	case reflect.Pointer:
		if v.IsNil() {
			b.WriteString("nil")
			return
		}
		k := visitKey{v.UnsafePointer(), v.Type()}
		if s.onPath[k] {
			b.WriteString("↺")
			return
		}
		s.onPath[k] = true
		b.WriteString("&")
		s.render(v.Elem())
		delete(s.onPath, k)
	case reflect.Slice:
		// nil ≡ empty
		n := v.Len()
		if n == 0 {
			b.WriteString("[]")
			return
		}
		k := visitKey{v.UnsafePointer(), v.Type()}
		if s.onPath[k] {
			b.WriteString("↺")
			return
		}
		s.onPath[k] = true
		b.WriteByte('[')
		for i := 0; i < n; i++ {
			if i > 0 {
				b.WriteByte(',')
			}
			s.render(v.Index(i))
		}
		b.WriteByte(']')
		delete(s.onPath, k)
	case reflect.Array:
		v = Addressable(v)
		b.WriteString("[")
		for i := 0; i < v.Len(); i++ {
			if i > 0 {
				b.WriteByte(',')
			}
			s.render(v.Index(i))
		}
		b.WriteString("]a")
	case reflect.Map:
		// nil ≡ empty; entries sorted by rendered key
		if v.Len() == 0 {
			b.WriteString("{}")
			return
		}
		k := visitKey{v.UnsafePointer(), v.Type()}
		if s.onPath[k] {
			b.WriteString("↺")
			return
		}
		s.onPath[k] = true
		type ent struct{ k, v string }
		es := make([]ent, 0, v.Len())
		it := v.MapRange()
		for it.Next() {
			es = append(es, ent{Snapshot(it.Key()), ""})
			var vb strings.Builder
			sub := snapper{b: &vb, onPath: s.onPath}
			sub.render(it.Value())
			es[len(es)-1].v = vb.String()
		}
		sort.Slice(es, func(i, j int) bool {
			if es[i].k != es[j].k {
				return es[i].k < es[j].k
			}
			return es[i].v < es[j].v
		})
		b.WriteByte('{')
		for i, e := range es {
			if i > 0 {
				b.WriteByte(',')
			}
			b.WriteString(e.k)
			b.WriteByte(':')
			b.WriteString(e.v)
		}
		b.WriteByte('}')
		delete(s.onPath, k)
	case reflect.Struct:
		v = Addressable(v)
		b.WriteByte('(')
		for i := 0; i < v.NumField(); i++ {
			if i > 0 {
				b.WriteByte(' ')
			}
			s.render(field(v, i))
		}
		b.WriteByte(')')
	case reflect.Interface:
		if v.IsNil() {
			b.WriteString("nil-iface")
			return
		}
		e := v.Elem()
		b.WriteString("<" + e.Type().String() + ">")
		s.render(e)
	case reflect.Func:
		if v.IsNil() {
			b.WriteString("nil-func")
		} else {
			b.WriteString("func")
		}
	case reflect.Chan:
		if v.IsNil() {
			b.WriteString("nil-chan")
		} else {
			b.WriteString("chan")
		}
	case reflect.UnsafePointer:
		b.WriteString("unsafe-pointer")
	default:
		b.WriteString("?" + v.Kind().String())
	}
}

// ---- reachable storage --------------------------------------------------------------------

// Region is one piece of mutable storage: the target of a pointer or the backing array of a
// slice, as the half-open address range [Start, End).
type Region struct {
	Start, End uintptr
	Kind       string // "ptr" or "slice"
	Type       string // Go type of the pointer / slice
	Path       string // first access path on which it was reached, e.g. ".I2[3]*"
	Times      int    // how often it was reached (≥2: the value is internally aliased)
}

// Reach is the mutable storage reachable from a value.
type Reach struct {
	Regions []Region           // pointer targets and slice backing arrays (non-zero size)
	Maps    map[uintptr]string // Go maps and channels by identity -> first access path
	// Depth is the largest number of indirections (pointer hops, descents into a non-empty
	// slice, descents into a non-empty map) on any path.
	Depth int
	// Aliased counts storage reached more than once (same pointer / same backing array /
	// same map through two paths), Overlaps counts pairs of distinct regions that overlap in
	// memory (sub-slices of one array, pointer into an array).
	Aliased  int
	Overlaps int
	// NilPtr, NilSlice, EmptySlice, NilMap, EmptyMap, ZeroSized count the special cases met.
	NilPtr, NilSlice, EmptySlice, NilMap, EmptyMap, ZeroSized int
	// KeyStorage counts the pieces of storage that were first reached through a map KEY
	// (pointer targets inside keys: map[*T]V, map[struct{…*T…}]V): keys are reachable storage
	// like any other component.
	KeyStorage int
	// Holder keeps the walked value alive while the addresses are in use.
	Holder any
}

type regKey struct {
	start    uintptr
	len, cap int // -1 for pointer targets
	t        reflect.Type
}

type walker struct {
	r       *Reach
	regIdx  map[regKey]int
	mapSeen map[uintptr]int
}

// Reachable walks v and collects the mutable storage reachable from it.
func Reachable(v reflect.Value) *Reach {
	w := walker{r: &Reach{Maps: map[uintptr]string{}, Holder: v}, regIdx: map[regKey]int{}, mapSeen: map[uintptr]int{}}
	w.walk(v, "", 0)
	r := w.r
	for _, n := range w.mapSeen {
		if n > 1 {
			r.Aliased++
		}
	}
	for i := range r.Regions {
		if r.Regions[i].Times > 1 {
			r.Aliased++
		}
	}
	r.Overlaps = len(overlaps(r.Regions, nil, true))
	for i := range r.Regions {
		if strings.Contains(r.Regions[i].Path, "{key}") {
			r.KeyStorage++
		}
	}
	for _, p := range r.Maps {
		if strings.Contains(p, "{key}") {
			r.KeyStorage++
		}
	}
	return r
}

func (w *walker) depth(d int) {
	if d > w.r.Depth {
		w.r.Depth = d
	}
}

func (w *walker) walk(v reflect.Value, path string, d int) {
	switch v.Kind() {
	case reflect.Pointer:
		if v.IsNil() {
			w.r.NilPtr++
			return
		}
		size := v.Type().Elem().Size()
		if size == 0 {
			w.r.ZeroSized++
			return
		}
		w.depth(d + 1)
		start := uintptr(v.UnsafePointer())
		k := regKey{start, -1, -1, v.Type()}
		if i, ok := w.regIdx[k]; ok {
			w.r.Regions[i].Times++
			return
		}
		w.regIdx[k] = len(w.r.Regions)
		w.r.Regions = append(w.r.Regions, Region{start, start + size, "ptr", v.Type().String(), path + "*", 1})
		w.walk(v.Elem(), path+"*", d+1)
	case reflect.Slice:
		if v.IsNil() {
			w.r.NilSlice++
			return
		}
		if v.Len() == 0 {
			w.r.EmptySlice++
		}
		es := v.Type().Elem().Size()
		if v.Cap() == 0 {
			return
		}
		if es == 0 {
			w.r.ZeroSized++
			return
		}
		if v.Len() > 0 {
			w.depth(d + 1)
		}
		// identity of a slice: data pointer, cap and type (two views of different extent are
		// two regions that overlap)
		start := uintptr(v.UnsafePointer())
		k := regKey{start, v.Len(), v.Cap(), v.Type()}
		if i, ok := w.regIdx[k]; ok {
			w.r.Regions[i].Times++
			return
		}
		w.regIdx[k] = len(w.r.Regions)
		w.r.Regions = append(w.r.Regions, Region{start, start + es*uintptr(v.Cap()), "slice", v.Type().String(), path + "[]", 1})
		for i := 0; i < v.Len(); i++ {
			w.walk(v.Index(i), path+"["+strconv.Itoa(i)+"]", d+1)
		}
	case reflect.Array:
		v = Addressable(v)
		for i := 0; i < v.Len(); i++ {
			w.walk(v.Index(i), path+"["+strconv.Itoa(i)+"]", d)
		}
	case reflect.Map:
		if v.IsNil() {
			w.r.NilMap++
			return
		}
		if v.Len() == 0 {
			w.r.EmptyMap++
		} else {
			w.depth(d + 1)
		}
		id := uintptr(v.UnsafePointer())
		w.mapSeen[id]++
		if _, ok := w.r.Maps[id]; ok {
			return
		}
		w.r.Maps[id] = path + "{}"
		it := v.MapRange()
		for it.Next() {
			w.walk(it.Key(), path+"{key}", d+1)
			w.walk(it.Value(), path+"{"+short(it.Key())+"}", d+1)
		}
	case reflect.Chan:
		if v.IsNil() {
			return
		}
		id := uintptr(v.UnsafePointer())
		w.mapSeen[id]++
		if _, ok := w.r.Maps[id]; !ok {
			w.r.Maps[id] = path + "<chan>"
		}
	case reflect.Struct:
		v = Addressable(v)
		t := v.Type()
		for i := 0; i < v.NumField(); i++ {
			w.walk(field(v, i), path+"."+t.Field(i).Name, d)
		}
	case reflect.Interface:
		if !v.IsNil() {
			w.walk(v.Elem(), path, d)
		}
	}
}

func short(k reflect.Value) string {
	s := Snapshot(k)
	if len(s) > 16 {
		s = s[:16] + "…"
	}
	return s
}

// SharedItem describes one piece of storage reachable from both values.
type SharedItem struct {
	Kind         string // "ptr", "slice", "map", or "ptr/slice" for mixed overlaps
	Type         string
	PathA, PathB string
}

func (s SharedItem) String() string {
	return fmt.Sprintf("%s %s reachable at a%s and at b%s", s.Kind, s.Type, s.PathA, s.PathB)
}

// Shared lists the storage reachable from both a and b: overlapping memory ranges and
// identical maps/channels.  Empty result = the two values share no mutable storage.
func Shared(a, b *Reach) []SharedItem {
	out := overlaps(a.Regions, b.Regions, false)
	ids := make([]uintptr, 0)
	for id := range a.Maps {
		if _, ok := b.Maps[id]; ok {
			ids = append(ids, id)
		}
	}
	sort.Slice(ids, func(i, j int) bool { return a.Maps[ids[i]] < a.Maps[ids[j]] })
	for _, id := range ids {
		out = append(out, SharedItem{"map", "", a.Maps[id], b.Maps[id]})
	}
	return out
}

// AmongItem is storage reachable from two different members of a family of values.
type AmongItem struct {
	I, J int // indices of the two members, I < J
	SharedItem
}

// SharedAmong lists the storage that any two different members of rs have in common (one sweep
// over all regions, so it is cheap for hundreds of members). Pairs for which skip(i, j) holds
// (i < j) are not reported; skip may be nil. At most 16 items are returned.
func SharedAmong(rs []*Reach, skip func(i, j int) bool) []AmongItem {
	type tagged struct {
		Region
		owner int
	}
	var all []tagged
	for i, r := range rs {
		for _, reg := range r.Regions {
			all = append(all, tagged{reg, i})
		}
	}
	sort.SliceStable(all, func(i, j int) bool { return all[i].Start < all[j].Start })
	var out []AmongItem
	add := func(x, y tagged) bool {
		if x.owner > y.owner {
			x, y = y, x
		}
		if skip != nil && skip(x.owner, y.owner) {
			return true
		}
		kind := x.Kind
		if y.Kind != kind {
			kind = x.Kind + "/" + y.Kind
		}
		out = append(out, AmongItem{x.owner, y.owner, SharedItem{kind, x.Type, x.Path, y.Path}})
		return len(out) < 16
	}
	for i := range all {
		for j := i + 1; j < len(all) && all[j].Start < all[i].End; j++ {
			if all[i].owner == all[j].owner {
				continue
			}
			if !add(all[i], all[j]) {
				return out
			}
		}
	}
	type firstSeen struct {
		owner int
		path  string
	}
	seen := map[uintptr]firstSeen{}
	for i, r := range rs {
		ids := make([]uintptr, 0, len(r.Maps))
		for id := range r.Maps {
			ids = append(ids, id)
		}
		sort.Slice(ids, func(a, b int) bool { return r.Maps[ids[a]] < r.Maps[ids[b]] })
		for _, id := range ids {
			f, ok := seen[id]
			if !ok {
				seen[id] = firstSeen{i, r.Maps[id]}
				continue
			}
			if f.owner == i || (skip != nil && skip(f.owner, i)) {
				continue
			}
			out = append(out, AmongItem{f.owner, i, SharedItem{"map", "", f.path, r.Maps[id]}})
			if len(out) >= 16 {
				return out
			}
		}
	}
	return out
}

// overlaps finds overlapping ranges between as and bs (self=false) or among as (self=true,
// distinct regions only).
func overlaps(as, bs []Region, self bool) []SharedItem {
	type tagged struct {
		Region
		side int
	}
	all := make([]tagged, 0, len(as)+len(bs))
	for _, r := range as {
		all = append(all, tagged{r, 0})
	}
	for _, r := range bs {
		all = append(all, tagged{r, 1})
	}
	sort.SliceStable(all, func(i, j int) bool { return all[i].Start < all[j].Start })
	var out []SharedItem
	for i := range all {
		for j := i + 1; j < len(all) && all[j].Start < all[i].End; j++ {
			if !self && all[i].side == all[j].side {
				continue
			}
			x, y := all[i], all[j]
			if x.side == 1 {
				x, y = y, x
			}
			kind := x.Kind
			if y.Kind != kind {
				kind = x.Kind + "/" + y.Kind
			}
			out = append(out, SharedItem{kind, x.Type, x.Path, y.Path})
			if len(out) >= 16 {
				return out
			}
		}
	}
	return out
}

// Count is the number of pieces of storage in r (regions + maps): "addresses compared".
func (r *Reach) Count() int { return len(r.Regions) + len(r.Maps) }

// ---- scramble -----------------------------------------------------------------------------

type scrambler struct {
	written map[uintptr]bool // addresses of leaves/cells already overwritten
	seen    map[visitKey]bool
	n       int
	viaKeys int             // locations written that were reached through a map key
	inKey   int             // > 0 while the storage behind a map key is being overwritten
	keep    []reflect.Value // temporaries stay alive so that their addresses are not reused
}

// Scramble overwrites every mutable location reachable from the addressable value v: every
// bool/number/string leaf gets a different value, nil or empty pointers/slices/maps found in
// such locations are replaced by non-empty ones, maps get their values scrambled and a new
// entry when empty.  Each location is written once even if reached on several paths.  It
// returns the number of locations written.  After Scramble(v), Snapshot(v) differs from
// before unless v holds no state at all.  Map keys themselves stay what they are (a key cannot
// be changed in place), but the storage BEHIND a key – the targets of pointers inside keys –
// is overwritten like everything else.
func Scramble(v reflect.Value) int {
	n, _ := ScrambleKeys(v)
	return n
}

// ScrambleKeys is Scramble that also reports how many of the locations written were reached
// through a map key.
func ScrambleKeys(v reflect.Value) (n, viaKeys int) {
	s := scrambler{written: map[uintptr]bool{}, seen: map[visitKey]bool{}}
	s.scramble(Addressable(v))
	return s.n, s.viaKeys
}

// throughKey overwrites the storage behind the map key k without touching the key itself.
func (s *scrambler) throughKey(k reflect.Value) {
	switch k.Kind() {
	case reflect.Pointer:
		if k.IsNil() {
			return
		}
		vk := visitKey{k.UnsafePointer(), k.Type()}
		if s.seen[vk] {
			return
		}
		s.seen[vk] = true
		s.inKey++
		s.scramble(k.Elem())
		s.inKey--
	case reflect.Struct:
		k = Addressable(k)
		for i := 0; i < k.NumField(); i++ {
			s.throughKey(field(k, i))
		}
	case reflect.Array:
		k = Addressable(k)
		for i := 0; i < k.Len(); i++ {
			s.throughKey(k.Index(i))
		}
	case reflect.Interface:
		if !k.IsNil() {
			s.throughKey(k.Elem())
		}
	}
}

// first reports whether the addressable location v is met for the first time.
func (s *scrambler) first(v reflect.Value) bool {
	if !v.CanAddr() {
		return true
	}
	if v.Type().Size() == 0 {
		return false
	}
	a := v.UnsafeAddr()
	if s.written[a] {
		return false
	}
	s.written[a] = true
	s.n++
	if s.inKey > 0 {
		s.viaKeys++
	}
	return true
}

func (s *scrambler) scramble(v reflect.Value) {
	switch v.Kind() {
	case reflect.Bool:
		if s.first(v) {
			v.SetBool(!v.Bool())
		}
	case reflect.Int, reflect.Int8, reflect.Int16, reflect.Int32, reflect.Int64:
		if s.first(v) {
			v.SetInt(v.Int() + 1) // SetInt truncates: wraps around, always a different value
		}
	case reflect.Uint, reflect.Uint8, reflect.Uint16, reflect.Uint32, reflect.Uint64, reflect.Uintptr:
		if s.first(v) {
			v.SetUint(v.Uint() + 1)
		}
	case reflect.Float32, reflect.Float64:
		if s.first(v) {
			if v.Float() == 1.5 {
				v.SetFloat(2.5)
			} else {
				v.SetFloat(1.5)
			}
		}
	case reflect.Complex64, reflect.Complex128:
		if s.first(v) {
			if v.Complex() == complex(1.5, 0) {
				v.SetComplex(complex(2.5, 0))
			} else {
				v.SetComplex(complex(1.5, 0))
			}
		}
	case reflect.String:
		if s.first(v) {
			v.SetString(v.String() + "#")
		}
	case reflect.Pointer:
		if v.IsNil() {
			if s.first(v) {
				v.Set(reflect.New(v.Type().Elem()))
			}
			return
		}
		k := visitKey{v.UnsafePointer(), v.Type()}
		if s.seen[k] {
			return
		}
		s.seen[k] = true
		s.scramble(v.Elem())
	case reflect.Slice:
		if v.Len() == 0 {
			if s.first(v) {
				v.Set(reflect.MakeSlice(v.Type(), 1, 1))
			}
			return
		}
		for i := 0; i < v.Len(); i++ {
			s.scramble(v.Index(i))
		}
	case reflect.Array:
		for i := 0; i < v.Len(); i++ {
			s.scramble(v.Index(i))
		}
	case reflect.Map:
		if v.IsNil() {
			if s.first(v) {
				m := reflect.MakeMap(v.Type())
				m.SetMapIndex(reflect.Zero(v.Type().Key()), reflect.Zero(v.Type().Elem()))
				v.Set(m)
			}
			return
		}
		k := visitKey{v.UnsafePointer(), v.Type()}
		if s.seen[k] {
			return
		}
		s.seen[k] = true
		if v.Len() == 0 {
			s.n++
			v.SetMapIndex(reflect.Zero(v.Type().Key()), reflect.Zero(v.Type().Elem()))
			return
		}
		keys := v.MapKeys()
		for _, key := range keys {
			s.throughKey(key)
			tmp := reflect.New(v.Type().Elem()).Elem()
			s.keep = append(s.keep, tmp)
			tmp.Set(v.MapIndex(key))
			s.scramble(tmp)
			v.SetMapIndex(key, tmp)
		}
	case reflect.Struct:
		for i := 0; i < v.NumField(); i++ {
			s.scramble(field(v, i))
		}
	case reflect.Interface:
		if v.IsNil() {
			return
		}
		tmp := reflect.New(v.Elem().Type()).Elem()
		s.keep = append(s.keep, tmp)
		tmp.Set(v.Elem())
		s.scramble(tmp)
		v.Set(tmp)
	}
}
