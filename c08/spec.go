package main

import (
	"fmt"
	"strings"
)

// ---- type expressions -------------------------------------------------------------------

type Kind int

const (
	KBasic Kind = iota
	KBytes
	KSlice
	KSeq
	KOption
	KPtr
	KMap
	KTuple2
	KHList
	KNamed
	KParam
)

var kindNames = map[Kind]string{KBasic: "basic", KBytes: "bytes", KSlice: "slice", KSeq: "seq", KOption: "option", KPtr: "ptr",
	KMap: "gomap", KTuple2: "tuple2", KHList: "hlist", KNamed: "named", KParam: "param"}

// TX is a type expression of the grammar.
type TX struct {
	K     Kind
	Basic string // KBasic
	El    []*TX  // Slice/Seq/Option/Ptr: 1; Map: key, value; Tuple2: 2; HList: n; Named: type arguments
	Decl  *Decl  // KNamed
	Param string // KParam
	// Sem fixes the semantics of a leaf that came from a type parameter instantiated by the harness
	// ("" = resolved in the deriving package): std, fold, sum, product.
	Sem string
}

func basic(n string) *TX           { return &TX{K: KBasic, Basic: n} }
func wrap(k Kind, el ...*TX) *TX   { return &TX{K: k, El: el} }
func named(d *Decl, args ...*TX) *TX { return &TX{K: KNamed, Decl: d, El: args} }

// Src renders the type as Go source seen from package `from`.
func (t *TX) Src(from *Pkg) string {
	switch t.K {
	case KBasic:
		return t.Basic
	case KBytes:
		return "[]byte"
	case KSlice:
		return "[]" + t.El[0].Src(from)
	case KSeq:
		return "fp.Seq[" + t.El[0].Src(from) + "]"
	case KOption:
		return "fp.Option[" + t.El[0].Src(from) + "]"
	case KPtr:
		return "*" + t.El[0].Src(from)
	case KMap:
		return "map[" + t.El[0].Src(from) + "]" + t.El[1].Src(from)
	case KTuple2:
		return "fp.Tuple2[" + t.El[0].Src(from) + ", " + t.El[1].Src(from) + "]"
	case KHList:
		s := "hlist.Nil"
		for i := len(t.El) - 1; i >= 0; i-- {
			s = "hlist.Cons[" + t.El[i].Src(from) + ", " + s + "]"
		}
		return s
	case KNamed:
		s := t.Decl.Name
		if t.Decl.Pkg != from {
			s = t.Decl.Pkg.Name + "." + s
		}
		if len(t.El) > 0 {
			as := make([]string, len(t.El))
			for i, e := range t.El {
				as[i] = e.Src(from)
			}
			s += "[" + strings.Join(as, ", ") + "]"
		}
		return s
	case KParam:
		return t.Param
	}
	panic("bad kind")
}

// Key is a canonical, package independent rendering (includes Sem).
func (t *TX) Key() string {
	s := ""
	switch t.K {
	case KBasic:
		s = t.Basic
	case KBytes:
		s = "[]byte"
	case KParam:
		s = "$" + t.Param
	case KNamed:
		s = t.Decl.Pkg.Name + "." + t.Decl.Name
		fallthrough
	default:
		if t.K != KNamed {
			s = kindNames[t.K]
		}
		if len(t.El) > 0 {
			as := make([]string, len(t.El))
			for i, e := range t.El {
				as[i] = e.Key()
			}
			s += "<" + strings.Join(as, ",") + ">"
		}
	}
	if t.Sem != "" {
		s += "!" + t.Sem
	}
	return s
}

// Subst replaces type parameters.
func (t *TX) Subst(m map[string]*TX) *TX {
	if len(m) == 0 {
		return t
	}
	if t.K == KParam {
		if r, ok := m[t.Param]; ok {
			return r
		}
		return t
	}
	if len(t.El) == 0 {
		return t
	}
	n := *t
	n.El = make([]*TX, len(t.El))
	for i, e := range t.El {
		n.El[i] = e.Subst(m)
	}
	return &n
}

func (t *TX) walk(f func(*TX)) {
	f(t)
	for _, e := range t.El {
		e.walk(f)
	}
}

func (t *TX) usesParam(p string) bool {
	u := false
	t.walk(func(x *TX) {
		if x.K == KParam && x.Param == p {
			u = true
		}
	})
	return u
}

// ---- declarations -----------------------------------------------------------------------

type Field struct {
	Name string
	T    *TX
}

func (f Field) Public() bool { return f.Name[0] >= 'A' && f.Name[0] <= 'Z' }

type Decl struct {
	Pkg      *Pkg
	Name     string
	IsStruct bool
	Value    bool // carries @fp.Value
	Fields   []Field
	Under    *TX // new type
	Params   []string
	Simple   bool   // struct of basic fields only: target of hand-written instances
	Shape    string // grammar production that made it (evidence)
	SelfRec  bool   // refers to itself / a partner through pointers
	// NestVis: the declaration is a plain (non-@fp.Value) struct of a working package meant to be used
	// as a field type; the value is the visibility mix of its fields (visAllExported, visAllUnexported,
	// visMixed). gombok derives such a struct on demand under recursive=true whatever the mix (its
	// fields are accessible from the generated code, which lives in the same package).
	NestVis string
	// NoInstance: no instance of any typeclass is declared or derived for the type and the grammar must
	// not add one; what gombok emits for a field of this type (a catch-all Given, or a reference to an
	// undeclared instance = refusal) is the thing observed.
	NoInstance bool
	// Via: forced case "ondemand": the container kind through which the only user of this plain struct
	// reaches it (slice, seq, option, ptr, gomap, tuple2, or "direct+<kind>" for the second level).
	Via string
}

const (
	visAllExported   = "all-exported"
	visAllUnexported = "all-unexported"
	visMixed         = "mixed"
)

var visMixes = []string{visAllExported, visAllUnexported, visMixed}

// visibilityMix classifies the fields of a struct declaration.
func visibilityMix(d *Decl) string {
	pubs, privs := 0, 0
	for _, f := range d.Fields {
		if f.Public() {
			pubs++
		} else {
			privs++
		}
	}
	switch {
	case privs == 0:
		return visAllExported
	case pubs == 0:
		return visAllUnexported
	}
	return visMixed
}

func (d *Decl) bind(args []*TX) map[string]*TX {
	if len(d.Params) == 0 {
		return nil
	}
	m := map[string]*TX{}
	for i, p := range d.Params {
		if i < len(args) {
			m[p] = args[i]
		}
	}
	return m
}

// usedParams: type parameters that occur in a field, in declaration order of the parameters.
func (d *Decl) usedParams() []string {
	var out []string
	for _, p := range d.Params {
		for _, f := range d.Fields {
			if f.T.usesParam(p) {
				out = append(out, p)
				break
			}
		}
	}
	return out
}

// needsInstance: an occurrence of type parameter p in t for which an instance of tc is summoned
// (monoid.MergeSlice/MergeSeq/MergeGoMap need no instance for their elements, eq.GoMap none for the key).
func needsInstance(tc TC, t *TX, p string) bool {
	switch t.K {
	case KParam:
		return t.Param == p
	case KBytes:
		return false
	case KSlice, KSeq:
		if tc == Monoid {
			return false
		}
	case KMap:
		switch tc {
		case Monoid:
			return false
		case Eq:
			return needsInstance(tc, t.El[1], p)
		}
	}
	for _, e := range t.El {
		if needsInstance(tc, e, p) {
			return true
		}
	}
	return false
}

// usedParamsFor: the type parameters for which the instance function of tc takes an instance.
func (d *Decl) usedParamsFor(tc TC) []string {
	var out []string
	for _, p := range d.Params {
		for _, f := range d.Fields {
			if needsInstance(tc, f.T, p) {
				out = append(out, p)
				break
			}
		}
	}
	return out
}

func (d *Decl) derivable() bool {
	if !d.IsStruct {
		return true
	}
	if d.Value || d.NestVis != "" {
		return true
	}
	for _, f := range d.Fields {
		if f.Public() {
			return true
		}
	}
	return false
}

// anyArgs is the `[any, any]` suffix of a derive directive for a generic type.
func (d *Decl) anyArgs() string {
	if len(d.Params) == 0 {
		return ""
	}
	a := make([]string, len(d.Params))
	for i := range a {
		a[i] = "any"
	}
	return "[" + strings.Join(a, ", ") + "]"
}

func (d *Decl) paramDecl() string {
	if len(d.Params) == 0 {
		return ""
	}
	a := make([]string, len(d.Params))
	for i, p := range d.Params {
		a[i] = p + " any"
	}
	return "[" + strings.Join(a, ", ") + "]"
}

func (d *Decl) paramUse() string {
	if len(d.Params) == 0 {
		return ""
	}
	return "[" + strings.Join(d.Params, ", ") + "]"
}

// ---- typeclasses ------------------------------------------------------------------------

type TC int

const (
	Eq TC = iota
	Ord
	Hashable
	Monoid
	Clone
	Show
	nTC
)

var tcName = [...]string{"Eq", "Ord", "Hashable", "Monoid", "Clone", "Show"}
var tcPkg = [...]string{"eq", "ord", "hash", "monoid", "clone", "show"}

func (t TC) String() string { return tcName[t] }

type TCSet uint8

func (s TCSet) Has(t TC) bool   { return s&(1<<t) != 0 }
func (s TCSet) With(t TC) TCSet { return s | (1 << t) }
func (s TCSet) List() []TC {
	var out []TC
	for t := Eq; t < nTC; t++ {
		if s.Has(t) {
			out = append(out, t)
		}
	}
	return out
}

const allTC TCSet = 1<<nTC - 1

// Derive is one instance gombok is expected to emit in a package: an explicit directive, or one
// produced on demand by recursive=true.
type Derive struct {
	TC        TC
	Decl      *Decl
	Recursive bool // recursive=true option (inherited by implicit derivations)
	Implicit  bool // not a directive: expected from recursive=true of another one
	// DP: derive package of the directive when it is not the library's (tcPkg): one of the scratch
	// module's own derive packages (altDerivePkgs: foldeq for fp.Eq, upshow for fp.Show), inherited by
	// the derivations the directive triggers on demand.
	DP string
}

func (x *Derive) derivePkg() string {
	if x.DP != "" {
		return x.DP
	}
	return tcPkg[x.TC]
}

// Override is a hand-written instance.
type Override struct {
	TC      TC
	Name    string // Go identifier
	Target  string // "basic:<name>", "fn:Seq", "named:<pkg>.<Name>"
	Decl    *Decl  // for named targets
	Variant string // fold, rev, sum, product, first, swap, sorted
	AsFunc  bool   // func Name() TC[T] instead of var
}

type Pkg struct {
	// UndeclaredOK: instance names gombok may reference without declaring them (its way of refusing
	// a derivation whose nested instance is missing); a generated file whose only compile errors are
	// `undefined: <one of these>` counts as a refusal of the package, not as a violation.
	UndeclaredOK map[string]bool
	// UndeclaredPrefix: same, for every name with this prefix (a missing nested instance also makes gombok
	// reference undeclared instances of the types wrapped around it: CloneFpSeq, CloneSlice, ...)
	UndeclaredPrefix string

	Name        string
	Decls       []*Decl
	Derives     []*Derive
	Overrides   []*Override
	ImportGiven []TC
	Imports     []*Pkg
	SortedSeq   bool // declares EqSeq(eqT, ordT) comparing sorted copies (README section 7)
	// Tag: forced case "multi": which order of differing directive contexts the package has
	// (plain-first, recursive-first, library-first, alternative-first)
	Tag string
}

func (p *Pkg) refusable() bool { return len(p.UndeclaredOK) > 0 || p.UndeclaredPrefix != "" }

func (p *Pkg) mayBeUndeclared(name string) bool {
	return p.UndeclaredOK[name] || (p.UndeclaredPrefix != "" && strings.HasPrefix(name, p.UndeclaredPrefix))
}

func (p *Pkg) findOverride(tc TC, target string) *Override {
	for _, o := range p.Overrides {
		if o.TC == tc && o.Target == target {
			return o
		}
	}
	return nil
}

// findDerive prefers a directive over an implicit (recursive=true) derivation.
func (p *Pkg) findDerive(tc TC, d *Decl) *Derive {
	var imp *Derive
	for _, x := range p.Derives {
		if x.TC == tc && x.Decl == d {
			if !x.Implicit {
				return x
			}
			imp = x
		}
	}
	return imp
}

// hasOrdTick: the package declares Ord instances of basic types (they count component comparisons).
func (p *Pkg) hasOrdTick() bool {
	for _, o := range p.Overrides {
		if o.TC == Ord && strings.HasPrefix(o.Target, "basic:") {
			return true
		}
	}
	return false
}

func namedTarget(d *Decl) string { return "named:" + d.Pkg.Name + "." + d.Name }

func pub(s string) string { return strings.ToUpper(s[:1]) + s[1:] }

// instanceName is gombok's name for the instance of tc for d generated in package p.
func instanceName(tc TC, p *Pkg, d *Decl) string {
	if d.Pkg != p {
		return tcName[tc] + pub(d.Pkg.Name) + d.Name
	}
	return tcName[tc] + d.Name
}

// ---- what the typeclass packages support --------------------------------------------------

var intKinds = []string{"int", "int8", "int16", "int32", "int64", "uint", "uint8", "uint16", "uint32", "uint64"}
var floatKinds = []string{"float32", "float64"}

func isInt(b string) bool {
	for _, k := range intKinds {
		if k == b {
			return true
		}
	}
	return false
}
func isUnsigned(b string) bool { return strings.HasPrefix(b, "uint") }
func isFloat(b string) bool    { return b == "float32" || b == "float64" }
func isNumeric(b string) bool  { return isInt(b) || isFloat(b) }

// leafCaps: typeclasses whose derive package (plus the overrides the grammar adds) handles the kind.
func leafCaps(t *TX) TCSet {
	switch t.K {
	case KBasic:
		if t.Basic == "bool" {
			return TCSet(0).With(Eq).With(Clone).With(Show)
		}
		return allTC
	case KMap:
		return TCSet(0).With(Eq).With(Monoid).With(Clone).With(Show)
	}
	return allTC
}

// caps: typeclasses derivable for a type expression.
func caps(t *TX) TCSet {
	c := leafCaps(t)
	switch t.K {
	case KNamed:
		c &= t.Decl.caps()
	case KParam:
		return allTC
	}
	for _, e := range t.El {
		c &= caps(e)
	}
	return c
}

func (d *Decl) caps() TCSet {
	if d.SelfRec {
		return allTC // fields of the recursive productions are fixed to kinds every class supports
	}
	c := allTC
	if d.IsStruct {
		for _, f := range d.Fields {
			c &= caps(f.T)
		}
	} else {
		c &= caps(d.Under)
	}
	return c
}

// hasMutableStorage: a value of the type can reach a slice, map or pointer.
func hasMutableStorage(t *TX, seen map[*Decl]bool) bool {
	switch t.K {
	case KBytes, KSlice, KSeq, KPtr, KMap:
		return true
	case KNamed:
		if seen[t.Decl] {
			return false
		}
		seen[t.Decl] = true
		if t.Decl.IsStruct {
			for _, f := range t.Decl.Fields {
				if hasMutableStorage(f.T, seen) {
					return true
				}
			}
		} else if hasMutableStorage(t.Decl.Under, seen) {
			return true
		}
	case KParam:
		return false
	}
	for _, e := range t.El {
		if hasMutableStorage(e, seen) {
			return true
		}
	}
	return false
}

// goComparable: Go's comparable for the type (type parameters are `any`: not comparable).
func goComparable(t *TX, seen map[*Decl]bool) bool {
	switch t.K {
	case KBasic, KPtr:
		return true
	case KBytes, KSlice, KSeq, KMap, KParam:
		return false
	case KOption, KTuple2, KHList:
		for _, e := range t.El {
			if !goComparable(e, seen) {
				return false
			}
		}
		return true
	case KNamed:
		if seen[t.Decl] {
			return true
		}
		seen[t.Decl] = true
		m := t.Decl.bind(t.El)
		if t.Decl.IsStruct {
			for _, f := range t.Decl.Fields {
				if !goComparable(f.T.Subst(m), seen) {
					return false
				}
			}
			return true
		}
		return goComparable(t.Decl.Under.Subst(m), seen)
	}
	return false
}

// ---- the documented resolution order, as a model ---------------------------------------------

type resMode string

const (
	mLocalOverride resMode = "local-override"
	mLocalDerived  resMode = "local-derived"
	mTypePkg       resMode = "type-package"
	mTypePkgDerive resMode = "type-package-derived"
	mDefault       resMode = "derive-package"
	mRecDerived    resMode = "recursive-derived"
	mNone          resMode = "unresolved"
)

type resolution struct {
	mode resMode
	ov   *Override
	ctx  *Pkg // package whose instances apply to the fields
	rec  bool
	dp   string // derive package of the directive that produced the instance ("" = the library's)
}

// defaultApplies: the derive package offers an instance for the named type by type unification
// (Given[T comparable], Given[T ImplicitOrd], Number[T ImplicitNum], clone.Given[T any] …).
// Conservative: false where the answer is not certain (the grammar then adds a directive).
func defaultApplies(tc TC, d *Decl, rec bool) bool {
	if len(d.Params) > 0 {
		return false
	}
	under := ""
	if !d.IsStruct && d.Under.K == KBasic {
		under = d.Under.Basic
	}
	switch tc {
	case Eq:
		if under != "" {
			return true
		}
		if d.IsStruct && rec {
			// Given[T comparable] is found before a recursive derivation is considered
			return goComparable(named(d), map[*Decl]bool{})
		}
		return false
	case Ord:
		return under != "" && under != "bool"
	case Hashable:
		return under != "" && isNumeric(under)
	case Monoid:
		return false
	case Clone:
		if d.NoInstance && !(rec && d.derivable()) {
			return true // the catch-all clone.Given[T any] is all there is (a recursive=true directive derives it on demand)
		}
		if rec && d.derivable() {
			return false
		}
		return true
	case Show:
		if under != "" && isNumeric(under) {
			return true
		}
		if d.IsStruct && d.Value {
			return true // @fp.Value types are fmt.Stringers: show.Given[T fmt.Stringer]
		}
		return false
	}
	return false
}

// resolveNamed applies local -> type's package -> derive package (-> recursive derivation).
func resolveNamed(tc TC, ctx *Pkg, d *Decl, rec bool) resolution {
	if o := ctx.findOverride(tc, namedTarget(d)); o != nil {
		return resolution{mode: mLocalOverride, ov: o}
	}
	if x := ctx.findDerive(tc, d); x != nil && !x.Implicit {
		return resolution{mode: mLocalDerived, ctx: ctx, rec: x.Recursive, dp: x.DP}
	}
	if d.Pkg != ctx {
		if o := d.Pkg.findOverride(tc, namedTarget(d)); o != nil {
			return resolution{mode: mTypePkg, ov: o}
		}
		// only a directive of the type's package is relied upon: an instance that package derives
		// on demand (recursive=true) may or may not exist
		if x := d.Pkg.findDerive(tc, d); x != nil && !x.Implicit {
			return resolution{mode: mTypePkgDerive, ctx: d.Pkg, rec: x.Recursive, dp: x.DP}
		}
	}
	if defaultApplies(tc, d, rec) {
		return resolution{mode: mDefault}
	}
	// an instance generated on demand by another recursive=true derivation is only relied upon by
	// recursive=true derivations (a plain directive that needs it gets its own directive: gombok
	// does not reliably see on-demand instances from plain derivations)
	if x := ctx.findDerive(tc, d); x != nil && x.Implicit && rec {
		return resolution{mode: mRecDerived, ctx: ctx, rec: true, dp: x.DP}
	}
	return resolution{mode: mNone}
}

func (p *Pkg) String() string { return fmt.Sprintf("pkg %s", p.Name) }
