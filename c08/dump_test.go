package main

import (
	"fmt"
	"math/rand/v2"
	"os"
	"testing"

	"verif/vrt"
)

func dbgMix(a, b uint64) uint64 {
	x := a ^ (b + 0x9e3779b97f4a7c15 + (a << 6) + (a >> 2))
	x ^= x >> 30
	x *= 0xbf58476d1ce4e5b9
	x ^= x >> 27
	x *= 0x94d049bb133111eb
	x ^= x >> 31
	return x
}

// TestDump prints the sources of one case (debugging aid): C08_DUMP="<VERIF_SEED> <batch>"
// reproduces case 0 of that batch exactly as the worker draws it.
func TestDump(t *testing.T) {
	if os.Getenv("C08_DUMP") == "" {
		t.Skip()
	}
	var seed uint64
	var batch int
	fmt.Sscan(os.Getenv("C08_DUMP"), &seed, &batch)
	s := dbgMix(dbgMix(dbgMix(seed, vrt.Hash64("C08")), uint64(batch)), 0)
	r := rand.New(rand.NewPCG(s, dbgMix(s, 0x5851f42d4c957f2d)))
	var c *Case
	if must, special := caseKind("quick", batch, 0); special {
		c = genSpecial(r, must)
	} else {
		c = genCase(r, must)
	}
	for _, p := range c.Pkgs {
		fmt.Println("=====", p.Name)
		for _, x := range p.Derives {
			fmt.Printf("derive %s %s.%s rec=%v implicit=%v\n", x.TC, x.Decl.Pkg.Name, x.Decl.Name, x.Recursive, x.Implicit)
		}
		for _, o := range p.Overrides {
			fmt.Printf("override %s %s %s %s\n", o.TC, o.Name, o.Target, o.Variant)
		}
		if os.Getenv("C08_DUMP_SRC") == "" {
			continue
		}
		fmt.Println(emitPkg(p))
		var tgs []lawTarget
		for _, x := range p.Derives {
			tgs = append(tgs, lawTarget{x, "func"})
		}
		src, err := genLawTest(p, tgs)
		fmt.Println("----- law test", err)
		if i := len(src) - len(preludeSrc); i > 0 {
			src = src[:i]
		}
		fmt.Println(src)
	}
}
