package main

import (
	"fmt"
	"math/rand/v2"
	"os"
	"testing"
)

func TestDump(t *testing.T) {
	if os.Getenv("C08_DUMP") == "" {
		t.Skip()
	}
	var s uint64
	fmt.Sscan(os.Getenv("C08_DUMP"), &s)
	r := rand.New(rand.NewPCG(s, s*7+1))
	c := genCase(r, mustList[int(s)%len(mustList)])
	for _, p := range c.Pkgs {
		fmt.Println("=====", p.Name)
		fmt.Println(emitPkg(p))
		var tgs []lawTarget
		for _, x := range p.Derives {
			tgs = append(tgs, lawTarget{x, "func"})
		}
		src, err := genLawTest(p, tgs)
		fmt.Println("----- law test", err)
		if i := len(src) - len(preludeSrc); i > 0 {
			src = src[:i]
		}
		fmt.Println(src)
	}
}
