// C08 — gombok @fp.Derive instances compile, are lawful and field-wise.
// Each case is a scratch module of 1-2 packages drawn from a grammar of types and derive
// directives; gombok (built once per run from the working tree) generates the instances, the
// packages are compiled together with a law test written from the package SPEC, and the law
// test compares every derived instance with a field-wise reference.
package main

import (
	"fmt"
	"os"
	"os/exec"
	"path/filepath"
	"regexp"
	"runtime/debug"
	"sort"
	"strings"
	"sync"
	"time"

	"verif/vrt"
)

const gombokEnv = "C08_GOMBOK"

// forced productions: batch b of a run always contains production mustList[b % len].
var mustList = []string{"generic", "recursive", "override+imported", "big", "mutual", "newtype", "value+imported", "plain", "generic-noholder", "recursive+imported"}

type caseRun struct {
	w     *vrt.W
	idx   int
	c     *Case
	dir   string
	files map[string]string // relative path -> content (witness)

	inconclusive bool // the harness could not reach a verdict
	refused      bool // gombok emitted nothing for a package
}

func (cr *caseRun) witness(extra map[string]any) any {
	m := map[string]any{"shapes": cr.c.Shapes, "files": cr.files, "repo": repoDir()}
	for k, v := range extra {
		m[k] = v
	}
	return m
}

func (cr *caseRun) write(rel, content string) error {
	p := filepath.Join(cr.dir, rel)
	if err := os.MkdirAll(filepath.Dir(p), 0o755); err != nil {
		return err
	}
	cr.files[rel] = content
	return os.WriteFile(p, []byte(content), 0o644)
}

func (cr *caseRun) harness(what string, detail string) {
	cr.inconclusive = true
	cr.w.Add("harness.inconclusive_cases", 1)
	cr.w.Note(fmt.Sprintf("batch %d case %d: %s: %s", cr.w.Batch, cr.idx, what, trunc(detail, 600)))
	if cr.w.Replay {
		fmt.Printf("harness problem: %s\n%s\n", what, detail)
	}
}

func randomBatches(tier string) int {
	if tier == "thorough" {
		return 120
	}
	return 10
}

// caseKind: batches 0..randomBatches-1 draw from the grammar with one forced production each,
// the batches after them are the forced special cases of nestvis.go.
func caseKind(tier string, batch, i int) (must string, special bool) {
	if n := randomBatches(tier); batch >= n {
		sp := specialCases(tier)
		return sp[(batch-n)%len(sp)], true
	}
	return mustList[(batch+i)%len(mustList)], false
}

func runCase(w *vrt.W, i int, gombok string) {
	r := w.Rand(i)
	must, special := caseKind(w.Tier, w.Batch, i)
	w.Begin(i, "gombok/derive")
	defer w.Done(i)
	var c *Case
	func() {
		defer func() {
			if rec := recover(); rec != nil {
				w.Add("harness.inconclusive_cases", 1)
				w.Note(fmt.Sprintf("batch %d case %d: grammar panicked: %v", w.Batch, i, rec))
			}
		}()
		if special {
			c = genSpecial(r, must)
		} else {
			c = genCase(r, must)
		}
	}()
	if c == nil {
		return
	}
	dir, err := os.MkdirTemp("", "c08-case-")
	if err != nil {
		w.Add("harness.inconclusive_cases", 1)
		w.Note("MkdirTemp: " + err.Error())
		return
	}
	if os.Getenv("C08_KEEP") == "" {
		defer os.RemoveAll(dir)
	} else {
		fmt.Fprintln(os.Stderr, "keeping", dir)
	}
	cr := &caseRun{w: w, idx: i, c: c, dir: dir, files: map[string]string{}}
	func() {
		// a panic here is a defect of the harness, never a verdict about gombok
		defer func() {
			if rec := recover(); rec != nil {
				cr.harness("worker panicked", fmt.Sprintf("%v\n%s", rec, debug.Stack()))
			}
		}()
		cr.run(gombok)
	}()
	switch {
	case cr.inconclusive:
	case cr.refused:
		w.Add("cases.refused_by_gombok", 1)
	default:
		w.Add("cases.conclusive", 1)
	}
}

func (cr *caseRun) run(gombok string) {
	w, c, i := cr.w, cr.c, cr.idx
	if err := writeModule(cr.dir); err != nil {
		cr.harness("write module", err.Error())
		return
	}
	altUsed := map[string]bool{}
	for _, p := range c.Pkgs {
		if err := cr.write(p.Name+"/"+p.Name+".go", emitPkg(p)); err != nil {
			cr.harness("write source", err.Error())
			return
		}
		for _, x := range p.Derives {
			if x.DP != "" {
				altUsed[x.DP] = true
			}
		}
	}
	// derive packages of the scratch module itself (no directives in them: gombok is not run there)
	for dp := range altUsed {
		if err := cr.write(dp+"/"+dp+".go", altDerivePkgs[dp]); err != nil {
			cr.harness("write derive package", err.Error())
			return
		}
	}
	w.Add("packages", int64(len(c.Pkgs)))
	// 1. gombok, package by package in dependency order
	w.Site("gombok/derive/generate")
	for _, p := range c.Pkgs {
		pdir := filepath.Join(cr.dir, p.Name)
		res := runProc(pdir, 10*time.Minute, childEnv("GOPACKAGE="+p.Name, "GOFILE="+p.Name+".go"), gombok)
		w.Add("gombok.runs", 1)
		if res.timedOut {
			cr.harness("gombok timed out (wall clock, not a verdict)", res.out)
			return
		}
		if res.exit != 0 {
			switch {
			case strings.Contains(res.out, "format error"):
				w.Violation(i, "gombok/derive/compile/format-error", "gombok could not format its own output:\n"+trunc(res.out, 3000), cr.witness(map[string]any{"gombok_output": trunc(res.out, 8000)}))
			case strings.Contains(res.out, "can't summon") || strings.Contains(res.out, "can't derive"):
				cr.refused = true
				w.Add("gombok.refused_packages", 1)
				w.Note(fmt.Sprintf("batch %d case %d: gombok refused package %s: %s", w.Batch, i, p.Name, firstLine(res.out, "can't")))
			default:
				cr.refused = true
				w.Add("gombok.crashed_packages", 1)
				w.Note(fmt.Sprintf("batch %d case %d: gombok exited %d on package %s without emitting instances: %s", w.Batch, i, res.exit, p.Name, trunc(firstLine(res.out, "panic"), 300)))
			}
			return
		}
		for _, suffix := range []string{"_derive_generated.go", "_value_generated.go"} {
			if b, err := os.ReadFile(filepath.Join(pdir, p.Name+suffix)); err == nil {
				cr.files[p.Name+"/"+p.Name+suffix] = string(b)
			}
		}
	}
	// 2. the generated code compiles
	w.Site("gombok/derive/compile")
	res := runProc(cr.dir, 20*time.Minute, childEnv(), "go", "build", "./...")
	for try := 0; try < 2 && res.exit != 0 && cacheTrimmed(res.out); try++ {
		res = runProc(cr.dir, 20*time.Minute, childEnv(), "go", "build", "./...")
	}
	w.Add("compiles", 1)
	if res.timedOut {
		cr.harness("go build timed out (wall clock, not a verdict)", res.out)
		return
	}
	refusedPkg := map[string]bool{}
	if res.exit != 0 {
		es := parseCompileErrors(res.out)
		// a package whose generated file only references instances gombok was expected to leave to the
		// user (UndeclaredOK) has been refused, not mis-generated
		for _, p := range c.Pkgs {
			if !p.refusable() {
				continue
			}
			n, other := 0, 0
			for _, e := range es {
				if !strings.HasPrefix(e.file, p.Name+"/") {
					continue
				}
				name, isUndef := strings.CutPrefix(e.msg, "undefined: ")
				if isUndef && strings.HasSuffix(e.file, "_derive_generated.go") && p.mayBeUndeclared(strings.TrimSpace(name)) {
					n++
				} else {
					other++
				}
			}
			if n > 0 && other == 0 {
				refusedPkg[p.Name] = true
				w.Add("gombok.refused_packages", 1)
				w.Add("gombok.refused_by_undeclared_reference", 1)
				w.Note(fmt.Sprintf("batch %d case %d: gombok left the nested instance of package %s to the user (reference to an undeclared instance): refusal, not judged", w.Batch, i, p.Name))
				for _, x := range p.Derives {
					for _, h := range nestVisHits(x) {
						w.Add(h+".refused", 1)
						w.Add(h+".observed", 1)
					}
				}
			}
		}
		for _, e := range es {
			if refusedPkg[strings.SplitN(e.file, "/", 2)[0]] {
				continue
			}
			if strings.HasSuffix(e.file, "_derive_generated.go") {
				name, tc := enclosingInstance(cr.files[e.file], e.line)
				key := "gombok/derive/compile/" + tc + "/" + errClass(e.msg)
				if cls := cr.importedGenericParamError(e); cls != "" {
					key = "gombok/derive/compile/" + cls
				}
				w.Violation(i, key,
					fmt.Sprintf("generated instance %s does not compile: %s:%d: %s\n%s", name, e.file, e.line, e.msg, trunc(res.out, 2000)),
					cr.witness(map[string]any{"compiler_output": trunc(res.out, 8000), "instance": name}))
				return
			}
		}
		if len(refusedPkg) == 0 || len(es) == 0 {
			cr.harness("scratch package does not compile outside the generated derive file", res.out)
			return
		}
		for _, e := range es {
			if !refusedPkg[strings.SplitN(e.file, "/", 2)[0]] {
				cr.harness("scratch package does not compile outside the generated derive file", res.out)
				return
			}
		}
	}
	// 3. law tests for the instances that were emitted
	type built struct {
		p   *Pkg
		bin string
		tgs []lawTarget
	}
	var bs []built
	for _, p := range c.Pkgs {
		if len(p.Derives) == 0 || refusedPkg[p.Name] {
			continue
		}
		have := generatedInstances(cr.files[p.Name+"/"+p.Name+"_derive_generated.go"])
		var tgs []lawTarget
		for _, x := range p.Derives {
			k, ok := have[instanceName(x.TC, p, x.Decl)]
			if !ok {
				w.Add("instances_not_emitted", 1)
				if !x.Implicit {
					w.Note(fmt.Sprintf("batch %d case %d: no instance %s emitted for a directive", w.Batch, i, instanceName(x.TC, p, x.Decl)))
				}
				continue
			}
			tgs = append(tgs, lawTarget{x, k})
		}
		if len(tgs) == 0 {
			continue
		}
		src, err := genLawTest(p, tgs)
		if err != nil {
			cr.harness("law test generator", err.Error())
			return
		}
		if err := cr.write(p.Name+"/c08_law_test.go", src); err != nil {
			cr.harness("write law test", err.Error())
			return
		}
		bs = append(bs, built{p, filepath.Join(cr.dir, p.Name+".test"), tgs})
	}
	// compile and run the law tests of the packages side by side
	compiled := make([]procResult, len(bs))
	var wg sync.WaitGroup
	for k, b := range bs {
		wg.Add(1)
		go func(k int, b built) {
			defer wg.Done()
			compiled[k] = runProc(cr.dir, 20*time.Minute, childEnv(), "go", "test", "-c", "-o", b.bin, "./"+b.p.Name)
			for try := 0; try < 2 && compiled[k].exit != 0 && cacheTrimmed(compiled[k].out); try++ {
				// the shared Go build cache was trimmed under the build (sibling checks do that when the disk fills): not a verdict, retry
				compiled[k] = runProc(cr.dir, 20*time.Minute, childEnv(), "go", "test", "-c", "-o", b.bin, "./"+b.p.Name)
			}
		}(k, b)
	}
	wg.Wait()
	for k, b := range bs {
		if res := compiled[k]; res.timedOut || res.exit != 0 {
			cr.harness("law test of package "+b.p.Name+" does not compile (harness defect, not a verdict)", res.out)
			if os.Getenv("C08_DEBUG") != "" {
				fmt.Fprintln(os.Stderr, res.out)
			}
			return
		}
	}
	w.Site("gombok/derive/laws")
	oks := make([]bool, len(bs))
	for k, b := range bs {
		wg.Add(1)
		go func(k int, b built) {
			defer wg.Done()
			oks[k] = cr.runLaws(b.p, b.bin, b.tgs)
		}(k, b)
	}
	wg.Wait()
	for _, ok := range oks {
		if !ok {
			return
		}
	}
	if w.WantSample() {
		var ds []string
		for _, p := range c.Pkgs {
			for _, x := range p.Derives {
				ds = append(ds, p.Name+":"+instanceName(x.TC, p, x.Decl)+map[bool]string{true: "(implicit)", false: ""}[x.Implicit])
			}
		}
		last := c.Pkgs[len(c.Pkgs)-1]
		w.Sample(map[string]any{"shapes": c.Shapes, "derivations": ds, "source_" + last.Name: trunc(cr.files[last.Name+"/"+last.Name+".go"], 2500)})
	}
}

// cacheTrimmed: the go command failed because a file of the shared build cache vanished under it.
func cacheTrimmed(out string) bool {
	return strings.Contains(out, "/go-build/") && strings.Contains(out, "no such file or directory")
}

func firstLine(s, contains string) string {
	for _, l := range strings.Split(s, "\n") {
		if strings.Contains(l, contains) {
			return l
		}
	}
	if i := strings.IndexByte(s, '\n'); i > 0 {
		return s[:i]
	}
	return s
}

func (cr *caseRun) shapeClass(typ string) string {
	for _, p := range cr.c.Pkgs {
		for _, d := range p.Decls {
			if d.Pkg.Name+"."+d.Name == typ {
				switch {
				case len(d.Fields) >= 20:
					return "many-fields"
				case d.SelfRec:
					return "recursive-type"
				case hasNamedField(d):
					return "nested-products"
				}
				return "other"
			}
		}
	}
	return "other"
}

func (cr *caseRun) runLaws(p *Pkg, bin string, tgs []lawTarget) bool {
	w, i := cr.w, cr.idx
	var skip []string
	exec1 := func() (lawOutput, procResult) {
		outFile := filepath.Join(cr.dir, p.Name+".law.out")
		os.Remove(outFile)
		res := runProc(filepath.Join(cr.dir, p.Name), 330*time.Second, childEnv("C08_OUT="+outFile, "C08_SKIP="+strings.Join(skip, ";")), bin, "-test.run", "TestC08", "-test.timeout", "300s", "-test.count", "1")
		b, _ := os.ReadFile(outFile)
		return parseLawOutput(string(b)), res
	}
	var lo lawOutput
	var allFails []lawFail
	ended := map[string]bool{}
	for attempt := 0; ; attempt++ {
		var res procResult
		lo, res = exec1()
		w.Add("lawtests.run", 1)
		for k := range lo.ended {
			ended[k] = true
		}
		if lo.done {
			allFails = append(allFails, lo.fails...)
			break
		}
		// the law test died while a derivation was open: CPU budget (ABORT line), stack overflow, or other
		if !lo.hasOpen {
			cr.harness("law test died outside any derivation", res.out)
			return false
		}
		tc, typ := lo.open[0], lo.open[1]
		switch {
		case lo.aborted:
			allFails = append(allFails, lo.fails...) // includes the nontermination FAIL line
		case strings.Contains(res.out, "stack overflow") || strings.Contains(res.out, "goroutine stack exceeds"):
			allFails = append(allFails, lo.fails...)
			allFails = append(allFails, lawFail{tc, "nontermination", typ, "unbounded recursion: " + firstFatal(res.out)})
		case res.timedOut || strings.Contains(res.out, "test timed out"):
			cr.harness("law test hit the wall-clock safety net without burning its CPU budget (no verdict)", res.out)
			return false
		default:
			allFails = append(allFails, lo.fails...)
			allFails = append(allFails, lawFail{tc, "crash", typ, firstFatal(res.out)})
		}
		skip = append(skip, tc+":"+typ)
		if attempt >= 5 {
			break
		}
	}
	for k := range ended {
		lo.ended[k] = true
	}
	for j := range allFails {
		if allFails[j].law == "nontermination" {
			allFails[j].law += "/" + cr.shapeClass(allFails[j].typ)
		}
	}
	lo.fails = allFails
	for _, f := range lo.fails {
		w.Violation(i, "gombok/derive/"+f.tc+"/"+f.law, fmt.Sprintf("%s[%s]: %s", f.tc, f.typ, f.detail),
			cr.witness(map[string]any{"derivation": f.tc + "[" + f.typ + "]", "law": f.law}))
	}
	for k, v := range lo.maxes {
		w.Max("law."+k, v)
	}
	for k, v := range lo.stats {
		w.Add("law."+k, v)
		if strings.HasSuffix(k, ".pairs") {
			w.Add("pairs_evaluated", v)
		}
		if strings.HasSuffix(k, ".triples") {
			w.Add("triples_evaluated", v)
		}
	}
	for _, tg := range tgs {
		x := tg.x
		typ := x.Decl.Pkg.Name + "." + x.Decl.Name
		if !lo.ended[tcName[x.TC]+"|"+typ] {
			continue
		}
		w.Add("derivations."+tcName[x.TC], 1)
		w.Add("derivations.total", 1)
		w.Hit("derive." + tcName[x.TC] + "." + x.Decl.Shape)
		w.Distinct(shapeOf(p, x))
		if x.Decl.SelfRec {
			w.Add("recursive_type_derivations", 1)
		}
		for _, h := range nestVisHits(x) {
			w.Add(h, 1)
			w.Add(h+".observed", 1)
		}
		if x.Recursive && !x.Implicit {
			w.Add("recursive_true_directives", 1)
		}
		if x.Implicit {
			w.Add("implicit_derivations_from_recursive_true", 1)
			if via := x.Decl.Via; via != "" {
				// forced case ondemand: which container kind the on-demand instance is reached through, at which depth
				w.Add("ondemand.via-"+via+"."+tcName[x.TC], 1)
				switch {
				case strings.HasPrefix(via, "direct-below-"):
					w.Add("ondemand.depth-2."+tcName[x.TC], 1)
				case strings.Contains(via, "-below-"):
					w.Add("ondemand.depth-3."+tcName[x.TC], 1)
				default:
					w.Add("ondemand.depth-1."+tcName[x.TC], 1)
				}
			}
		}
		if p.Tag != "" {
			// forced case multi: directive contexts that ran, per order of the package
			ctx := x.derivePkg()
			if x.Recursive {
				ctx += "+recursive"
			}
			if x.Implicit {
				ctx += "+on-demand"
			}
			w.Add("multi."+p.Tag+"."+tcName[x.TC]+"."+ctx, 1)
		}
		if x.DP != "" {
			w.Add("derivations_through_alternative_derive_package", 1)
		}
		if len(x.Decl.Params) > 0 {
			w.Add("generic_derivations", 1)
		}
		if n := len(x.Decl.Fields); n >= 22 {
			w.Add("derivations_over_21_fields", 1)
		}
		// resolution classes observed in the fields
		g := &lawGen{p: p, memo: map[string]string{}}
		seen := map[string]bool{}
		s := sem{int(x.TC), p, x.Recursive, x.DP}
		var ts []*TX
		if x.Decl.IsStruct {
			for _, f := range x.Decl.Fields {
				ts = append(ts, f.T)
			}
		} else {
			ts = append(ts, x.Decl.Under)
		}
		for _, t := range ts {
			if t.usesAnyParam() {
				continue
			}
			cl := g.fieldClass(s, t)
			mode := cl[strings.IndexByte(cl, '/')+1:]
			if !seen[mode] {
				seen[mode] = true
				w.Add("resolution."+mode, 1)
			}
		}
		if seen["local-override"] || seen["type-package"] {
			w.Add("overriding_instance_derivations", 1)
		}
	}
	return true
}

func firstFatal(s string) string {
	var keep []string
	for _, l := range strings.Split(s, "\n") {
		if strings.HasPrefix(l, "fatal error:") || strings.HasPrefix(l, "panic:") || strings.Contains(l, "goroutine stack exceeds") || strings.Contains(l, "test timed out") {
			keep = append(keep, l)
		}
	}
	if len(keep) == 0 {
		return trunc(s, 800)
	}
	return strings.Join(keep, "\n")
}

func (t *TX) usesAnyParam() bool {
	u := false
	t.walk(func(x *TX) {
		if x.K == KParam {
			u = true
		}
	})
	return u
}

func isWorker() bool {
	for _, a := range os.Args[1:] {
		if a == "-worker" || a == "--worker" {
			return true
		}
	}
	return false
}

func main() {
	if os.Getenv(gombokEnv) == "" && !isWorker() {
		// launcher: build gombok once from the working tree, then run the vrt parent as a child
		dir, err := os.MkdirTemp("", "c08-gombok-")
		if err != nil {
			fmt.Println("C08: cannot create temp dir:", err)
			os.Exit(2)
		}
		t0 := time.Now()
		bin, err := buildGombok(dir)
		if err != nil {
			os.RemoveAll(dir)
			fmt.Println("BUILD-FAILED property=C08 (gombok does not build from the working tree)")
			fmt.Println(err)
			os.Exit(2)
		}
		fmt.Printf("C08: gombok built from %s in %.1fs\n", repoDir(), time.Since(t0).Seconds())
		self, _ := os.Executable()
		cmd := exec.Command(self, os.Args[1:]...)
		cmd.Env = append(os.Environ(), gombokEnv+"="+bin)
		cmd.Stdout, cmd.Stderr, cmd.Stdin = os.Stdout, os.Stderr, os.Stdin
		err = cmd.Run()
		os.RemoveAll(dir)
		if ee, ok := err.(*exec.ExitError); ok {
			os.Exit(ee.ExitCode())
		}
		if err != nil {
			fmt.Println("C08:", err)
			os.Exit(2)
		}
		os.Exit(0)
	}
	vrt.Main(vrt.Config{
		Property: "C08",
		Batches: func(tier string) int {
			return randomBatches(tier) + len(specialCases(tier))
		},
		Cases: func(tier string, b int) int { return 1 },
		Run: func(w *vrt.W) {
			gombok := os.Getenv(gombokEnv)
			if gombok == "" {
				dir, err := os.MkdirTemp("", "c08-gombok-")
				if err == nil {
					defer os.RemoveAll(dir)
					gombok, err = buildGombok(dir)
				}
				if err != nil {
					w.Note("cannot build gombok: " + err.Error())
					return
				}
			}
			for i := w.From; i < w.To; i++ {
				runCase(w, i, gombok)
			}
		},
		CaseCPUBudget: 600,
		WorkerProcs:   4,
		Rule: "case = scratch Go module (1-2 packages) drawn from a grammar: a type's package `tp` (an @fp.Value struct of basic fields with hand-written Eq/Ord/Hashable/Monoid instances as var or func, a plain public struct, an @fp.Value struct with instances derived in tp, named basic and slice types) and a working package `wp` with 2-4 productions out of {@fp.Value struct, plain struct with private fields, named non-struct type + holder, generic struct with used and unused type parameters + holder of an instantiation, pointer-recursive struct, mutually recursive pair, 20/21/22/23/30-field struct}; field types from basic kinds, []byte, slices, fp.Seq, fp.Option, pointers, Go maps, fp.Tuple2, hlist, nested/imported named types, type parameters (nesting depth <= 3); @fp.Derive directives for random subsets of Eq/Ord/Hashable/Monoid/Clone/Show with and without recursive=true, directives for imported types, local overriding instances (case-insensitive EqString/OrdString/HashableString, reversed OrdInt/MonoidString, MonoidInt = sum|product, EqSeq(eqT, ordT) with @fp.ImportGiven, a local instance for an imported type). One production per batch is forced so that every run sees each kind. After the random batches come forced cases (one batch each; thorough: four draws of each): nestvis:<mix> for mix in {all-exported, all-unexported, mixed} = a working package with nested PLAIN structs of that visibility mix holding a slice, a pointer, []byte (and a Go map in a second one) used directly and inside a slice/Option/pointer/Seq/map by outer structs that derive all six typeclasses (four with the map) under a plain directive (nested struct has its own directives) and under recursive=true (nested instance expected on demand), plus a package wq whose outer struct derives Clone while NOTHING is declared for the nested struct; tpgeneric = a generic struct declared in tp with its instance functions derived in tp, instantiated as a field type of two holders in wp; multi = four working packages whose directives differ in CONTEXT, in both orders: (mp / mr) nested plain structs with no instance used by outer structs under a plain Clone directive and under a recursive=true Clone directive, plain first / recursive first - the recursive directive must derive the nested Clone on demand whatever an earlier directive resolved; (dl / da) structs with string fields (direct, in slice / Seq / Option / pointer / map value / Tuple2) deriving Eq and Show alternately through the library's eq / show and through the scratch module's own COMPLETE derive packages foldeq (case-insensitive String, everything else wrapping eq) / upshow (String rendered in upper case between marks), library first / alternative first, plus recursive=true directives of both kinds with a nested struct derived on demand (inherits the directive's derive package) and structs holding a struct derived through the other package; ondemand = one package in which only two root structs carry (recursive=true) directives and every instance below has to be derived on demand: root field k holds a plain struct N<k> inside container kind k of {slice, Seq, Option, pointer, Tuple2, map value}, N<k> holds a leaf struct directly (depth 2) and another inside the next container kind (depth 3), leaves hold a slice, a pointer and basics. Clone laws run on the pool plus three storage shapes applied at every position at once: every slice / Seq / []byte empty WITH spare capacity and every map empty non-nil; one-element containers of those; one-element slices with spare capacity - judged by the reachable-address walk (a backing array with capacity counts even when the slice is empty) and by the append-to-both oracle (append a marked element to the original's slice, a zero element to the clone's: the original's element must survive). gombok built from the working tree generates the code; `go build` must accept every generated instance; a law test written from the SPEC (same package; reference = documented resolution order local -> type's package -> derive package, field-wise) runs on a pool of 4 base values + 2 near-equal values per field position (differ in exactly that field). distinct_nontrivial = distinct (typeclass, shape) pairs of derivations whose law test ran to completion, shape = multiset of field kinds x arity x flags (recursive=true, implicit, @fp.Value, imported, generic used/total, recursive type).",
		Assumptions: []string{
			"struct shapes come from the grammar above; shapes outside it (arrays, channels, unnamed interfaces, named types over library structs such as `type T fp.Option[int]`, recursion not through a pointer) are not covered",
			"values are a constructed pool per type (bases, near-equal variants at every field position, nil vs empty, equal-but-not-identical pointers), not all values; floats are exact dyadic non-negative numbers, no NaN",
			"gombok refusing or crashing on a package emits no instance and is counted, not judged; gombok's other way of refusing - a generated file whose only compile errors are references to an undeclared instance of a nested type nothing was declared for (package wq) - is counted as a refusal too; Show is only required to be total, deterministic and equal on equal values",
			"Clone is judged by what the copy shares with the original, whichever instance gombok picked for a nested type (derived on demand, declared, or the catch-all clone.Given); sharing storage that sits inside a nested plain struct is keyed by visibility mix and regime (shared-storage/nested-plain-struct/<mix>/<plain|recursive|plain-without-instance>)",
			"the order of instance parameters of a generic instance function is not prescribed; only their multiset is checked; a type parameter counts as used for a typeclass when an instance for it is summoned (under Monoid an occurrence only inside a slice/Seq/map element is not)",
			"hand-written instances of the scratch packages are lawful by construction",
		},
		Floors: func(tier string) map[string]int64 {
			f := map[string]int64{"derivations.Eq": 3, "derivations.Ord": 3, "derivations.Hashable": 3, "derivations.Monoid": 3, "derivations.Clone": 3, "derivations.Show": 3,
				"pairs_evaluated": 5000, "triples_evaluated": 1000, "overriding_instance_derivations": 1, "recursive_type_derivations": 1, "generic_derivations": 1,
				"law.Eq.near_equal_pairs": 100, "cases.conclusive": 10,
				"resolution.local-override": 1, "resolution.type-package": 1, "derivations_over_21_fields": 1,
				"implicit_derivations_from_recursive_true": 1, "law.Clone.fields_with_storage_in_nested_plain_struct": 30}
			if tier == "thorough" {
				f["cases.conclusive"] = 112
			}
			// nested plain structs: every visibility mix x typeclass x {plain, recursive=true} was judged by a
			// law test of the outer type; the Clone-without-instance regime was at least observed
			// (judged, or refused by gombok)
			for _, mix := range visMixes {
				for t := Eq; t < nTC; t++ {
					for _, regime := range []string{"plain", "recursive"} {
						f["nestvis."+mix+"."+tcName[t]+"."+regime] = 1
					}
				}
				f["nestvis."+mix+".Clone.plain-without-instance.observed"] = 1
			}
			// forced case ondemand: an on-demand instance was reached through every container kind and judged, at depth 1, 2 and 3
			for _, k := range onDemandKinds {
				for t := Eq; t < nTC; t++ {
					if k == KMap && !mapTCs.Has(t) {
						continue
					}
					if t == Monoid && (k == KSlice || k == KSeq || k == KMap) {
						continue // monoid.MergeSlice / MergeSeq / MergeGoMap need no instance for the element
					}
					f["ondemand.via-"+viaName(k)+"."+tcName[t]] = 1
				}
			}
			for t := Eq; t < nTC; t++ {
				f["ondemand.depth-1."+tcName[t]], f["ondemand.depth-2."+tcName[t]], f["ondemand.depth-3."+tcName[t]] = 3, 3, 1
			}
			// forced case multi: both orders of plain / recursive=true Clone directives sharing a nested struct, both
			// orders of library / alternative derive package for Eq and Show, incl. on-demand instances of each
			for _, tag := range []string{"plain-first", "recursive-first"} {
				f["multi."+tag+".Clone.clone+recursive"] = 1
				f["multi."+tag+".Clone.clone+recursive+on-demand"] = 1
			}
			for _, tag := range []string{"library-first", "alternative-first"} {
				for _, k := range []string{"Eq.eq", "Eq.foldeq", "Show.show", "Show.upshow"} {
					f["multi."+tag+"."+k] = 2
					f["multi."+tag+"."+k+"+recursive"] = 1
					f["multi."+tag+"."+k+"+recursive+on-demand"] = 1
				}
			}
			f["law.Show.derive_package_renderings_checked"] = 100
			// Clone: empty slices with spare capacity and zero-length maps were cloned, the append-to-both oracle ran
			f["law.Clone.empty_slices_with_capacity"], f["law.Clone.slices_with_spare_capacity_appended_to"], f["law.Clone.zero_length_maps"] = 100, 200, 10
			return f
		},
		Finish: func(tier string, m *vrt.Merged, cov map[string]any) {
			per := map[string]int64{}
			res := map[string]int64{}
			for k, v := range m.Counters {
				if strings.HasPrefix(k, "derivations.") {
					per[strings.TrimPrefix(k, "derivations.")] = v
				}
				if strings.HasPrefix(k, "resolution.") {
					res[strings.TrimPrefix(k, "resolution.")] = v
				}
			}
			// one evaluation = one derived instance whose law test ran to completion (the unit that
			// distinct_nontrivial counts shapes of); the scratch modules are reported separately
			cov["scratch_modules"] = m.Cases
			cov["evaluations"] = m.Counters["derivations.total"]
			cov["derivations_per_typeclass"] = per
			cov["derivations_by_strongest_resolution_rule"] = res
			cov["shapes_gombok_refused"] = m.Counters["gombok.refused_packages"] + m.Counters["instances_not_emitted"]
			nv := map[string]int64{}
			for k, v := range m.Counters {
				if strings.HasPrefix(k, "nestvis.") {
					nv[strings.TrimPrefix(k, "nestvis.")] = v
				}
			}
			cov["nested_plain_struct_derivations_by_mix_typeclass_regime"] = nv
			cov["special_cases"] = specialCases(tier)
			cov["gombok_built_from"] = repoDir()
			sort.Strings(m.Notes)
		},
	})
}

var reImportedGeneric = regexp.MustCompile(`\b(\w+)\.(?:Eq|Ord|Hashable|Monoid|Clone|Show)(\w+)\[([A-Z]\w*(?:, ?[A-Z]\w*)*)\]\(`)

// importedGenericParamError recognises ONE input class among the "undefined" compile errors: the
// generated code instantiates the instance function of a generic type of an imported package with
// that function's own type parameter NAMES (tp.EqBox[A](...)) instead of the type arguments.
func (cr *caseRun) importedGenericParamError(e compileErr) string {
	name, ok := strings.CutPrefix(e.msg, "undefined: ")
	if !ok {
		return ""
	}
	name = strings.TrimSpace(name)
	lines := strings.Split(cr.files[e.file], "\n")
	if e.line < 1 || e.line > len(lines) {
		return ""
	}
	for _, m := range reImportedGeneric.FindAllStringSubmatch(lines[e.line-1], -1) {
		for _, p := range cr.c.Pkgs {
			if p.Name != m[1] {
				continue
			}
			for _, d := range p.Decls {
				if len(d.Params) == 0 || !strings.HasSuffix(m[2], d.Name) {
					continue
				}
				for _, prm := range d.Params {
					if prm == name {
						return "type-package-generic-instance/undefined-type-parameter"
					}
				}
			}
		}
	}
	return ""
}
