package main

import (
	"fmt"
	"math/rand/v2"
	"sort"
	"strings"
)

// Case is one scratch module: packages in dependency order.
type Case struct {
	Pkgs   []*Pkg
	Shapes []string

	addedDirective bool
	curDP          string // derive package of the directive whose needs ensure() is closing (inherited by implicit derivations)
}

type gctx struct {
	r     *rand.Rand
	p     *Pkg
	avail []*Decl
	c     *Case
}

func pick[T any](r *rand.Rand, xs []T) T { return xs[r.IntN(len(xs))] }

func chance(r *rand.Rand, pct int) bool { return r.IntN(100) < pct }

// basics usable under all typeclasses in `need`.
func basicsFor(need TCSet) []string {
	l := []string{"int", "string", "int", "string", "int64", "uint8", "int32", "float64", "uint16", "int8", "float32", "uint64", "int16", "uint32", "uint"}
	if need&^(TCSet(0).With(Eq).With(Clone).With(Show)) == 0 {
		l = append(l, "bool", "bool")
	}
	return l
}

func (g *gctx) basicType(need TCSet) *TX { return basic(pick(g.r, basicsFor(need))) }

func (g *gctx) namedCandidates(need TCSet) []*Decl {
	var out []*Decl
	for _, d := range g.avail {
		if d.caps()&need == need {
			out = append(out, d)
		}
	}
	return out
}

// instArgs picks concrete arguments for a generic declaration: distinct types for used parameters.
func (g *gctx) instArgs(d *Decl, need TCSet) []*TX {
	pool := []string{"int", "string", "int64", "uint8"}
	g.r.Shuffle(len(pool), func(i, j int) { pool[i], pool[j] = pool[j], pool[i] })
	args := make([]*TX, len(d.Params))
	used := map[string]bool{}
	for _, p := range d.usedParams() {
		used[p] = true
	}
	k := 0
	for i, p := range d.Params {
		if used[p] {
			args[i] = basic(pool[k%len(pool)])
			k++
		} else {
			args[i] = basic(pick(g.r, []string{"bool", "int", "string"}))
		}
	}
	return args
}

func (g *gctx) genType(need TCSet, depth int, params []string) *TX {
	r := g.r
	type opt struct {
		k Kind
		w int
	}
	var opts []opt
	if depth >= 2 {
		opts = []opt{{KBasic, 60}, {KBytes, 8}, {KNamed, 22}}
		if len(params) > 0 {
			opts = append(opts, opt{KParam, 14})
		}
	} else {
		opts = []opt{{KBasic, 32}, {KBytes, 5}, {KSlice, 9}, {KSeq, 9}, {KOption, 10}, {KPtr, 7}, {KTuple2, 6}, {KHList, 4}, {KNamed, 16}}
		if !need.Has(Ord) && !need.Has(Hashable) {
			opts = append(opts, opt{KMap, 7})
		}
		if len(params) > 0 {
			opts = append(opts, opt{KParam, 16})
		}
	}
	tot := 0
	for _, o := range opts {
		tot += o.w
	}
	x := r.IntN(tot)
	k := KBasic
	for _, o := range opts {
		if x < o.w {
			k = o.k
			break
		}
		x -= o.w
	}
	switch k {
	case KBasic:
		return g.basicType(need)
	case KBytes:
		return &TX{K: KBytes}
	case KSlice, KOption, KPtr:
		return wrap(k, g.genType(need, depth+1, params))
	case KSeq:
		if g.p.SortedSeq && need.Has(Eq) {
			return wrap(KSeq, basic(pick(r, []string{"int", "string"})))
		}
		return wrap(KSeq, g.genType(need, depth+1, params))
	case KMap:
		return wrap(KMap, basic(pick(r, []string{"string", "int"})), g.genType(need, depth+1, params))
	case KTuple2:
		return wrap(KTuple2, g.genType(need, depth+1, params), g.genType(need, depth+1, params))
	case KHList:
		n := 1 + r.IntN(3)
		el := make([]*TX, n)
		for i := range el {
			el[i] = g.basicType(need)
		}
		return wrap(KHList, el...)
	case KNamed:
		c := g.namedCandidates(need)
		if len(c) == 0 {
			return g.basicType(need)
		}
		d := pick(r, c)
		if len(d.Params) > 0 {
			return named(d, g.instArgs(d, need)...)
		}
		return named(d)
	case KParam:
		return &TX{K: KParam, Param: pick(r, params)}
	}
	return g.basicType(need)
}

func (g *gctx) chooseTCs(avail TCSet, pct int) TCSet {
	var s TCSet
	for _, t := range avail.List() {
		if chance(g.r, pct) {
			s = s.With(t)
		}
	}
	if s == 0 {
		l := avail.List()
		s = s.With(pick(g.r, l))
	}
	return s
}

func fieldCount(r *rand.Rand) int {
	x := r.IntN(100)
	switch {
	case x < 10:
		return 1
	case x < 30:
		return 2
	case x < 50:
		return 3
	case x < 78:
		return 4 + r.IntN(3)
	default:
		return 7 + r.IntN(3)
	}
}

func (g *gctx) add(d *Decl) *Decl {
	d.Pkg = g.p
	g.p.Decls = append(g.p.Decls, d)
	g.avail = append(g.avail, d)
	return d
}

func (g *gctx) structDecl(name string, n int, need TCSet, value bool, allPublic bool, params []string, shape string) *Decl {
	d := &Decl{Name: name, IsStruct: true, Value: value, Params: params, Shape: shape}
	for i := 0; i < n; i++ {
		fn := fmt.Sprintf("x%d", i+1)
		if !value && (allPublic || i == 0 || chance(g.r, 60)) {
			fn = fmt.Sprintf("X%d", i+1)
		}
		d.Fields = append(d.Fields, Field{fn, g.genType(need, 0, params)})
	}
	return d
}

func (g *gctx) derive(tcs TCSet, d *Decl, rec bool) {
	for _, t := range tcs.List() {
		if g.p.findDerive(t, d) == nil && g.p.findOverride(t, namedTarget(d)) == nil {
			g.p.Derives = append(g.p.Derives, &Derive{TC: t, Decl: d, Recursive: rec})
		}
	}
}

// deriveDP adds one directive that names the derive package dp ("" = the library's).
func (g *gctx) deriveDP(tc TC, d *Decl, rec bool, dp string) {
	if g.p.findDerive(tc, d) == nil {
		g.p.Derives = append(g.p.Derives, &Derive{TC: tc, Decl: d, Recursive: rec, DP: dp})
	}
}

func hasNamedField(d *Decl) bool {
	h := false
	for _, f := range d.Fields {
		f.T.walk(func(x *TX) {
			if x.K == KNamed {
				h = true
			}
		})
	}
	return h
}

func (g *gctx) recFlag(d *Decl) bool { return hasNamedField(d) && chance(g.r, 45) }

// simpleStruct: basic fields only, at least one string and one int (target of hand-written instances).
func (g *gctx) simpleStruct(name string, value bool) *Decl {
	n := 2 + g.r.IntN(3)
	d := &Decl{Name: name, IsStruct: true, Value: value, Simple: true, Shape: "simple"}
	kinds := []string{"int", "string"}
	for len(kinds) < n {
		kinds = append(kinds, pick(g.r, []string{"int", "string", "int32", "int64"}))
	}
	g.r.Shuffle(len(kinds), func(i, j int) { kinds[i], kinds[j] = kinds[j], kinds[i] })
	names := []string{"amount", "cur", "unit", "note"}
	for i, k := range kinds {
		fn := names[i]
		if !value {
			fn = pub(fn)
		}
		d.Fields = append(d.Fields, Field{fn, basic(k)})
	}
	return d
}

func (g *gctx) namedOverride(tc TC, d *Decl, variant string, local bool) {
	name := tcName[tc] + d.Name
	if d.Pkg != g.p && chance(g.r, 50) {
		name = tcName[tc] + pub(d.Pkg.Name) + d.Name
	}
	g.p.Overrides = append(g.p.Overrides, &Override{TC: tc, Name: name, Target: namedTarget(d), Decl: d, Variant: variant, AsFunc: chance(g.r, 40)})
}

var customVariant = map[TC]string{Eq: "fold", Ord: "rev", Hashable: "fold", Monoid: "swap"}

func (c *Case) genTp(r *rand.Rand, forceSimple bool) *Pkg {
	p := &Pkg{Name: "tp"}
	g := &gctx{r: r, p: p, c: c}
	if chance(r, 75) || forceSimple {
		d := g.add(g.simpleStruct("Money", true))
		for _, tc := range []TC{Eq, Ord, Hashable, Monoid} {
			if chance(r, 55) || forceSimple {
				g.namedOverride(tc, d, customVariant[tc], false)
			}
		}
		c.Shapes = append(c.Shapes, "tp.simple+own-instances")
	}
	if chance(r, 50) {
		u := pick(r, []string{"string", "int"})
		d := g.add(&Decl{Name: map[string]string{"string": "Code", "int": "Level"}[u], Under: basic(u), Simple: true, Shape: "newtype-basic"})
		for _, tc := range []TC{Eq, Ord, Hashable, Monoid} {
			if chance(r, 35) {
				g.namedOverride(tc, d, customVariant[tc], false)
			}
		}
		c.Shapes = append(c.Shapes, "tp.newtype")
	}
	if chance(r, 50) {
		need := g.chooseTCs(allTC, 60)
		g.add(g.structDecl("Plain", 1+r.IntN(4), need, false, true, nil, "plain-public"))
		c.Shapes = append(c.Shapes, "tp.plain")
	}
	if chance(r, 60) || len(p.Decls) == 0 {
		need := g.chooseTCs(allTC, 60)
		d := g.add(g.structDecl("Inner", fieldCount(r), need, true, false, nil, "value"))
		g.derive(g.chooseTCs(d.caps(), 60), d, g.recFlag(d))
		c.Shapes = append(c.Shapes, "tp.value+derived-in-own-package")
	}
	if chance(r, 35) {
		d := g.add(&Decl{Name: "Tags", Under: wrap(KSlice, basic(pick(r, []string{"string", "int"}))), Shape: "newtype-slice"})
		if chance(r, 60) {
			g.derive(g.chooseTCs(d.caps(), 50), d, false)
		}
		c.Shapes = append(c.Shapes, "tp.newtype-slice")
	}
	return p
}

func (c *Case) genWp(r *rand.Rand, tp *Pkg, must string, forceOverride bool) *Pkg {
	p := &Pkg{Name: "wp"}
	g := &gctx{r: r, p: p, c: c}
	if tp != nil {
		p.Imports = []*Pkg{tp}
		g.avail = append(g.avail, tp.Decls...)
	}
	// leaf overrides
	if chance(r, 15) {
		p.SortedSeq = true
		p.ImportGiven = append(p.ImportGiven, Ord)
		p.Overrides = append(p.Overrides, &Override{TC: Eq, Name: "EqSeq", Target: "fn:Seq", Variant: "sorted"})
		c.Shapes = append(c.Shapes, "override.EqSeq+ImportGiven")
	}
	leaf := func(pct int, tc TC, b, variant string) {
		if chance(r, pct) {
			p.Overrides = append(p.Overrides, &Override{TC: tc, Name: tcName[tc] + pub(b), Target: "basic:" + b, Variant: variant, AsFunc: chance(r, 30)})
			c.Shapes = append(c.Shapes, "override."+tcName[tc]+pub(b))
		}
	}
	if forceOverride {
		leaf(100, Eq, "string", "fold")
	} else {
		leaf(40, Eq, "string", "fold")
	}
	if !p.SortedSeq {
		leaf(30, Ord, "string", "fold")
		leaf(20, Ord, "int", "rev")
	}
	leaf(30, Hashable, "string", "fold")
	leaf(25, Monoid, "string", "rev")
	if tp != nil {
		for _, d := range tp.Decls {
			if d.Simple && (chance(r, 30) || (forceOverride && d.IsStruct)) {
				g.namedOverride(Eq, d, "first", true)
				c.Shapes = append(c.Shapes, "override.local-instance-for-imported-type")
			}
		}
	}
	if forceOverride && tp != nil {
		// the precedence case: local EqString, a local Eq instance for the imported tp.Money, tp's own
		// Ord/Hashable/Monoid instances for it, the derive package for the rest
		var money *Decl
		for _, d := range tp.Decls {
			if d.Name == "Money" {
				money = d
			}
		}
		d := &Decl{Name: "V0", IsStruct: true, Value: true, Shape: "precedence"}
		d.Fields = []Field{{"s", basic("string")}, {"n", basic("int")}, {"m", named(money)}, {"o", wrap(KOption, basic("string"))}, {"ms", wrap(KSlice, named(money))}}
		r.Shuffle(len(d.Fields), func(i, j int) { d.Fields[i], d.Fields[j] = d.Fields[j], d.Fields[i] })
		g.add(d)
		g.derive(TCSet(0).With(Eq).With(Ord).With(Hashable).With(Monoid)|g.chooseTCs(allTC, 50), d, false)
		c.Shapes = append(c.Shapes, "precedence")
	}
	nprod := 2 + r.IntN(3)
	seq := 0
	for i := 0; i < nprod; i++ {
		seq++
		x := r.IntN(100)
		kind := ""
		switch {
		case x < 26:
			kind = "value"
		case x < 42:
			kind = "plain"
		case x < 52:
			kind = "newtype"
		case x < 67:
			kind = "generic"
		case x < 79:
			kind = "recursive"
		case x < 88:
			kind = "mutual"
		default:
			kind = "big"
		}
		if i == 0 && must != "" {
			kind = must
		}
		if forceOverride && (kind == "generic" || kind == "recursive" || kind == "mutual" || kind == "big") {
			// the precedence case stays small so that nothing else in the package can mask it
			kind = pick(r, []string{"value", "plain", "newtype"})
		}
		switch kind {
		case "value": // @fp.Value struct
			need := g.chooseTCs(allTC, 60)
			d := g.add(g.structDecl(fmt.Sprintf("S%d", seq), fieldCount(r), need, true, false, nil, "value"))
			g.derive(need&d.caps(), d, g.recFlag(d))
			c.Shapes = append(c.Shapes, "value")
		case "plain": // plain struct
			need := g.chooseTCs(allTC, 60)
			d := g.add(g.structDecl(fmt.Sprintf("P%d", seq), fieldCount(r), need, false, chance(r, 50), nil, "plain"))
			d.NestVis = visibilityMix(d) // usable as a nested plain struct by later productions
			g.derive(need&d.caps(), d, g.recFlag(d))
			c.Shapes = append(c.Shapes, "plain")
		case "newtype": // named non-struct type
			need := g.chooseTCs(allTC, 60)
			var u *TX
			switch r.IntN(4) {
			case 0:
				u = g.basicType(need)
			case 1:
				u = wrap(KSlice, g.basicType(need))
			case 2:
				if !need.Has(Ord) && !need.Has(Hashable) {
					u = wrap(KMap, basic("string"), g.basicType(need))
				} else {
					u = wrap(KSlice, basic("string"))
				}
			default:
				u = wrap(KSlice, g.genType(need, 1, nil))
			}
			d := g.add(&Decl{Name: fmt.Sprintf("N%d", seq), Under: u, Shape: "newtype"})
			if chance(r, 70) {
				g.derive(need&d.caps(), d, false)
			}
			// a holder so that the named type is used as a field
			h := g.add(g.structDecl(fmt.Sprintf("H%d", seq), 1+r.IntN(2), need, chance(r, 50), true, nil, "holder"))
			h.Fields = append(h.Fields, Field{map[bool]string{true: "xn", false: "Xn"}[h.Value], named(d)})
			g.derive(need&h.caps(), h, chance(r, 40))
			c.Shapes = append(c.Shapes, "newtype")
		case "generic", "generic-noholder": // generic
			need := g.chooseTCs(allTC, 60)
			np := 2 + r.IntN(2)
			params := []string{"A", "B", "C"}[:np]
			usable := params
			if chance(r, 60) {
				usable = params[:np-1] // last parameter unused
			}
			d := g.structDecl(fmt.Sprintf("G%d", seq), 2+r.IntN(4), need, chance(r, 60), true, usable, "generic")
			d.Params = params
			g.add(d)
			g.derive(need&d.caps(), d, false)
			if kind == "generic-noholder" || chance(r, 25) {
				// no user of the instance functions in the package: only the signature check sees them
				c.Shapes = append(c.Shapes, "generic-noholder")
				break
			}
			u := g.structDecl(fmt.Sprintf("U%d", seq), r.IntN(3), need, chance(r, 50), true, nil, "generic-holder")
			u.Fields = append(u.Fields, Field{map[bool]string{true: "xg", false: "Xg"}[u.Value], named(d, g.instArgs(d, need)...)})
			g.add(u)
			g.derive(need&u.caps(), u, false)
			c.Shapes = append(c.Shapes, "generic")
		case "recursive": // self recursive
			tcs := g.chooseTCs(allTC, 60)
			value := chance(r, 55)
			d := &Decl{Name: fmt.Sprintf("Node%d", seq), IsStruct: true, Value: value, SelfRec: true, Shape: "recursive"}
			fn := func(s string) string {
				if value {
					return s
				}
				return pub(s)
			}
			fs := []Field{{fn("val"), basic(pick(r, []string{"string", "int"}))}, {fn("left"), wrap(KPtr, named(d))}}
			if chance(r, 60) {
				fs = append(fs, Field{fn("right"), wrap(KPtr, named(d))})
			}
			for e := r.IntN(3); e > 0; e-- {
				fs = append(fs, Field{fn(fmt.Sprintf("ex%d", e)), g.genType(allTC, 1, nil)})
			}
			r.Shuffle(len(fs), func(i, j int) { fs[i], fs[j] = fs[j], fs[i] })
			d.Fields = fs
			g.add(d)
			g.derive(tcs, d, chance(r, 40))
			c.Shapes = append(c.Shapes, "recursive")
		case "mutual": // mutually recursive pair
			tcs := g.chooseTCs(allTC, 60)
			value := chance(r, 40)
			a := &Decl{Name: fmt.Sprintf("Ping%d", seq), IsStruct: true, Value: value, SelfRec: true, Shape: "mutual"}
			b := &Decl{Name: fmt.Sprintf("Pong%d", seq), IsStruct: true, Value: value, SelfRec: true, Shape: "mutual"}
			fn := func(s string) string {
				if value {
					return s
				}
				return pub(s)
			}
			a.Fields = []Field{{fn("n"), basic("int")}, {fn("pong"), wrap(KPtr, named(b))}}
			b.Fields = []Field{{fn("s"), basic("string")}, {fn("ping"), wrap(KPtr, named(a))}}
			if chance(r, 50) {
				a.Fields = append(a.Fields, Field{fn("ex"), g.genType(allTC, 1, nil)})
			}
			if chance(r, 50) {
				b.Fields = append([]Field{{fn("ex"), g.genType(allTC, 1, nil)}}, b.Fields...)
			}
			a.Pkg, b.Pkg = p, p
			p.Decls = append(p.Decls, a, b)
			g.avail = append(g.avail, a, b)
			rec := chance(r, 50)
			g.derive(tcs, a, rec)
			if !rec || chance(r, 30) {
				g.derive(tcs, b, rec)
			}
			c.Shapes = append(c.Shapes, "mutual")
		default: // many fields: crosses Tuple21 -> HCons
			need := g.chooseTCs(allTC, 45)
			n := pick(r, []int{20, 21, 22, 23, 30})
			if i == 0 && must == "big" {
				n = pick(r, []int{22, 23, 30}) // the forced wide product crosses the Tuple21 -> HCons switch
			}
			value := chance(r, 60)
			d := &Decl{Name: fmt.Sprintf("B%d", seq), IsStruct: true, Value: value, Shape: fmt.Sprintf("big%d", n)}
			for i := 0; i < n; i++ {
				fn := fmt.Sprintf("x%d", i+1)
				if !value {
					fn = fmt.Sprintf("X%d", i+1)
				}
				var t *TX
				if chance(r, 80) {
					t = basic(pick(r, []string{"int", "string", "int64", "int", "string", "uint8"}))
				} else {
					t = g.genType(need, 1, nil)
				}
				d.Fields = append(d.Fields, Field{fn, t})
			}
			g.add(d)
			g.derive(need&d.caps(), d, g.recFlag(d))
			c.Shapes = append(c.Shapes, d.Shape)
		}
	}
	// directives in the working package for imported types
	if tp != nil {
		for _, d := range tp.Decls {
			if chance(r, 25) {
				g.derive(g.chooseTCs(d.caps(), 40), d, false)
				c.Shapes = append(c.Shapes, "derive-imported-type")
			}
		}
	}
	c.instrumentOrd(p)
	return p
}

// instrumentOrd: Ord over a wide or nested product: every basic leaf gets a declared, call-counting
// OrdXxx (a local instance, found first by the documented order) so that the law test can bound the
// number of component comparisons with a logical clock instead of a timer.
func (c *Case) instrumentOrd(p *Pkg) {
	instrument := false
	for _, x := range p.Derives {
		if x.TC == Ord && x.Decl.IsStruct && (len(x.Decl.Fields) >= 7 || hasNamedField(x.Decl)) {
			instrument = true
		}
	}
	if instrument {
		seen := map[string]bool{}
		for _, b := range basicsFor(allTC) {
			if !seen[b] && p.findOverride(Ord, "basic:"+b) == nil {
				p.Overrides = append(p.Overrides, &Override{TC: Ord, Name: "Ord" + pub(b), Target: "basic:" + b, Variant: "std"})
			}
			seen[b] = true
		}
		c.Shapes = append(c.Shapes, "override.counting-Ord-leaves")
	}
}

// ensure closes the directive set: every instance a derivation needs is resolvable by the
// documented order; where the derive package has nothing, a directive (or, under
// recursive=true, an expected implicit derivation) is added; numeric Monoid leaves get a
// declared MonoidXxx.
func (c *Case) ensure(r *rand.Rand) {
	for round := 0; round < 200; round++ {
		// implicit derivations are recomputed from the current set of directives
		for _, p := range c.Pkgs {
			var keep []*Derive
			for _, x := range p.Derives {
				if !x.Implicit {
					keep = append(keep, x)
				}
			}
			p.Derives = keep
		}
		c.addedDirective = false
	pass:
		for _, p := range c.Pkgs {
			for i := 0; i < len(p.Derives); i++ {
				x := p.Derives[i]
				c.curDP = x.DP
				if x.Decl.IsStruct {
					for _, f := range x.Decl.Fields {
						if x.Decl.Pkg != p && !x.Decl.Value && !f.Public() {
							continue
						}
						c.ensureType(r, p, x.TC, f.T, x.Recursive)
					}
				} else {
					c.ensureType(r, p, x.TC, x.Decl.Under, x.Recursive)
				}
				if c.addedDirective {
					break pass
				}
			}
		}
		if !c.addedDirective {
			return
		}
	}
	panic("ensure: no fixpoint")
}

func (c *Case) ensureType(r *rand.Rand, p *Pkg, tc TC, t *TX, rec bool) {
	switch t.K {
	case KBasic:
		if tc == Monoid && isNumeric(t.Basic) && p.findOverride(Monoid, "basic:"+t.Basic) == nil {
			p.Overrides = append(p.Overrides, &Override{TC: Monoid, Name: "Monoid" + pub(t.Basic), Target: "basic:" + t.Basic,
				Variant: pick(r, []string{"sum", "product"}), AsFunc: chance(r, 25)})
		}
	case KBytes:
	case KSlice:
		if tc != Monoid { // monoid.MergeSlice needs no instance for the element
			c.ensureType(r, p, tc, t.El[0], rec)
		}
	case KSeq:
		if tc == Eq && p.SortedSeq {
			c.ensureType(r, p, Ord, t.El[0], rec)
		}
		if tc != Monoid { // monoid.MergeSeq needs no instance for the element
			c.ensureType(r, p, tc, t.El[0], rec)
		}
	case KMap:
		if tc == Clone || tc == Show {
			c.ensureType(r, p, tc, t.El[0], rec)
		}
		if tc != Monoid {
			c.ensureType(r, p, tc, t.El[1], rec)
		}
	case KNamed:
		for _, a := range t.El {
			c.ensureType(r, p, tc, a, rec)
		}
		d := t.Decl
		res := resolveNamed(tc, p, d, rec)
		add := func(implicit bool) {
			dp := ""
			if implicit {
				dp = c.curDP
			}
			p.Derives = append(p.Derives, &Derive{TC: tc, Decl: d, Recursive: implicit, Implicit: implicit, DP: dp})
			if !implicit {
				c.addedDirective = true
			}
		}
		switch {
		case res.mode == mNone:
			// Monoid of a named basic type: monoid.Sum/Product unify by type before a recursive
			// derivation is tried and their choice is not documented: always a directive there
			basicNewtype := !d.IsStruct && d.Under.K == KBasic
			// an instance the type's package derives on demand would be found before a recursive
			// derivation here: a directive in this package makes the outcome independent of it
			onDemandInTypePkg := d.Pkg != p && d.Pkg.findDerive(tc, d) != nil
			add(rec && d.derivable() && len(d.Params) == 0 && !(tc == Monoid && basicNewtype) && !onDemandInTypePkg)
		case res.mode == mDefault && tc == Clone && !d.NoInstance && hasMutableStorage(t, map[*Decl]bool{}):
			add(false)
		}
	case KParam:
	default:
		for _, e := range t.El {
			c.ensureType(r, p, tc, e, rec)
		}
	}
}

// genCase draws a case; must = "<production>[+imported]" forces the first production of the working
// package (and the presence of the type's package); "override" additionally forces overriding instances.
func genCase(r *rand.Rand, must string) *Case {
	c := &Case{}
	var tp *Pkg
	forceTp := strings.HasSuffix(must, "+imported")
	must = strings.TrimSuffix(must, "+imported")
	forceOverride := must == "override"
	if forceOverride {
		must = "value"
	}
	if chance(r, 70) || forceTp {
		tp = c.genTp(r, forceOverride)
		c.Pkgs = append(c.Pkgs, tp)
	}
	wp := c.genWp(r, tp, must, forceOverride)
	c.Pkgs = append(c.Pkgs, wp)
	c.ensure(r)
	sort.Strings(c.Shapes)
	return c
}

// shapeOf fingerprints a derivation for distinct_nontrivial: typeclass x multiset of field classes
// x arity class x flags.
func shapeOf(p *Pkg, x *Derive) string {
	d := x.Decl
	var ks []string
	if d.IsStruct {
		for _, f := range d.Fields {
			ks = append(ks, shapeKey(f.T))
		}
	} else {
		ks = append(ks, "under:"+shapeKey(d.Under))
	}
	sort.Strings(ks)
	ar := "n" + fmt.Sprint(len(d.Fields))
	flags := ""
	if x.Recursive {
		flags += "R"
	}
	if x.Implicit {
		flags += "I"
	}
	if d.Value {
		flags += "V"
	}
	if d.Pkg != p {
		flags += "X"
	}
	if len(d.Params) > 0 {
		flags += fmt.Sprintf("G%d/%d", len(d.usedParams()), len(d.Params))
	}
	if d.SelfRec {
		flags += "S"
	}
	return tcName[x.TC] + "|" + ar + "|" + flags + "|" + strings.Join(ks, ",")
}

func shapeKey(t *TX) string {
	switch t.K {
	case KBasic:
		return t.Basic
	case KNamed:
		s := "named:" + t.Decl.Shape
		return s
	case KParam:
		return "param"
	}
	s := kindNames[t.K]
	if len(t.El) > 0 {
		as := make([]string, len(t.El))
		for i, e := range t.El {
			as[i] = shapeKey(e)
		}
		s += "<" + strings.Join(as, ",") + ">"
	}
	return s
}
