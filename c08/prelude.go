package main

// preludeSrc is the static part of every generated law test: output protocol, reference
// combinators in plain Go, law runners, reachable-address walker. It never asks the
// library for an expected value; it only calls accessors of the library's data types
// (Option.IsDefined/Get, Tuple fields, hlist Head/Tail).
const preludeSrc = `
var c08out *os.File
var c08fails = map[string]int{}

func c08line(parts ...string) {
	for i, p := range parts {
		p = strings.ReplaceAll(p, "\n", " ")
		p = strings.ReplaceAll(p, "|", "/")
		if len(p) > 700 {
			p = p[:700] + "..."
		}
		parts[i] = p
	}
	s := strings.Join(parts, "|") + "\n"
	if c08out != nil {
		c08out.WriteString(s)
	} else {
		os.Stdout.WriteString("C08|" + s)
	}
}

func c08fail(tc, law, typ, detail string) {
	k := tc + "/" + law + "/" + typ
	c08fails[k]++
	if c08fails[k] > 2 {
		return
	}
	c08line("FAIL", tc, law, typ, detail)
}

func c08stat(tc, name string, n int) { c08line("STAT", tc, name, fmt.Sprint(n)) }

var c08cur struct {
	sync.Mutex
	tc, typ string
	start   float64
	open    bool
}

func c08cpu() float64 {
	var ru syscall.Rusage
	if syscall.Getrusage(syscall.RUSAGE_SELF, &ru) != nil {
		return 0
	}
	return float64(ru.Utime.Sec) + float64(ru.Utime.Usec)/1e6 + float64(ru.Stime.Sec) + float64(ru.Stime.Usec)/1e6
}

// c08watch: CPU-time backstop (not wall clock). A derivation whose laws normally cost milliseconds
// and that burns more than the budget is reported as non-terminating; the process exits so that
// the worker can rerun the remaining derivations.
func c08watch(budget float64) {
	for {
		time.Sleep(200 * time.Millisecond)
		c08cur.Lock()
		open, tc, typ, start := c08cur.open, c08cur.tc, c08cur.typ, c08cur.start
		c08cur.Unlock()
		if open && c08cpu()-start > budget {
			c08line("FAIL", tc, "nontermination", typ, fmt.Sprintf("the laws of this instance burnt more than %.0f CPU-seconds without finishing", budget))
			c08line("ABORT", tc, typ)
			os.Exit(3)
		}
	}
}

func c08begin(tc, typ string) bool {
	for _, s := range strings.Split(os.Getenv("C08_SKIP"), ";") {
		if s == tc+":"+typ {
			return false
		}
	}
	c08line("BEGIN", tc, typ)
	c08cur.Lock()
	c08cur.tc, c08cur.typ, c08cur.start, c08cur.open = tc, typ, c08cpu(), true
	c08cur.Unlock()
	return true
}

func c08end(tc, typ string) {
	if r := recover(); r != nil {
		c08fail(tc, "panic", typ, fmt.Sprint(r))
	}
	c08cur.Lock()
	c08cur.open = false
	c08cur.Unlock()
	c08line("END", tc, typ)
}

func TestMain(m *testing.M) {
	debug.SetMaxStack(48 << 20)
	if p := os.Getenv("C08_OUT"); p != "" {
		f, err := os.OpenFile(p, os.O_CREATE|os.O_WRONLY|os.O_APPEND, 0o644)
		if err == nil {
			c08out = f
		}
	}
	budget := 40.0
	if v, err := strconv.ParseFloat(os.Getenv("C08_CPU_BUDGET"), 64); err == nil && v > 0 {
		budget = v
	}
	go c08watch(budget)
	code := m.Run()
	c08line("DONE")
	os.Exit(code)
}

// ---- reference combinators ------------------------------------------------------------------

func rSliceEq[T any](a, b []T, e func(T, T) bool) bool {
	if len(a) != len(b) {
		return false
	}
	for i := range a {
		if !e(a[i], b[i]) {
			return false
		}
	}
	return true
}

func rSortedEq[T any](a, b []T, lt func(T, T) bool, e func(T, T) bool) bool {
	if len(a) != len(b) {
		return false
	}
	x := append([]T{}, a...)
	y := append([]T{}, b...)
	sort.SliceStable(x, func(i, j int) bool { return lt(x[i], x[j]) })
	sort.SliceStable(y, func(i, j int) bool { return lt(y[i], y[j]) })
	return rSliceEq(x, y, e)
}

func rOptEq[T any](a, b fp.Option[T], e func(T, T) bool) bool {
	if a.IsDefined() != b.IsDefined() {
		return false
	}
	if !a.IsDefined() {
		return true
	}
	return e(a.Get(), b.Get())
}

func rPtrEq[T any](a, b *T, e func(T, T) bool) bool {
	if a == nil || b == nil {
		return a == nil && b == nil
	}
	return e(*a, *b)
}

func rMapEq[K comparable, V any](a, b map[K]V, e func(V, V) bool) bool {
	if len(a) != len(b) {
		return false
	}
	for k, av := range a {
		bv, ok := b[k]
		if !ok || !e(av, bv) {
			return false
		}
	}
	return true
}

func rSliceLt[T any](a, b []T, lt func(T, T) bool) bool {
	n := len(a)
	if len(b) < n {
		n = len(b)
	}
	for i := 0; i < n; i++ {
		if lt(a[i], b[i]) {
			return true
		}
		if lt(b[i], a[i]) {
			return false
		}
	}
	return len(a) < len(b)
}

func rOptLt[T any](a, b fp.Option[T], lt func(T, T) bool) bool {
	if a.IsDefined() && b.IsDefined() {
		return lt(a.Get(), b.Get())
	}
	return !a.IsDefined() && b.IsDefined()
}

func rPtrLt[T any](a, b *T, lt func(T, T) bool) bool {
	if a != nil && b != nil {
		return lt(*a, *b)
	}
	return a == nil && b != nil
}

func rConcat[S ~[]T, T any](a, b S) S {
	out := make(S, 0, len(a)+len(b))
	out = append(out, a...)
	return append(out, b...)
}

func rOptCombine[T any](a, b fp.Option[T], c func(T, T) T) fp.Option[T] {
	if a.IsDefined() && b.IsDefined() {
		return fp.Some(c(a.Get(), b.Get()))
	}
	return fp.None[T]()
}

func rPtrCombine[T any](a, b *T, c func(T, T) T) *T {
	if a != nil && b != nil {
		v := c(*a, *b)
		return &v
	}
	if a == nil {
		return b
	}
	return a
}

func rMapMerge[M ~map[K]V, K comparable, V any](a, b M) M {
	out := M{}
	for k, v := range a {
		out[k] = v
	}
	for k, v := range b {
		out[k] = v
	}
	return out
}

func rFoldLess(a, b string) bool { return strings.ToLower(a) < strings.ToLower(b) }

func rFoldHash(s string) uint32 {
	h := uint32(7)
	for _, c := range []byte(strings.ToLower(s)) {
		h = h*131 + uint32(c)
	}
	return h
}

// harness-made instances handed to generic instance functions
type hHash[T any] struct {
	e func(a, b T) bool
	h func(T) uint32
}

func (r hHash[T]) Eqv(a, b T) bool { return r.e(a, b) }
func (r hHash[T]) Hash(a T) uint32 { return r.h(a) }

type hMonoid[T any] struct {
	e func() T
	c func(a, b T) T
}

func (r hMonoid[T]) Empty() T         { return r.e() }
func (r hMonoid[T]) Combine(a, b T) T { return r.c(a, b) }

type garg struct {
	t reflect.Type
	v any
}

func ifaceType[I any]() reflect.Type { return reflect.TypeOf((*I)(nil)).Elem() }

// callGeneric checks the signature of a derived generic instance function (exactly one
// instance parameter per type parameter that occurs in a field, none for the others; order
// is not prescribed) and calls it.
func callGeneric[I any](tc, typ string, fn any, args ...garg) (inst I, ok bool) {
	fv := reflect.ValueOf(fn)
	ft := fv.Type()
	c08stat(tc, "generic_signatures", 1)
	if ft.NumIn() != len(args) {
		c08fail(tc, "signature", typ, fmt.Sprintf("instance function takes %d parameters, %d type parameters occur in a field: %s", ft.NumIn(), len(args), ft.String()))
		return inst, false
	}
	used := make([]bool, len(args))
	in := make([]reflect.Value, ft.NumIn())
	for i := 0; i < ft.NumIn(); i++ {
		found := false
		for j, a := range args {
			if !used[j] && a.t == ft.In(i) {
				used[j], found = true, true
				in[i] = reflect.ValueOf(a.v)
				break
			}
		}
		if !found {
			c08fail(tc, "signature", typ, fmt.Sprintf("parameter %d has type %s, not one instance per used type parameter: %s", i, ft.In(i), ft.String()))
			return inst, false
		}
	}
	out := fv.Call(in)
	inst, ok = out[0].Interface().(I)
	if !ok {
		c08fail(tc, "signature", typ, "result is not the typeclass instance: "+ft.String())
	}
	return inst, ok
}

// ---- law runners --------------------------------------------------------------------------------

func c08class(varied []int, classes []string, i, j int) string {
	vi, vj := varied[i], varied[j]
	switch {
	case vi >= 0 && vj < 0:
		return classes[vi]
	case vj >= 0 && vi < 0:
		return classes[vj]
	case vi >= 0 && vi == vj:
		return classes[vi]
	}
	return "mixed"
}

func c08sub(n, max int) []int {
	var out []int
	if n <= max {
		for i := 0; i < n; i++ {
			out = append(out, i)
		}
		return out
	}
	for i := 0; i < 4; i++ {
		out = append(out, i)
	}
	step := (n - 4 + (max - 5)) / (max - 4)
	for i := 4; i < n && len(out) < max; i += step {
		out = append(out, i)
	}
	return out
}

func runEq[T any](typ string, inst fp.Eq[T], pool []T, varied []int, classes []string, ref func(a, b T) bool) {
	pairs, eqp, near := 0, 0, 0
	for i, a := range pool {
		for j, b := range pool {
			got, want := inst.Eqv(a, b), ref(a, b)
			pairs++
			if want && i != j {
				eqp++
			}
			if (varied[i] >= 0) != (varied[j] >= 0) {
				near++
			}
			if got != want {
				c08fail("Eq", "fieldwise/"+c08class(varied, classes, i, j), typ, fmt.Sprintf("Eqv=%v, conjunction of field equalities=%v for a=%+v b=%+v", got, want, a, b))
			}
		}
	}
	c08stat("Eq", "pairs", pairs)
	c08stat("Eq", "equal_not_identical_pairs", eqp)
	c08stat("Eq", "near_equal_pairs", near)
}

func runHash[T any](typ string, inst fp.Hashable[T], again fp.Hashable[T], pool []T, varied []int, classes []string, ref func(a, b T) bool) {
	pairs, eqp := 0, 0
	for i, a := range pool {
		ha := inst.Hash(a)
		if inst.Hash(a) != ha || again.Hash(a) != ha {
			c08fail("Hashable", "deterministic", typ, fmt.Sprintf("Hash differs between calls for %+v", a))
		}
		for j, b := range pool {
			got, want := inst.Eqv(a, b), ref(a, b)
			pairs++
			if got != want {
				c08fail("Hashable", "eqv/"+c08class(varied, classes, i, j), typ, fmt.Sprintf("Eqv=%v, conjunction of field equalities=%v for a=%+v b=%+v", got, want, a, b))
			}
			if got || want {
				if i != j {
					eqp++
				}
				if hb := inst.Hash(b); hb != ha {
					c08fail("Hashable", "hash-agrees/"+c08class(varied, classes, i, j), typ, fmt.Sprintf("equal values hash to %d and %d: a=%+v b=%+v", ha, hb, a, b))
				}
			}
		}
	}
	c08stat("Hashable", "pairs", pairs)
	c08stat("Hashable", "equal_not_identical_pairs", eqp)
}

// c08tick arms the logical clock of the package's counting Ord instances around a group of calls.
type c08tick struct {
	ticks, budget *int64
	per           int64
	total         int64
	max           int64
}

func (t *c08tick) call(f func()) (exceeded bool) {
	if t == nil {
		f()
		return false
	}
	*t.ticks, *t.budget = 0, t.per
	defer func() {
		*t.budget = 0
		t.total += *t.ticks
		if *t.ticks > t.max {
			t.max = *t.ticks
		}
		if r := recover(); r != nil {
			if strings.HasSuffix(fmt.Sprintf("%T", r), "XOrdBudgetExceeded") {
				exceeded = true
				return
			}
			panic(r)
		}
	}()
	f()
	return false
}

func runOrd[T any](typ string, inst fp.Ord[T], pool []T, varied []int, classes []string, lt func(a, b T) bool, tk *c08tick) {
	pairs, triples := 0, 0
	defer func() {
		if tk != nil {
			c08stat("Ord", "counted_component_comparisons", int(tk.total))
			c08line("MAX", "Ord", "component_comparisons_per_pair", fmt.Sprint(tk.max))
		}
	}()
	for i, a := range pool {
		for j, b := range pool {
			pairs++
			want := lt(a, b)
			var got, gba, ge bool
			var c int
			if tk.call(func() { got, gba, ge, c = inst.Less(a, b), inst.Less(b, a), inst.Eqv(a, b), inst.Compare(a, b) }) {
				c08fail("Ord", "nontermination", typ, fmt.Sprintf("Less/Less/Eqv/Compare on one pair of values with %d fields made more than %d component comparisons (logical budget) for a=%+v b=%+v", len(classes), tk.per, a, b))
				return
			}
			cl := c08class(varied, classes, i, j)
			if got != want {
				c08fail("Ord", "lexicographic/"+cl, typ, fmt.Sprintf("Less=%v, lexicographic order of the fields=%v for a=%+v b=%+v", got, want, a, b))
			}
			n := 0
			for _, x := range []bool{got, gba, ge} {
				if x {
					n++
				}
			}
			if n != 1 {
				c08fail("Ord", "trichotomy/"+cl, typ, fmt.Sprintf("Less(a,b)=%v Less(b,a)=%v Eqv(a,b)=%v for a=%+v b=%+v", got, gba, ge, a, b))
			}
			if (c < 0) != got || (c > 0) != gba {
				c08fail("Ord", "compare/"+cl, typ, fmt.Sprintf("Compare=%d but Less(a,b)=%v Less(b,a)=%v for a=%+v b=%+v", c, got, gba, a, b))
			}
		}
	}
	sub := c08sub(len(pool), 14)
	for _, i := range sub {
		for _, j := range sub {
			if !inst.Less(pool[i], pool[j]) {
				continue
			}
			for _, k := range sub {
				triples++
				if inst.Less(pool[j], pool[k]) && !inst.Less(pool[i], pool[k]) {
					c08fail("Ord", "transitivity", typ, fmt.Sprintf("a<b, b<c but not a<c: a=%+v b=%+v c=%+v", pool[i], pool[j], pool[k]))
				}
			}
		}
	}
	c08stat("Ord", "pairs", pairs)
	c08stat("Ord", "triples", triples)
}

func runMonoid[T any](typ string, inst fp.Monoid[T], pool []T, varied []int, classes []string, cb func(a, b T) T, em func() T, se func(a, b T) bool) {
	pairs, triples := 0, 0
	if e := inst.Empty(); !se(e, em()) {
		c08fail("Monoid", "empty", typ, fmt.Sprintf("Empty()=%+v, tuple of the fields' identities=%+v", e, em()))
	}
	for i, a := range pool {
		if l, r := inst.Combine(inst.Empty(), a), inst.Combine(a, inst.Empty()); !se(l, a) || !se(r, a) {
			c08fail("Monoid", "identity", typ, fmt.Sprintf("Combine(Empty,a)=%+v Combine(a,Empty)=%+v a=%+v", l, r, a))
		}
		for j, b := range pool {
			pairs++
			got, want := inst.Combine(a, b), cb(a, b)
			if !se(got, want) {
				c08fail("Monoid", "combine/"+c08class(varied, classes, i, j), typ, fmt.Sprintf("Combine=%+v, field-wise=%+v for a=%+v b=%+v", got, want, a, b))
			}
		}
	}
	sub := c08sub(len(pool), 12)
	for _, i := range sub {
		for _, j := range sub {
			ab := inst.Combine(pool[i], pool[j])
			for _, k := range sub {
				triples++
				l := inst.Combine(ab, pool[k])
				r := inst.Combine(pool[i], inst.Combine(pool[j], pool[k]))
				if !se(l, r) {
					c08fail("Monoid", "associativity", typ, fmt.Sprintf("(a.b).c=%+v a.(b.c)=%+v for a=%+v b=%+v c=%+v", l, r, pool[i], pool[j], pool[k]))
				}
			}
		}
	}
	c08stat("Monoid", "pairs", pairs)
	c08stat("Monoid", "triples", triples)
}

// c08mem collects the addresses of mutable storage (pointer targets, slice arrays, maps) reachable from v.
func c08mem(v reflect.Value, out map[uintptr]string, depth int) {
	if depth > 64 {
		return
	}
	switch v.Kind() {
	case reflect.Ptr:
		if v.IsNil() {
			return
		}
		p := v.Pointer()
		if _, ok := out[p]; ok {
			return
		}
		out[p] = "pointer|pointer " + v.Type().String()
		c08mem(v.Elem(), out, depth+1)
	case reflect.Slice:
		if v.Cap() > 0 {
			k := "slice"
			if v.Type().Elem().Kind() == reflect.Uint8 {
				k = "bytes"
			}
			out[v.Pointer()] = k + "|backing array of " + v.Type().String()
		}
		for i := 0; i < v.Len(); i++ {
			c08mem(v.Index(i), out, depth+1)
		}
	case reflect.Map:
		if v.IsNil() {
			return
		}
		out[v.Pointer()] = "map|map " + v.Type().String()
		it := v.MapRange()
		for it.Next() {
			c08mem(it.Key(), out, depth+1)
			c08mem(it.Value(), out, depth+1)
		}
	case reflect.Struct:
		for i := 0; i < v.NumField(); i++ {
			c08mem(v.Field(i), out, depth+1)
		}
	case reflect.Array:
		for i := 0; i < v.Len(); i++ {
			c08mem(v.Index(i), out, depth+1)
		}
	case reflect.Interface:
		if !v.IsNil() {
			c08mem(v.Elem(), out, depth+1)
		}
	}
}

// c08k: position-dependent value index of a struct field; the negative storage shapes apply to every field alike.
func c08k(k, i int) int {
	if k < 0 {
		return k
	}
	return k + i
}

// c08rw lifts the read-only flag reflect puts on values reached through unexported fields (the law test
// lives in the package of the types; it only ever reads them or appends to a COPY of a slice header).
func c08rw(v reflect.Value) reflect.Value {
	if v.CanAddr() {
		return reflect.NewAt(v.Type(), unsafe.Pointer(v.UnsafeAddr())).Elem()
	}
	return v
}

// c08mark builds a value of type t whose first leaf differs from the zero value; ok = false when the type
// has no leaf the harness knows how to set.
func c08mark(t reflect.Type) (reflect.Value, bool) {
	v := reflect.New(t).Elem()
	ok := c08setLeaf(v, 0)
	return v, ok
}

func c08setLeaf(v reflect.Value, depth int) bool {
	if depth > 8 {
		return false
	}
	v = c08rw(v)
	switch v.Kind() {
	case reflect.Bool:
		v.SetBool(true)
	case reflect.Int, reflect.Int8, reflect.Int16, reflect.Int32, reflect.Int64:
		v.SetInt(77)
	case reflect.Uint, reflect.Uint8, reflect.Uint16, reflect.Uint32, reflect.Uint64:
		v.SetUint(77)
	case reflect.Float32, reflect.Float64:
		v.SetFloat(7.5)
	case reflect.String:
		v.SetString("appended")
	case reflect.Slice:
		v.Set(reflect.MakeSlice(v.Type(), 1, 1))
	case reflect.Map:
		v.Set(reflect.MakeMap(v.Type()))
	case reflect.Ptr:
		v.Set(reflect.New(v.Type().Elem()))
	case reflect.Struct:
		if v.NumField() == 0 {
			return false
		}
		return c08setLeaf(v.Field(0), depth+1)
	case reflect.Array:
		if v.Len() == 0 {
			return false
		}
		return c08setLeaf(v.Index(0), depth+1)
	default:
		return false
	}
	return true
}

// c08leaf reads the leaf c08setLeaf writes.
func c08leaf(v reflect.Value, depth int) string {
	if depth > 8 {
		return "?"
	}
	switch v.Kind() {
	case reflect.Bool:
		return fmt.Sprint(v.Bool())
	case reflect.Int, reflect.Int8, reflect.Int16, reflect.Int32, reflect.Int64:
		return fmt.Sprint(v.Int())
	case reflect.Uint, reflect.Uint8, reflect.Uint16, reflect.Uint32, reflect.Uint64:
		return fmt.Sprint(v.Uint())
	case reflect.Float32, reflect.Float64:
		return fmt.Sprint(v.Float())
	case reflect.String:
		return v.String()
	case reflect.Slice:
		return fmt.Sprint("len ", v.Len(), v.IsNil())
	case reflect.Map, reflect.Ptr:
		return fmt.Sprint("nil ", v.IsNil())
	case reflect.Struct:
		if v.NumField() == 0 {
			return "?"
		}
		return c08leaf(v.Field(0), depth+1)
	case reflect.Array:
		if v.Len() == 0 {
			return "?"
		}
		return c08leaf(v.Index(0), depth+1)
	}
	return "?"
}

type c08appendStats struct{ spare, emptyCap, zeroMaps int }

// c08appendBoth is the append-to-both oracle: walk original and clone in parallel (they are structurally
// equal); at every slice position with spare capacity append a marked element to the ORIGINAL's slice
// header and then a zero element to the CLONE's: when the clone shares the backing array the second
// append overwrites the first (a copy that shares no mutable storage never does). Returns a description
// of the first position where that happened.
func c08appendBoth(a, c reflect.Value, st *c08appendStats, path string, depth int) string {
	if depth > 64 || !a.IsValid() || !c.IsValid() || a.Type() != c.Type() {
		return ""
	}
	switch a.Kind() {
	case reflect.Ptr:
		if a.IsNil() || c.IsNil() {
			return ""
		}
		return c08appendBoth(a.Elem(), c.Elem(), st, path+".*", depth+1)
	case reflect.Struct:
		for i := 0; i < a.NumField(); i++ {
			if r := c08appendBoth(c08rw(a.Field(i)), c08rw(c.Field(i)), st, path+"."+a.Type().Field(i).Name, depth+1); r != "" {
				return r
			}
		}
	case reflect.Array:
		for i := 0; i < a.Len(); i++ {
			if r := c08appendBoth(a.Index(i), c.Index(i), st, fmt.Sprintf("%s[%d]", path, i), depth+1); r != "" {
				return r
			}
		}
	case reflect.Map:
		if a.IsNil() || c.IsNil() {
			return ""
		}
		if a.Len() == 0 {
			st.zeroMaps++
		}
		it := a.MapRange()
		for it.Next() {
			cv := c.MapIndex(it.Key())
			if !cv.IsValid() {
				continue
			}
			// map values are not addressable: walk addressable copies (same slice headers, same backing arrays)
			av2, cv2 := reflect.New(a.Type().Elem()).Elem(), reflect.New(a.Type().Elem()).Elem()
			av2.Set(it.Value())
			cv2.Set(cv)
			if r := c08appendBoth(av2, cv2, st, path+"[k]", depth+1); r != "" {
				return r
			}
		}
	case reflect.Slice:
		n := a.Len()
		if n != c.Len() {
			return ""
		}
		for i := 0; i < n; i++ {
			if r := c08appendBoth(a.Index(i), c.Index(i), st, fmt.Sprintf("%s[%d]", path, i), depth+1); r != "" {
				return r
			}
		}
		if a.Cap() > n && a.CanInterface() && c.CanInterface() {
			if n == 0 {
				st.emptyCap++
			}
			marked, ok := c08mark(a.Type().Elem())
			if !ok {
				return ""
			}
			st.spare++
			want := c08leaf(marked, 0)
			a2 := reflect.Append(a, marked)
			_ = reflect.Append(c, reflect.Zero(a.Type().Elem()))
			if got := c08leaf(a2.Index(n), 0); got != want {
				return fmt.Sprintf("%s (%s, len %d cap %d): the element appended to the original reads %q after appending to the clone (appended %q)", path, a.Type(), n, a.Cap(), got, want)
			}
		}
	}
	return ""
}

func runClone[T any](typ string, inst fp.Clone[T], pool []T, classes []string, tags []string, isStruct bool, se func(a, b T) bool) {
	n, withStorage, nested := 0, 0, 0
	var ast c08appendStats
	defer func() {
		c08stat("Clone", "slices_with_spare_capacity_appended_to", ast.spare)
		c08stat("Clone", "empty_slices_with_capacity", ast.emptyCap)
		c08stat("Clone", "zero_length_maps", ast.zeroMaps)
	}()
	for _, a := range pool {
		c := inst.Clone(a)
		n++
		if !se(a, c) {
			c08fail("Clone", "equal", typ, fmt.Sprintf("clone %+v differs from original %+v", c, a))
		}
		cm := map[uintptr]string{}
		c08mem(reflect.ValueOf(&c).Elem(), cm, 0)
		av := reflect.ValueOf(&a).Elem()
		check := func(v reflect.Value, class, tag string) {
			am := map[uintptr]string{}
			c08mem(v, am, 0)
			if len(am) > 0 {
				withStorage++
				if tag != "" {
					nested++
				}
			}
			for p, what := range am {
				if _, shared := cm[p]; shared {
					kd := strings.SplitN(what, "|", 2)
					key := "shared-storage/" + kd[0]
					if tag != "" {
						// storage inside a nested plain struct: keyed by visibility mix and regime, not by
						// the kind of storage that happened to be met first
						key = "shared-storage/" + tag
					}
					c08fail("Clone", key, typ, fmt.Sprintf("clone and original share the %s reached through a field of class %s %s (original %+v)", kd[1], class, tag, a))
					return
				}
			}
		}
		cv := reflect.ValueOf(&c).Elem()
		// the append-to-both oracle runs after the address walk of the same field and uses the same key family
		appendBoth := func(x, y reflect.Value, class, tag, name string) {
			if r := c08appendBoth(x, y, &ast, name, 0); r != "" {
				key := "shared-storage/slice"
				if x.Kind() == reflect.Slice && x.Type().Elem().Kind() == reflect.Uint8 {
					key = "shared-storage/bytes"
				}
				if tag != "" {
					key = "shared-storage/" + tag
				}
				c08fail("Clone", key, typ, fmt.Sprintf("append to both: clone and original share a backing array reached through a field of class %s %s: %s (original %+v)", class, tag, r, a))
			}
		}
		if isStruct && av.Kind() == reflect.Struct && av.NumField() == len(classes) {
			for i := 0; i < av.NumField(); i++ {
				tag := ""
				if i < len(tags) {
					tag = tags[i]
				}
				check(av.Field(i), classes[i], tag)
				appendBoth(c08rw(av.Field(i)), c08rw(cv.Field(i)), classes[i], tag, av.Type().Field(i).Name)
			}
		} else {
			check(av, classes[0], "")
			appendBoth(av, cv, classes[0], "", "value")
		}
	}
	c08stat("Clone", "values", n)
	c08stat("Clone", "fields_with_mutable_storage", withStorage)
	c08stat("Clone", "fields_with_storage_in_nested_plain_struct", nested)
}

// runShow. leaves / mode: derive-package oracle. mode 1 = the directive names the scratch module's package upshow,
// whose String instance renders s as "⟦" + upper(s) + "⟧": every non-empty string leaf must
// appear that way; mode 2 = the directive names the library's show package: no "⟦" may appear.
func runShow[T any](typ string, inst fp.Show[T], pool []T, rebuilt []T, leaves func(T) []string, mode int) {
	n, marks := 0, 0
	defer func() { c08stat("Show", "derive_package_renderings_checked", marks) }()
	for i, a := range pool {
		s1 := inst.Show(a)
		s2 := inst.Show(a)
		n++
		if leaves != nil {
			switch mode {
			case 1:
				for _, s := range leaves(a) {
					if s == "" {
						continue
					}
					marks++
					if want := "⟦" + strings.ToUpper(s) + "⟧"; !strings.Contains(s1, want) {
						c08fail("Show", "derive-package/alternative-package-instance-not-used", typ, fmt.Sprintf("directive through the upshow package: the string %q must be rendered by its String instance as %s, Show gives %q", s, want, s1))
					}
				}
			case 2:
				marks++
				if strings.Contains(s1, "⟦") {
					c08fail("Show", "derive-package/instance-of-another-derive-package-used", typ, fmt.Sprintf("directive through the library package: Show gives %q, which contains the rendering of the String instance of upshow", s1))
				}
			}
		}
		if s1 != s2 {
			c08fail("Show", "deterministic", typ, fmt.Sprintf("%q then %q", s1, s2))
		}
		if rebuilt != nil {
			if s3 := inst.Show(rebuilt[i]); s3 != s1 {
				c08fail("Show", "equal-values-render-equally", typ, fmt.Sprintf("%q vs %q", s1, s3))
			}
		}
		_ = inst.ShowIndent(a, fp.ShowOption{Indent: "  ", OmitEmpty: true, SpaceAfterComma: true})
	}
	c08stat("Show", "values", n)
}
`
