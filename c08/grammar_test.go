package main

import (
	"fmt"
	"math/rand/v2"
	"testing"
)

// TestGrammarInvariants: harness self-check (no gombok): no duplicate directives, every needed
// instance resolvable by the model, sources and law tests render.
func TestGrammarInvariants(t *testing.T) {
	for s := uint64(0); s < 3000; s++ {
		r := rand.New(rand.NewPCG(s, s*7+1))
		var c *Case
		if sp := specialCases("quick"); s%5 == 4 {
			c = genSpecial(r, sp[int(s/5)%len(sp)])
		} else {
			c = genCase(r, mustList[int(s)%len(mustList)])
		}
		for _, p := range c.Pkgs {
			seen := map[string]bool{}
			for _, x := range p.Derives {
				k := fmt.Sprint(x.TC, x.Decl.Pkg.Name, x.Decl.Name)
				if seen[k] {
					t.Fatalf("seed %d: duplicate derive %s in %s", s, k, p.Name)
				}
				seen[k] = true
			}
			_ = emitPkg(p)
			var tgs []lawTarget
			for _, x := range p.Derives {
				tgs = append(tgs, lawTarget{x, "func"})
			}
			if len(tgs) > 0 {
				if _, err := genLawTest(p, tgs); err != nil {
					t.Fatalf("seed %d: law gen: %v", s, err)
				}
			}
		}
	}
}
