package main

import (
	"fmt"
	"regexp"
	"sort"
	"strings"
)

const modName = "c08s"

func (p *Pkg) importPath() string { return modName + "/" + p.Name }

var knownImports = map[string]string{
	"fp": "github.com/csgura/fp", "eq": "github.com/csgura/fp/eq", "ord": "github.com/csgura/fp/ord",
	"hash": "github.com/csgura/fp/hash", "monoid": "github.com/csgura/fp/monoid", "clone": "github.com/csgura/fp/clone",
	"show": "github.com/csgura/fp/show", "hlist": "github.com/csgura/fp/hlist",
	"strings": "strings", "sort": "sort", "fmt": "fmt", "os": "os", "reflect": "reflect", "testing": "testing",
	"foldeq": modName + "/foldeq", "upshow": modName + "/upshow",
	"debug": "runtime/debug", "unsafe": "unsafe", "sync": "sync", "syscall": "syscall", "time": "time", "strconv": "strconv",
}

var identDot = regexp.MustCompile(`\b([a-z][a-zA-Z0-9]*)\.[A-Za-z_]`)

// withImports prepends the package clause and the imports the body uses.
func withImports(p *Pkg, body string, extra ...*Pkg) string {
	used := map[string]bool{}
	for _, m := range identDot.FindAllStringSubmatch(body, -1) {
		used[m[1]] = true
	}
	var lines []string
	for n, path := range knownImports {
		if used[n] {
			lines = append(lines, fmt.Sprintf("\t%q", path))
		}
	}
	for _, q := range append(append([]*Pkg{}, p.Imports...), extra...) {
		if q != p && used[q.Name] {
			lines = append(lines, fmt.Sprintf("\t%q", q.importPath()))
		}
	}
	sort.Strings(lines)
	lines = dedup(lines)
	var b strings.Builder
	fmt.Fprintf(&b, "package %s\n\n", p.Name)
	if len(lines) > 0 {
		b.WriteString("import (\n" + strings.Join(lines, "\n") + "\n)\n\n")
	}
	b.WriteString(body)
	return b.String()
}

func dedup(s []string) []string {
	var out []string
	for i, x := range s {
		if i == 0 || x != s[i-1] {
			out = append(out, x)
		}
	}
	return out
}

func qual(d *Decl, from *Pkg, name string) string {
	if d.Pkg != from {
		return d.Pkg.Name + "." + name
	}
	return name
}

// ---- simple declarations (targets of hand-written instances) -------------------------------

func simpleComps(d *Decl) []string {
	if d.IsStruct {
		out := make([]string, len(d.Fields))
		for i, f := range d.Fields {
			out[i] = f.T.Basic
		}
		return out
	}
	return []string{d.Under.Basic}
}

// simpleGet: statement binding <v>1..<v>n to the components of value v.
func simpleGet(d *Decl, from *Pkg, v string) string {
	n := len(simpleComps(d))
	names := make([]string, n)
	for i := range names {
		names[i] = fmt.Sprintf("%s%d", v, i+1)
	}
	if d.IsStruct {
		return strings.Join(names, ", ") + " := " + qual(d, from, "XGet_"+d.Name) + "(" + v + ")"
	}
	return names[0] + " := " + d.Under.Basic + "(" + v + ")"
}

func simpleMake(d *Decl, from *Pkg, args []string) string {
	if d.IsStruct {
		return qual(d, from, "XNew_"+d.Name) + "(" + strings.Join(args, ", ") + ")"
	}
	return qual(d, from, d.Name) + "(" + args[0] + ")"
}

const foldHashSrc = `
// XFoldHash is a case-insensitive string hash used by the hand-written Hashable instances.
func XFoldHash(s string) uint32 {
	h := uint32(2166136261)
	for _, c := range []byte(strings.ToLower(s)) {
		h = (h ^ uint32(c)) * 16777619
	}
	return h
}
`

func zeroOf(b string) string {
	if b == "string" {
		return `""`
	}
	if b == "bool" {
		return "false"
	}
	return "0"
}

// useRest silences "declared and not used" for the components a `first` instance ignores.
func useRest(n int) string {
	if n <= 1 {
		return ""
	}
	var l []string
	for i := 2; i <= n; i++ {
		l = append(l, fmt.Sprintf("a%d", i), fmt.Sprintf("b%d", i))
	}
	bl := make([]string, len(l))
	for i := range bl {
		bl[i] = "_"
	}
	return "\t" + strings.Join(bl, ", ") + " = " + strings.Join(l, ", ") + "\n"
}

func leafOverrideExpr(o *Override, b string) string {
	switch {
	case o.TC == Eq && o.Variant == "fold":
		return "eq.New(strings.EqualFold)"
	case o.TC == Ord && o.Variant == "fold":
		return "ord.FromCompare(func(a, b string) int {\n\tXOrdTick()\n\treturn strings.Compare(strings.ToLower(a), strings.ToLower(b))\n})"
	case o.TC == Ord && o.Variant == "rev":
		return fmt.Sprintf("ord.FromCompare(func(a, b %s) int {\n\tXOrdTick()\n\tswitch {\n\tcase a > b:\n\t\treturn -1\n\tcase a < b:\n\t\treturn 1\n\t}\n\treturn 0\n})", b)
	case o.TC == Ord && o.Variant == "std":
		return fmt.Sprintf("ord.FromCompare(func(a, b %s) int {\n\tXOrdTick()\n\tswitch {\n\tcase a < b:\n\t\treturn -1\n\tcase a > b:\n\t\treturn 1\n\t}\n\treturn 0\n})", b)
	case o.TC == Hashable && o.Variant == "fold":
		return "hash.New(eq.New(strings.EqualFold), XFoldHash)"
	case o.TC == Monoid && o.Variant == "sum":
		return fmt.Sprintf("monoid.New(func() %s { return 0 }, func(a, b %s) %s { return a + b })", b, b, b)
	case o.TC == Monoid && o.Variant == "product":
		return fmt.Sprintf("monoid.New(func() %s { return 1 }, func(a, b %s) %s { return a * b })", b, b, b)
	case o.TC == Monoid && o.Variant == "rev":
		return `monoid.New(func() string { return "" }, func(a, b string) string { return b + a })`
	}
	panic("leaf override variant " + o.Variant)
}

func namedOverrideExpr(o *Override, from *Pkg) string {
	d := o.Decl
	T := named(d).Src(from)
	comps := simpleComps(d)
	ga, gb := simpleGet(d, from, "a"), simpleGet(d, from, "b")
	foldEq := func() string {
		var cs []string
		for i, c := range comps {
			if c == "string" {
				cs = append(cs, fmt.Sprintf("strings.EqualFold(a%d, b%d)", i+1, i+1))
			} else {
				cs = append(cs, fmt.Sprintf("a%d == b%d", i+1, i+1))
			}
		}
		return fmt.Sprintf("eq.New(func(a, b %s) bool {\n\t%s\n\t%s\n\treturn %s\n})", T, ga, gb, strings.Join(cs, " && "))
	}
	switch {
	case o.TC == Eq && o.Variant == "fold":
		return foldEq()
	case o.TC == Eq && o.Variant == "first":
		return fmt.Sprintf("eq.New(func(a, b %s) bool {\n\t%s\n\t%s\n%s\treturn a1 == b1\n})", T, ga, gb, useRest(len(comps)))
	case o.TC == Ord && o.Variant == "rev":
		var sb strings.Builder
		for i := range comps {
			fmt.Fprintf(&sb, "\tif a%d != b%d {\n\t\tif a%d < b%d {\n\t\t\treturn 1\n\t\t}\n\t\treturn -1\n\t}\n", i+1, i+1, i+1, i+1)
		}
		return fmt.Sprintf("ord.FromCompare(func(a, b %s) int {\n\t%s\n\t%s\n%s\treturn 0\n})", T, ga, gb, sb.String())
	case o.TC == Hashable && o.Variant == "fold":
		var sb strings.Builder
		for i, c := range comps {
			if c == "string" {
				fmt.Fprintf(&sb, "\th = h*31 + XFoldHash(a%d)\n", i+1)
			} else {
				fmt.Fprintf(&sb, "\th = h*31 + uint32(a%d)\n", i+1)
			}
		}
		return fmt.Sprintf("hash.New(%s, func(a %s) uint32 {\n\t%s\n\th := uint32(17)\n%s\treturn h\n})", foldEq(), T, ga, sb.String())
	case o.TC == Monoid && o.Variant == "swap":
		zs := make([]string, len(comps))
		cs := make([]string, len(comps))
		for i, c := range comps {
			zs[i] = zeroOf(c)
			if c == "string" {
				cs[i] = fmt.Sprintf("b%d + a%d", i+1, i+1)
			} else {
				cs[i] = fmt.Sprintf("a%d + b%d", i+1, i+1)
			}
		}
		return fmt.Sprintf("monoid.New(func() %s { return %s }, func(a, b %s) %s {\n\t%s\n\t%s\n\treturn %s\n})",
			T, simpleMake(d, from, zs), T, T, ga, gb, simpleMake(d, from, cs))
	}
	panic("named override variant " + o.Variant)
}

func overrideExpr(o *Override, from *Pkg) (typ string, expr string) {
	tcn := "fp." + tcName[o.TC]
	if strings.HasPrefix(o.Target, "basic:") {
		b := strings.TrimPrefix(o.Target, "basic:")
		return tcn + "[" + b + "]", leafOverrideExpr(o, b)
	}
	return tcn + "[" + named(o.Decl).Src(from) + "]", namedOverrideExpr(o, from)
}

const ordTickSrc = `
// Logical clock of the hand-written Ord instances of basic types: every component comparison
// ticks; with a budget armed (by the law test) exceeding it panics with XOrdBudgetExceeded.
var XOrdTicks, XOrdBudget int64

type XOrdBudgetExceeded struct{}

func XOrdTick() {
	XOrdTicks++
	if XOrdBudget > 0 && XOrdTicks > XOrdBudget {
		panic(XOrdBudgetExceeded{})
	}
}

`

const sortedSeqSrc = `
// @fp.ImportGiven
var _ ord.Derives[fp.Ord[any]]

// EqSeq overrides eq.Seq: equality of the sorted copies (README section 7).
func EqSeq[T any](eqT fp.Eq[T], ordT fp.Ord[T]) fp.Eq[fp.Seq[T]] {
	return eq.New(func(a, b fp.Seq[T]) bool {
		if len(a) != len(b) {
			return false
		}
		x := append(fp.Seq[T]{}, a...)
		y := append(fp.Seq[T]{}, b...)
		sort.SliceStable(x, func(i, j int) bool { return ordT.Less(x[i], x[j]) })
		sort.SliceStable(y, func(i, j int) bool { return ordT.Less(y[i], y[j]) })
		for i := range x {
			if !eqT.Eqv(x[i], y[i]) {
				return false
			}
		}
		return true
	})
}

`

// emitPkg renders the hand-written source of a scratch package.
func emitPkg(p *Pkg) string {
	var b strings.Builder
	b.WriteString("//go:generate gombok\n\n")
	for _, d := range p.Decls {
		if d.Value {
			b.WriteString("// @fp.Value\n")
		}
		if d.IsStruct {
			fmt.Fprintf(&b, "type %s%s struct {\n", d.Name, d.paramDecl())
			for _, f := range d.Fields {
				fmt.Fprintf(&b, "\t%s %s\n", f.Name, f.T.Src(p))
			}
			b.WriteString("}\n\n")
			// accessors used by the law tests of every package (hand-written, not generated)
			var ps, as, ts, gs []string
			for i, f := range d.Fields {
				ps = append(ps, fmt.Sprintf("p%d %s", i+1, f.T.Src(p)))
				as = append(as, fmt.Sprintf("%s: p%d", f.Name, i+1))
				ts = append(ts, f.T.Src(p))
				gs = append(gs, "v."+f.Name)
			}
			fmt.Fprintf(&b, "func XNew_%s%s(%s) %s%s {\n\treturn %s%s{%s}\n}\n\n", d.Name, d.paramDecl(), strings.Join(ps, ", "),
				d.Name, d.paramUse(), d.Name, d.paramUse(), strings.Join(as, ", "))
			fmt.Fprintf(&b, "func XGet_%s%s(v %s%s) (%s) {\n\treturn %s\n}\n\n", d.Name, d.paramDecl(), d.Name, d.paramUse(),
				strings.Join(ts, ", "), strings.Join(gs, ", "))
		} else {
			fmt.Fprintf(&b, "type %s %s\n\n", d.Name, d.Under.Src(p))
		}
	}
	needFold := false
	for _, o := range p.Overrides {
		if o.Target == "fn:Seq" {
			b.WriteString(sortedSeqSrc)
			continue
		}
		typ, expr := overrideExpr(o, p)
		if o.TC == Hashable && o.Variant == "fold" {
			needFold = true
		}
		if o.AsFunc {
			fmt.Fprintf(&b, "func %s() %s {\n\treturn %s\n}\n\n", o.Name, typ, expr)
		} else {
			fmt.Fprintf(&b, "var %s %s = %s\n\n", o.Name, typ, expr)
		}
	}
	if needFold {
		b.WriteString(foldHashSrc)
	}
	if p.hasOrdTick() {
		b.WriteString(ordTickSrc)
	}
	for _, x := range p.Derives {
		if x.Implicit {
			continue
		}
		opt := ""
		if x.Recursive {
			opt = "(recursive=true)"
		}
		fmt.Fprintf(&b, "// @fp.Derive%s\nvar _ %s.Derives[fp.%s[%s%s]]\n\n", opt, x.derivePkg(), tcName[x.TC], qual(x.Decl, p, x.Decl.Name), x.Decl.anyArgs())
	}
	return withImports(p, b.String())
}

// altDerivePkgs: derive packages of the scratch module itself (written next to the working packages
// when a directive names one). Like the repository's own second derive packages (test/internal/show,
// test/internal/read) they are COMPLETE: every combinator gombok asks a derive package for is declared,
// as a wrapper of the library's - an incomplete one only works when an earlier directive of the run
// happened to load the library's package (probed: with a package that declares nothing but Derives
// and String, a directive that comes first refers to undeclared EqContraMap / EqHCons ...). The
// String instances differ from the library's (case-insensitive equality; upper-case rendering
// between marks), so picking the instance of the wrong derive package changes what the derived
// instance does.
var altDerivePkgs = map[string]string{"foldeq": foldeqSrc(), "upshow": upshowSrc()}

func typeArgsN(n int) string {
	var as []string
	for i := 1; i <= n; i++ {
		as = append(as, fmt.Sprintf("A%d", i))
	}
	return strings.Join(as, ", ")
}

func insArgsN(n int, tc string) (decl, use string) {
	var ds, us []string
	for i := 1; i <= n; i++ {
		ds = append(ds, fmt.Sprintf("ins%d fp.%s[A%d]", i, tc, i))
		us = append(us, fmt.Sprintf("ins%d", i))
	}
	return strings.Join(ds, ", "), strings.Join(us, ", ")
}

func foldeqSrc() string {
	var b strings.Builder
	b.WriteString(`// Package foldeq is a derive package for fp.Eq: strings are compared ignoring case, everything else
// is the library's eq package.
package foldeq

import (
	"strings"
	"time"

	"github.com/csgura/fp"
	"github.com/csgura/fp/eq"
	"github.com/csgura/fp/hlist"
	"github.com/csgura/fp/lazy"
)

type Derives[T any] interface {
	Target() T
}

var String fp.Eq[string] = eq.New(strings.EqualFold)

var Time fp.Eq[time.Time] = eq.Time

var Bytes fp.Eq[[]byte] = eq.Bytes

var HNil fp.Eq[hlist.Nil] = eq.HNil

func Given[T comparable]() fp.Eq[T] { return eq.Given[T]() }

func ContraMap[T, U any](instance fp.Eq[T], fn func(U) T) fp.Eq[U] { return eq.ContraMap(instance, fn) }

func HCons[H any, T hlist.HList](heq fp.Eq[H], teq fp.Eq[T]) fp.Eq[hlist.Cons[H, T]] {
	return eq.HCons(heq, teq)
}

func Option[T any](e fp.Eq[T]) fp.Eq[fp.Option[T]] { return eq.Option(e) }

func Seq[T any](e fp.Eq[T]) fp.Eq[fp.Seq[T]] { return eq.Seq(e) }

func Slice[T any](e fp.Eq[T]) fp.Eq[[]T] { return eq.Slice(e) }

func Ptr[T any](e lazy.Eval[fp.Eq[T]]) fp.Eq[*T] { return eq.Ptr(e) }

func GoMap[K comparable, V any](eqV fp.Eq[V]) fp.Eq[map[K]V] { return eq.GoMap[K](eqV) }

func FpMap[K, V any](eqV fp.Eq[V]) fp.Eq[fp.Map[K, V]] { return eq.FpMap[K](eqV) }

`)
	for n := 1; n <= 21; n++ {
		d, u := insArgsN(n, "Eq")
		fmt.Fprintf(&b, "func Tuple%d[%s any](%s) fp.Eq[fp.Tuple%d[%s]] {\n\treturn eq.Tuple%d(%s)\n}\n\n", n, typeArgsN(n), d, n, typeArgsN(n), n, u)
	}
	return b.String()
}

func upshowSrc() string {
	var b strings.Builder
	b.WriteString(`// Package upshow is a derive package for fp.Show: strings are rendered in upper case between marks,
// everything else is the library's show package.
package upshow

import (
	"fmt"
	"strings"
	"time"

	"github.com/csgura/fp"
	"github.com/csgura/fp/hlist"
	"github.com/csgura/fp/lazy"
	"github.com/csgura/fp/show"
)

type Derives[T any] interface {
	Target() T
}

var String fp.Show[string] = show.New(func(s string) string {
	return "\u27e6" + strings.ToUpper(s) + "\u27e7"
})

var Time fp.Show[time.Time] = show.Time

var Bool fp.Show[bool] = show.Bool

var HNil fp.Show[hlist.Nil] = show.HNil

func Int[T fp.ImplicitInt]() fp.Show[T] { return show.Int[T]() }

func Number[T fp.ImplicitNum]() fp.Show[T] { return show.Number[T]() }

func Given[T fmt.Stringer]() fp.Show[T] { return show.Given[T]() }

func ContraMap[T, U any](instance fp.Show[T], fn func(U) T) fp.Show[U] {
	return show.ContraMap(instance, fn)
}

func Ptr[T any](tshow lazy.Eval[fp.Show[T]]) fp.Show[*T] { return show.Ptr(tshow) }

func Seq[T any](tshow fp.Show[T]) fp.Show[fp.Seq[T]] { return show.Seq(tshow) }

func Slice[T any](tshow fp.Show[T]) fp.Show[[]T] { return show.Slice(tshow) }

func Option[T any](tshow fp.Show[T]) fp.Show[fp.Option[T]] { return show.Option(tshow) }

func Set[V any](showv fp.Show[V]) fp.Show[fp.Set[V]] { return show.Set(showv) }

func Map[K, V any](showk fp.Show[K], showv fp.Show[V]) fp.Show[fp.Map[K, V]] {
	return show.Map(showk, showv)
}

func GoMap[K comparable, V any](showk fp.Show[K], showv fp.Show[V]) fp.Show[map[K]V] {
	return show.GoMap(showk, showv)
}

func Named[T fp.NamedField[A], A any](ashow fp.Show[A]) fp.Show[T] { return show.Named[T](ashow) }

func HConsLabelled[H fp.Named, T hlist.HList](hshow fp.Show[H], tshow fp.Show[T]) fp.Show[hlist.Cons[H, T]] {
	return show.HConsLabelled(hshow, tshow)
}

func TupleHCons[H any, T hlist.HList](hshow fp.Show[H], tshow fp.Show[T]) fp.Show[hlist.Cons[H, T]] {
	return show.TupleHCons(hshow, tshow)
}

func HCons[H any, T hlist.HList](hshow fp.Show[H], tshow fp.Show[T]) fp.Show[hlist.Cons[H, T]] {
	return show.HCons(hshow, tshow)
}

func Generic[A, Repr any](gen fp.Generic[A, Repr], reprShow fp.Show[Repr]) fp.Show[A] {
	return show.Generic(gen, reprShow)
}

`)
	for n := 2; n <= 21; n++ {
		d, u := insArgsN(n, "Show")
		fmt.Fprintf(&b, "func Labelled%d[%s fp.Named](%s) fp.Show[fp.Labelled%d[%s]] {\n\treturn show.Labelled%d(%s)\n}\n\n", n, typeArgsN(n), d, n, typeArgsN(n), n, u)
	}
	return b.String()
}
