package main

import (
	"bytes"
	"context"
	"fmt"
	"os"
	"os/exec"
	"path/filepath"
	"regexp"
	"strconv"
	"strings"
	"time"
)

func repoDir() string {
	if d := os.Getenv("VERIF_REPO"); d != "" {
		return d
	}
	return "/repo"
}

func childEnv(extra ...string) []string {
	env := []string{}
	for _, e := range os.Environ() {
		if strings.HasPrefix(e, "GOFLAGS=") || strings.HasPrefix(e, "GOPROXY=") || strings.HasPrefix(e, "GOSUMDB=") || strings.HasPrefix(e, "GOTOOLCHAIN=") ||
			strings.HasPrefix(e, "GOPACKAGE=") || strings.HasPrefix(e, "GOFILE=") || strings.HasPrefix(e, "C08_OUT=") {
			continue
		}
		env = append(env, e)
	}
	env = append(env, "GOFLAGS=-mod=mod -trimpath", "GOPROXY=off", "GOSUMDB=off", "GOTOOLCHAIN=local")
	return append(env, extra...)
}

type procResult struct {
	out      string
	exit     int
	timedOut bool
	err      error
}

func runProc(dir string, timeout time.Duration, env []string, name string, args ...string) procResult {
	ctx, cancel := context.WithTimeout(context.Background(), timeout)
	defer cancel()
	cmd := exec.CommandContext(ctx, name, args...)
	cmd.Dir = dir
	cmd.Env = env
	var buf bytes.Buffer
	cmd.Stdout = &buf
	cmd.Stderr = &buf
	cmd.WaitDelay = 5 * time.Second
	err := cmd.Run()
	res := procResult{out: buf.String(), err: err}
	if ctx.Err() == context.DeadlineExceeded {
		res.timedOut = true
	}
	if ee, ok := err.(*exec.ExitError); ok {
		res.exit = ee.ExitCode()
	} else if err != nil {
		res.exit = -1
	}
	return res
}

func writeModule(dir string) error {
	mod := fmt.Sprintf("module %s\n\ngo 1.23\n\nrequire github.com/csgura/fp v0.0.0\n\nreplace github.com/csgura/fp => %s\n", modName, repoDir())
	if err := os.WriteFile(filepath.Join(dir, "go.mod"), []byte(mod), 0o644); err != nil {
		return err
	}
	sum, err := os.ReadFile(filepath.Join(repoDir(), "go.sum"))
	if err != nil {
		return err
	}
	return os.WriteFile(filepath.Join(dir, "go.sum"), sum, 0o644)
}

// buildGombok builds the generator from the working tree of VERIF_REPO into dir/gombok.
func buildGombok(dir string) (string, error) {
	mdir := filepath.Join(dir, "mod")
	if err := os.MkdirAll(mdir, 0o755); err != nil {
		return "", err
	}
	if err := writeModule(mdir); err != nil {
		return "", err
	}
	bin := filepath.Join(dir, "gombok")
	r := runProc(mdir, 20*time.Minute, childEnv(), "go", "build", "-o", bin, "github.com/csgura/fp/cmd/gombok")
	if r.err != nil && strings.Contains(r.out, "go-build") {
		// a concurrently trimmed build cache makes the first attempt fail now and then
		r = runProc(mdir, 20*time.Minute, childEnv(), "go", "build", "-o", bin, "github.com/csgura/fp/cmd/gombok")
	}
	if r.err != nil {
		return "", fmt.Errorf("building gombok from %s failed: %v\n%s", repoDir(), r.err, r.out)
	}
	return bin, nil
}

var reTop = regexp.MustCompile(`(?m)^(func|var) (\w+)`)

// generatedInstances: top-level names of the generated derive file -> "func" | "var".
func generatedInstances(src string) map[string]string {
	out := map[string]string{}
	for _, m := range reTop.FindAllStringSubmatch(src, -1) {
		out[m[2]] = m[1]
	}
	return out
}

var reErrLine = regexp.MustCompile(`(?m)^(?:\./)?([\w./-]+\.go):(\d+):(?:\d+:)? (.*)$`)

type compileErr struct {
	file string
	line int
	msg  string
}

func parseCompileErrors(out string) []compileErr {
	var es []compileErr
	for _, m := range reErrLine.FindAllStringSubmatch(out, -1) {
		n, _ := strconv.Atoi(m[2])
		es = append(es, compileErr{m[1], n, m[3]})
	}
	return es
}

func errClass(msg string) string {
	for _, c := range []struct{ sub, class string }{
		{"undefined:", "undefined"}, {"not enough arguments", "arity"}, {"too many arguments", "arity"},
		{"cannot use", "type-mismatch"}, {"cannot convert", "type-mismatch"}, {"does not satisfy", "constraint"}, {"cannot infer", "inference"},
		{"declared and not used", "unused"}, {"imported and not used", "unused-import"}, {"redeclared", "redeclared"},
		{"missing return", "syntax"}, {"syntax error", "syntax"}, {"unexported", "unexported-field"}, {"cannot refer to unexported", "unexported-field"},
		{"has no field or method", "no-member"}, {"mismatched types", "type-mismatch"}, {"got", "arity"},
	} {
		if strings.Contains(msg, c.sub) {
			return c.class
		}
	}
	return "other"
}

// enclosingInstance finds the generated function that contains a line and its typeclass.
func enclosingInstance(src string, line int) (name, tc string) {
	lines := strings.Split(src, "\n")
	if line > len(lines) {
		line = len(lines)
	}
	for i := line - 1; i >= 0; i-- {
		if m := reTop.FindStringSubmatch(lines[i]); m != nil {
			name = m[2]
			break
		}
	}
	for _, t := range []string{"Hashable", "Monoid", "Clone", "Show", "Ord", "Eq"} {
		if strings.HasPrefix(name, t) {
			return name, t
		}
	}
	return name, "unknown"
}

// law test output ---------------------------------------------------------------------------------------

type lawFail struct{ tc, law, typ, detail string }

type lawOutput struct {
	fails   []lawFail
	stats   map[string]int64 // "<tc>.<name>"
	maxes   map[string]int64
	ended   map[string]bool  // "<tc>|<typ>"
	open    [2]string        // last BEGIN without END
	hasOpen bool
	done    bool
	aborted bool
}

func parseLawOutput(s string) lawOutput {
	o := lawOutput{stats: map[string]int64{}, maxes: map[string]int64{}, ended: map[string]bool{}}
	for _, l := range strings.Split(s, "\n") {
		f := strings.Split(l, "|")
		switch f[0] {
		case "BEGIN":
			if len(f) >= 3 {
				o.open, o.hasOpen = [2]string{f[1], f[2]}, true
			}
		case "END":
			if len(f) >= 3 {
				o.ended[f[1]+"|"+f[2]] = true
				o.hasOpen = false
			}
		case "FAIL":
			if len(f) >= 5 {
				o.fails = append(o.fails, lawFail{f[1], f[2], f[3], strings.Join(f[4:], "|")})
			}
		case "STAT":
			if len(f) >= 4 {
				n, _ := strconv.ParseInt(f[3], 10, 64)
				o.stats[f[1]+"."+f[2]] += n
			}
		case "MAX":
			if len(f) >= 4 {
				n, _ := strconv.ParseInt(f[3], 10, 64)
				if n > o.maxes[f[1]+"."+f[2]] {
					o.maxes[f[1]+"."+f[2]] = n
				}
			}
		case "ABORT":
			o.aborted = true
		case "DONE":
			o.done = true
		}
	}
	return o
}

func trunc(s string, n int) string {
	if len(s) <= n {
		return s
	}
	return s[:n] + "\n… (truncated)"
}
