package main

import (
	"fmt"
	"math/rand/v2"
	"sort"
	"strings"
)

// Forced cases appended after the randomly drawn ones (one batch each).
//
// nestvis:<mix> — nested PLAIN (non-@fp.Value) structs of the working package whose fields are all
// exported / all unexported / mixed and hold reference storage (slice, Go map, pointer, []byte),
// used as field types (directly and inside a slice / Option / pointer / Seq / map) of outer structs
// that derive every typeclass, under three regimes:
//
//   plain      outer and nested struct both carry plain @fp.Derive directives
//   recursive  only the outer struct carries @fp.Derive(recursive=true); the nested instance is
//              expected to be derived on demand
//   plain-without-instance (package wq, Clone only)  nothing is declared for the nested struct
//
// What the unchanged gombok does (probed one directive at a time, 2026-10-04):
//   plain directive, no instance for the nested struct: Eq/Ord/Hashable/Monoid/Show reference an
//     undeclared <TC><Nested>() (= refusal, the output does not compile until the user declares it),
//     whatever the mix; Clone uses the catch-all clone.Given[Nested]() (identity copy);
//   recursive=true: Eq/Ord/Hashable/Monoid/Show derive the nested instance on demand for ALL mixes;
//     Clone derives it on demand for all-exported and mixed, but uses clone.Given[Nested]() for
//     all-unexported (isRecursiveDerivable wants one exported field);
//   a directive on the nested struct itself works for all mixes and typeclasses.
// The property does not care which instance gombok picked: a derived Clone whose copy shares a
// slice / map / pointee with the original violates it; a refusal does not.
//
// tpgeneric — a generic struct declared in the type's package `tp` with instance functions derived
// there (EqBox[T](fp.Eq[T]) fp.Eq[Box[T]]), instantiated as a field type in the working package:
// resolution rule "type's own package" applied to a generic type.

func specialCases(tier string) []string {
	one := []string{"nestvis:" + visAllExported, "nestvis:" + visAllUnexported, "nestvis:" + visMixed, "tpgeneric", "multi", "ondemand"}
	if tier != "thorough" {
		return one
	}
	var out []string
	for i := 0; i < 4; i++ {
		if i < 2 {
			out = append(out, one...)
		} else {
			out = append(out, one[:4]...) // the two large cases (multi, ondemand) are drawn twice
		}
	}
	return out
}

// nestedStruct: a plain struct with the given visibility mix; withMap adds a Go map (then Ord and
// Hashable are not derivable for it).
func (g *gctx) nestedStruct(name, mix string, withMap bool) *Decl {
	r := g.r
	bt := func() *TX { return g.basicType(allTC) }
	var ts []*TX
	if withMap {
		ts = []*TX{wrap(KMap, basic(pick(r, []string{"string", "int"})), bt()), wrap(KSlice, bt()), bt()}
		if chance(r, 50) {
			ts = append(ts, wrap(KPtr, bt()))
		} else {
			ts = append(ts, &TX{K: KBytes})
		}
	} else {
		ts = []*TX{wrap(KSlice, bt()), wrap(KPtr, bt()), {K: KBytes}, bt()}
	}
	switch r.IntN(4) {
	case 0:
		ts = append(ts, wrap(KOption, bt()))
	case 1:
		ts = append(ts, wrap(KSeq, bt()))
	case 2:
		ts = append(ts, wrap(KSlice, wrap(KSlice, bt())))
	}
	r.Shuffle(len(ts), func(i, j int) { ts[i], ts[j] = ts[j], ts[i] })
	d := &Decl{Name: name, IsStruct: true, NestVis: mix, Shape: "nestvis-" + mix}
	off := r.IntN(2)
	for i, t := range ts {
		exported := false
		switch mix {
		case visAllExported:
			exported = true
		case visMixed:
			exported = (i+off)%2 == 0 // at least one of each: there are >= 4 fields
		}
		fn := fmt.Sprintf("x%d", i+1)
		if exported {
			fn = fmt.Sprintf("X%d", i+1)
		}
		d.Fields = append(d.Fields, Field{fn, t})
	}
	return g.add(d)
}

// outerOf: a struct with a basic field, a field of the nested type and a field that wraps it.
func (g *gctx) outerOf(name string, n *Decl, withMap bool) *Decl {
	r := g.r
	wrappers := []Kind{KSlice, KOption, KPtr, KSeq}
	var w *TX
	if withMap && chance(r, 35) {
		w = wrap(KMap, basic("string"), named(n))
	} else {
		w = wrap(pick(r, wrappers), named(n))
	}
	ts := []*TX{g.basicType(allTC), named(n), w}
	r.Shuffle(len(ts), func(i, j int) { ts[i], ts[j] = ts[j], ts[i] })
	value := chance(r, 40)
	d := &Decl{Name: name, IsStruct: true, Value: value, Shape: "nestvis-outer"}
	for i, t := range ts {
		fn := fmt.Sprintf("X%d", i+1)
		if value {
			fn = fmt.Sprintf("x%d", i+1)
		}
		d.Fields = append(d.Fields, Field{fn, t})
	}
	return g.add(d)
}

var mapTCs = TCSet(0).With(Eq).With(Monoid).With(Clone).With(Show)

func genNestVisCase(r *rand.Rand, mix string) *Case {
	c := &Case{}
	wp := &Pkg{Name: "wp"}
	g := &gctx{r: r, p: wp, c: c}
	// optional leaf overrides, as in the random working packages (they change the reference, not the subject)
	if chance(r, 35) {
		wp.Overrides = append(wp.Overrides, &Override{TC: Eq, Name: "EqString", Target: "basic:string", Variant: "fold", AsFunc: chance(r, 30)})
		c.Shapes = append(c.Shapes, "override.EqString")
	}
	for _, rec := range []bool{false, true} {
		sfx := "P"
		if rec {
			sfx = "R"
		}
		na := g.nestedStruct("NA"+sfx, mix, false)
		nm := g.nestedStruct("NM"+sfx, mix, true)
		if !rec {
			g.derive(allTC, na, false)
			g.derive(mapTCs, nm, false)
		}
		oa := g.outerOf("OA"+sfx, na, false)
		om := g.outerOf("OM"+sfx, nm, true)
		g.derive(allTC, oa, rec)
		g.derive(mapTCs, om, rec)
	}
	c.instrumentOrd(wp)
	// the package without any instance for the nested struct: Clone only (every other typeclass refuses)
	wq := &Pkg{Name: "wq", UndeclaredOK: map[string]bool{}}
	gq := &gctx{r: r, p: wq, c: c}
	nq := gq.nestedStruct("NQ", mix, true)
	nq.NoInstance = true
	oq := gq.outerOf("OQ", nq, true)
	gq.derive(TCSet(0).With(Clone), oq, false)
	wq.UndeclaredOK["CloneNQ"] = true
	wq.UndeclaredPrefix = "Clone" // the package derives nothing else
	c.Pkgs = []*Pkg{wp, wq}
	c.Shapes = append(c.Shapes, "nestvis."+mix+".plain", "nestvis."+mix+".recursive", "nestvis."+mix+".plain-without-instance")
	c.ensure(r)
	sort.Strings(c.Shapes)
	return c
}

// nestVisOf: the nested plain structs (with reference storage) a field type reaches without passing
// through another named type, as "<mix>/<regime>" tags; regime as seen from derivation x.
func nestVisOf(t *TX, x *Derive) []string {
	var out []string
	seen := map[string]bool{}
	var walk func(t *TX)
	walk = func(t *TX) {
		if t.K == KNamed {
			d := t.Decl
			if d.NestVis != "" && d.IsStruct && hasMutableStorage(t, map[*Decl]bool{}) {
				regime := "plain"
				switch {
				case x.Recursive:
					regime = "recursive"
				case d.NoInstance:
					regime = "plain-without-instance"
				}
				k := d.NestVis + "/" + regime
				if !seen[k] {
					seen[k] = true
					out = append(out, k)
				}
			}
			return
		}
		for _, e := range t.El {
			walk(e)
		}
	}
	walk(t)
	return out
}

// cloneTag is the violation-key suffix of a field of derivation x whose storage sits in a nested plain struct.
func cloneTag(t *TX, x *Derive) string {
	l := nestVisOf(t, x)
	if len(l) == 0 {
		return ""
	}
	return "nested-plain-struct/" + l[0]
}

// nestVisHits: counters "nestvis.<mix>.<TC>.<regime>" for a derivation whose law test ran to completion.
func nestVisHits(x *Derive) []string {
	if !x.Decl.IsStruct || x.Implicit {
		return nil
	}
	seen := map[string]bool{}
	var out []string
	for _, f := range x.Decl.Fields {
		for _, k := range nestVisOf(f.T, x) {
			mix, regime, _ := strings.Cut(k, "/")
			n := "nestvis." + mix + "." + tcName[x.TC] + "." + regime
			if !seen[n] {
				seen[n] = true
				out = append(out, n)
			}
		}
	}
	return out
}

// ---- generic type of the type's package with instances declared there -----------------------------------

func genTpGenericCase(r *rand.Rand) *Case {
	c := &Case{}
	tp := &Pkg{Name: "tp"}
	gt := &gctx{r: r, p: tp, c: c}
	tcs := gt.chooseTCs(allTC, 65)
	// Box[T]: every field uses T; Duo[A, B]: the last parameter may be unused
	np := 1 + r.IntN(2)
	params := []string{"A", "B"}[:np]
	usable := params
	if np == 2 && chance(r, 40) {
		usable = params[:1]
	}
	d := &Decl{Name: "Box", IsStruct: true, Value: chance(r, 50), Params: params, Shape: "tp-generic"}
	nfld := 2 + r.IntN(3)
	for i := 0; i < nfld; i++ {
		fn := fmt.Sprintf("X%d", i+1)
		if d.Value {
			fn = fmt.Sprintf("x%d", i+1)
		}
		var t *TX
		switch {
		case i < len(usable):
			t = &TX{K: KParam, Param: usable[i]}
		case chance(r, 50):
			t = wrap(pick(r, []Kind{KSlice, KOption, KSeq}), &TX{K: KParam, Param: pick(r, usable)})
		default:
			t = gt.basicType(tcs)
		}
		d.Fields = append(d.Fields, Field{fn, t})
	}
	gt.add(d)
	gt.derive(tcs&d.caps(), d, false)
	wp := &Pkg{Name: "wp", Imports: []*Pkg{tp}}
	gw := &gctx{r: r, p: wp, c: c, avail: []*Decl{d}}
	if chance(r, 40) {
		wp.Overrides = append(wp.Overrides, &Override{TC: Eq, Name: "EqString", Target: "basic:string", Variant: "fold", AsFunc: chance(r, 30)})
		c.Shapes = append(c.Shapes, "override.EqString")
	}
	for k := 0; k < 2; k++ {
		value := chance(r, 50)
		h := &Decl{Name: fmt.Sprintf("H%d", k+1), IsStruct: true, Value: value, Shape: "tp-generic-holder"}
		args := gw.instArgs(d, tcs)
		ts := []*TX{gw.basicType(tcs), named(d, args...)}
		if k == 1 {
			ts = append(ts, wrap(pick(r, []Kind{KSlice, KOption}), named(d, gw.instArgs(d, tcs)...)))
		}
		r.Shuffle(len(ts), func(i, j int) { ts[i], ts[j] = ts[j], ts[i] })
		for i, t := range ts {
			fn := fmt.Sprintf("X%d", i+1)
			if value {
				fn = fmt.Sprintf("x%d", i+1)
			}
			h.Fields = append(h.Fields, Field{fn, t})
		}
		gw.add(h)
		gw.derive(tcs&d.caps(), h, false)
	}
	c.instrumentOrd(wp)
	c.Pkgs = []*Pkg{tp, wp}
	c.Shapes = append(c.Shapes, "tp.generic+instances-derived-in-own-package", "holder-of-imported-generic")
	c.ensure(r)
	sort.Strings(c.Shapes)
	return c
}

// genSpecial dispatches the forced cases.
func genSpecial(r *rand.Rand, what string) *Case {
	if mix, ok := strings.CutPrefix(what, "nestvis:"); ok {
		return genNestVisCase(r, mix)
	}
	switch what {
	case "tpgeneric":
		return genTpGenericCase(r)
	case "multi":
		return genMultiCase(r)
	case "ondemand":
		return genOnDemandCase(r)
	}
	panic("unknown special case " + what)
}

// ---- several directives whose CONTEXTS differ, in both orders ----------------------------------------------
//
// gombok resolves the instances of all directives of a package in one run; whatever it remembers
// between directives must not leak the context of one directive (its recursive=true flag, its derive
// package) into the next. Forced case "multi" = four working packages:
//
//	mp (plain-first), mr (recursive-first): nested plain structs IN<k> for which NOTHING is declared, used
//	  (directly and inside a container) by outer structs OP<k> with a plain Clone directive and OR<k> with
//	  a recursive=true Clone directive, the directives in that / the opposite order. Under the plain
//	  directive gombok takes the catch-all clone.Given (known finding .../plain-without-instance, or a
//	  refusal); under recursive=true it must derive CloneIN<k> on demand whatever it resolved before:
//	  a clone of OR<k> that shares IN<k>'s storage is keyed .../nested-plain-struct/<mix>/recursive.
//	dl (library-first), da (alternative-first): structs with string fields (direct, in slice / Seq /
//	  Option / pointer / map value / Tuple2) deriving Eq and Show alternately through the library's
//	  eq / show package and through the scratch module's own derive packages foldeq / upshow, whose
//	  String instances behave differently (case-insensitive equality; upper-case rendering between
//	  marks); recursive=true directives of both kinds with a nested plain struct derived on demand
//	  (it inherits the directive's derive package), and structs holding a struct derived through the
//	  OTHER package (the nested instance keeps its own). The reference follows the documented order
//	  working package -> type's package -> the directive's derive package.
func genMultiCase(r *rand.Rand) *Case {
	c := &Case{}
	for _, recFirst := range []bool{false, true} {
		p := &Pkg{Name: "mp", Tag: "plain-first", UndeclaredOK: map[string]bool{}, UndeclaredPrefix: "Clone"}
		if recFirst {
			p.Name, p.Tag = "mr", "recursive-first"
		}
		g := &gctx{r: r, p: p, c: c}
		for k, mix := range []string{visAllExported, visMixed} {
			in := g.nestedStruct(fmt.Sprintf("IN%d", k+1), mix, k == 1)
			in.NoInstance = true
			p.UndeclaredOK["Clone"+in.Name] = true
			op := g.outerOf(fmt.Sprintf("OP%d", k+1), in, k == 1)
			or := g.outerOf(fmt.Sprintf("OR%d", k+1), in, k == 1)
			if recFirst {
				g.derive(TCSet(0).With(Clone), or, true)
				g.derive(TCSet(0).With(Clone), op, false)
			} else {
				g.derive(TCSet(0).With(Clone), op, false)
				g.derive(TCSet(0).With(Clone), or, true)
			}
		}
		c.Pkgs = append(c.Pkgs, p)
	}
	for _, altFirst := range []bool{false, true} {
		p := &Pkg{Name: "dl", Tag: "library-first"}
		if altFirst {
			p.Name, p.Tag = "da", "alternative-first"
		}
		g := &gctx{r: r, p: p, c: c}
		str := func() *TX { return basic("string") }
		wrappers := []func() *TX{
			func() *TX { return wrap(KSlice, str()) }, func() *TX { return wrap(KSeq, str()) }, func() *TX { return wrap(KOption, str()) },
			func() *TX { return wrap(KPtr, str()) }, func() *TX { return wrap(KMap, basic("int"), str()) }, func() *TX { return wrap(KTuple2, str(), basic("int")) },
			func() *TX { return wrap(KSlice, wrap(KOption, str())) }, func() *TX { return wrap(KOption, wrap(KSeq, str())) },
		}
		mk := func(name string, extra ...Field) *Decl {
			d := &Decl{Name: name, IsStruct: true, Shape: "multi-derive-package"}
			ts := []*TX{str(), basic(pick(r, []string{"int", "int64", "uint8"})), pick(r, wrappers)(), pick(r, wrappers)()}
			r.Shuffle(len(ts), func(i, j int) { ts[i], ts[j] = ts[j], ts[i] })
			for i, t := range ts {
				d.Fields = append(d.Fields, Field{fmt.Sprintf("X%d", i+1), t})
			}
			for _, f := range extra {
				d.Fields = append(d.Fields, f)
			}
			return g.add(d)
		}
		both := func(d *Decl, rec, alt bool) {
			e, s := "", ""
			if alt {
				e, s = "foldeq", "upshow"
			}
			g.deriveDP(Eq, d, rec, e)
			g.deriveDP(Show, d, rec, s)
		}
		// alternating directives: L1, L3 through one kind of package, L2, L4 through the other
		l1, l2 := mk("L1"), mk("L2")
		both(l1, false, altFirst)
		both(l2, false, !altFirst)
		both(mk("L3"), false, altFirst)
		both(mk("L4"), false, !altFirst)
		// recursive=true with a nested plain struct derived on demand: it inherits the directive's derive package
		for k, alt := range []bool{altFirst, !altFirst} {
			ns := &Decl{Name: fmt.Sprintf("NS%d", k+1), IsStruct: true, NestVis: visAllExported, Shape: "multi-derive-package-nested"}
			ns.Fields = []Field{{"S", str()}, {"N", basic("int")}, {"T", wrap(KSlice, str())}}
			g.add(ns)
			both(mk(fmt.Sprintf("R%d", k+1), Field{"Xn", named(ns)}, Field{"Xs", wrap(pick(r, []Kind{KSlice, KOption, KSeq}), named(ns))}), true, alt)
		}
		// a struct derived through one package holding a struct derived through the other
		both(mk("H1", Field{"Xh", named(l2)}), false, altFirst)
		both(mk("H2", Field{"Xh", wrap(KSlice, named(l1))}), false, !altFirst)
		c.Pkgs = append(c.Pkgs, p)
	}
	c.Shapes = append(c.Shapes, "multi.plain-first", "multi.recursive-first", "multi.library-derive-package-first", "multi.alternative-derive-package-first")
	c.ensure(r)
	sort.Strings(c.Shapes)
	return c
}

// ---- on-demand derivation reached through every container kind, depth 2-3 ---------------------------------
//
// Forced case "ondemand": one working package; only the two root structs carry directives
// (recursive=true, all six typeclasses; the root with Go maps the four that support maps). Root field
// k holds, inside container kind c_k (slice, Seq, Option, pointer, Tuple2 / map value), a plain struct
// N<k> for which nothing is declared; N<k> holds a plain struct LA<k> directly (depth 2) and a plain
// struct LB<k> inside the NEXT container kind (depth 3); the leaves hold a slice, a pointer and basic
// values. Every instance below the roots has to be derived on demand, and the on-demand derivations
// must themselves be recursive: Clone must not share the leaves' storage (keyed
// .../nested-plain-struct/<mix>/recursive), the other typeclasses must compile and be field-wise.
var onDemandKinds = []Kind{KSlice, KSeq, KOption, KPtr, KTuple2, KMap}

func viaName(k Kind) string { return kindNames[k] }

func genOnDemandCase(r *rand.Rand) *Case {
	c := &Case{}
	p := &Pkg{Name: "od"}
	g := &gctx{r: r, p: p, c: c}
	wrapIn := func(k Kind, d *Decl) *TX {
		switch k {
		case KTuple2:
			if chance(r, 50) {
				return wrap(KTuple2, basic("int"), named(d))
			}
			return wrap(KTuple2, named(d), basic("string"))
		case KMap:
			return wrap(KMap, basic(pick(r, []string{"string", "int"})), named(d))
		}
		return wrap(k, named(d))
	}
	leaf := func(name, mix, via string, withMap bool) *Decl {
		tcs := allTC
		if withMap {
			tcs = mapTCs
		}
		d := &Decl{Name: name, IsStruct: true, NestVis: mix, Shape: "ondemand-leaf", Via: via}
		ts := []*TX{wrap(KSlice, g.basicType(tcs)), wrap(KPtr, g.basicType(tcs)), g.basicType(tcs)}
		if chance(r, 50) {
			ts = append(ts, wrap(KSeq, basic("string")))
		}
		r.Shuffle(len(ts), func(i, j int) { ts[i], ts[j] = ts[j], ts[i] })
		for i, t := range ts {
			fn := fmt.Sprintf("X%d", i+1)
			if mix == visMixed && i%2 == 1 {
				fn = fmt.Sprintf("x%d", i+1)
			}
			d.Fields = append(d.Fields, Field{fn, t})
		}
		return g.add(d)
	}
	build := func(root string, kinds []Kind, withMap bool) *Decl {
		rd := &Decl{Name: root, IsStruct: true, Shape: "ondemand-root"}
		for i, k := range kinds {
			mix := []string{visAllExported, visMixed}[i%2]
			next := kinds[(i+1)%len(kinds)]
			sfx := fmt.Sprintf("%s%d", root[1:], i+1)
			la := leaf("LA"+sfx, mix, "direct-below-"+viaName(k), withMap)
			lb := leaf("LB"+sfx, mix, viaName(next)+"-below-"+viaName(k), withMap)
			n := &Decl{Name: "N" + sfx, IsStruct: true, NestVis: visAllExported, Shape: "ondemand-node", Via: viaName(k)}
			n.Fields = []Field{{"A", g.basicType(allTC)}, {"L", named(la)}, {"W", wrapIn(next, lb)}}
			r.Shuffle(len(n.Fields), func(a, b int) { n.Fields[a], n.Fields[b] = n.Fields[b], n.Fields[a] })
			g.add(n)
			rd.Fields = append(rd.Fields, Field{fmt.Sprintf("X%d", i+1), wrapIn(k, n)})
		}
		rd.Fields = append(rd.Fields, Field{"Xb", g.basicType(allTC)})
		return g.add(rd)
	}
	ra := build("RA", onDemandKinds[:5], false)
	rm := build("RM", []Kind{KMap, KSlice, KOption}, true)
	g.derive(allTC, ra, true)
	g.derive(mapTCs, rm, true)
	c.instrumentOrd(p)
	c.Pkgs = []*Pkg{p}
	c.Shapes = append(c.Shapes, "ondemand.depth-2-3-through-every-container")
	c.ensure(r)
	sort.Strings(c.Shapes)
	return c
}
