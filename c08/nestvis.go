package main

import (
	"fmt"
	"math/rand/v2"
	"sort"
	"strings"
)

// Forced cases appended after the randomly drawn ones (one batch each).
//
// nestvis:<mix> — nested PLAIN (non-@fp.Value) structs of the working package whose fields are all
// exported / all unexported / mixed and hold reference storage (slice, Go map, pointer, []byte),
// used as field types (directly and inside a slice / Option / pointer / Seq / map) of outer structs
// that derive every typeclass, under three regimes:
//
//   plain      outer and nested struct both carry plain @fp.Derive directives
//   recursive  only the outer struct carries @fp.Derive(recursive=true); the nested instance is
//              expected to be derived on demand
//   plain-without-instance (package wq, Clone only)  nothing is declared for the nested struct
//
// What the unchanged gombok does (probed one directive at a time, 2026-10-04):
//   plain directive, no instance for the nested struct: Eq/Ord/Hashable/Monoid/Show reference an
//     undeclared <TC><Nested>() (= refusal, the output does not compile until the user declares it),
//     whatever the mix; Clone uses the catch-all clone.Given[Nested]() (identity copy);
//   recursive=true: Eq/Ord/Hashable/Monoid/Show derive the nested instance on demand for ALL mixes;
//     Clone derives it on demand for all-exported and mixed, but uses clone.Given[Nested]() for
//     all-unexported (isRecursiveDerivable wants one exported field);
//   a directive on the nested struct itself works for all mixes and typeclasses.
// The property does not care which instance gombok picked: a derived Clone whose copy shares a
// slice / map / pointee with the original violates it; a refusal does not.
//
// tpgeneric — a generic struct declared in the type's package `tp` with instance functions derived
// there (EqBox[T](fp.Eq[T]) fp.Eq[Box[T]]), instantiated as a field type in the working package:
// resolution rule "type's own package" applied to a generic type.

func specialCases(tier string) []string {
	one := []string{"nestvis:" + visAllExported, "nestvis:" + visAllUnexported, "nestvis:" + visMixed, "tpgeneric"}
	if tier != "thorough" {
		return one
	}
	var out []string
	for i := 0; i < 4; i++ {
		out = append(out, one...)
	}
	return out
}

// nestedStruct: a plain struct with the given visibility mix; withMap adds a Go map (then Ord and
// Hashable are not derivable for it).
func (g *gctx) nestedStruct(name, mix string, withMap bool) *Decl {
	r := g.r
	bt := func() *TX { return g.basicType(allTC) }
	var ts []*TX
	if withMap {
		ts = []*TX{wrap(KMap, basic(pick(r, []string{"string", "int"})), bt()), wrap(KSlice, bt()), bt()}
		if chance(r, 50) {
			ts = append(ts, wrap(KPtr, bt()))
		} else {
			ts = append(ts, &TX{K: KBytes})
		}
	} else {
		ts = []*TX{wrap(KSlice, bt()), wrap(KPtr, bt()), {K: KBytes}, bt()}
	}
	switch r.IntN(4) {
	case 0:
		ts = append(ts, wrap(KOption, bt()))
	case 1:
		ts = append(ts, wrap(KSeq, bt()))
	case 2:
		ts = append(ts, wrap(KSlice, wrap(KSlice, bt())))
	}
	r.Shuffle(len(ts), func(i, j int) { ts[i], ts[j] = ts[j], ts[i] })
	d := &Decl{Name: name, IsStruct: true, NestVis: mix, Shape: "nestvis-" + mix}
	off := r.IntN(2)
	for i, t := range ts {
		exported := false
		switch mix {
		case visAllExported:
			exported = true
		case visMixed:
			exported = (i+off)%2 == 0 // at least one of each: there are >= 4 fields
		}
		fn := fmt.Sprintf("x%d", i+1)
		if exported {
			fn = fmt.Sprintf("X%d", i+1)
		}
		d.Fields = append(d.Fields, Field{fn, t})
	}
	return g.add(d)
}

// outerOf: a struct with a basic field, a field of the nested type and a field that wraps it.
func (g *gctx) outerOf(name string, n *Decl, withMap bool) *Decl {
	r := g.r
	wrappers := []Kind{KSlice, KOption, KPtr, KSeq}
	var w *TX
	if withMap && chance(r, 35) {
		w = wrap(KMap, basic("string"), named(n))
	} else {
		w = wrap(pick(r, wrappers), named(n))
	}
	ts := []*TX{g.basicType(allTC), named(n), w}
	r.Shuffle(len(ts), func(i, j int) { ts[i], ts[j] = ts[j], ts[i] })
	value := chance(r, 40)
	d := &Decl{Name: name, IsStruct: true, Value: value, Shape: "nestvis-outer"}
	for i, t := range ts {
		fn := fmt.Sprintf("X%d", i+1)
		if value {
			fn = fmt.Sprintf("x%d", i+1)
		}
		d.Fields = append(d.Fields, Field{fn, t})
	}
	return g.add(d)
}

var mapTCs = TCSet(0).With(Eq).With(Monoid).With(Clone).With(Show)

func genNestVisCase(r *rand.Rand, mix string) *Case {
	c := &Case{}
	wp := &Pkg{Name: "wp"}
	g := &gctx{r: r, p: wp, c: c}
	// optional leaf overrides, as in the random working packages (they change the reference, not the subject)
	if chance(r, 35) {
		wp.Overrides = append(wp.Overrides, &Override{TC: Eq, Name: "EqString", Target: "basic:string", Variant: "fold", AsFunc: chance(r, 30)})
		c.Shapes = append(c.Shapes, "override.EqString")
	}
	for _, rec := range []bool{false, true} {
		sfx := "P"
		if rec {
			sfx = "R"
		}
		na := g.nestedStruct("NA"+sfx, mix, false)
		nm := g.nestedStruct("NM"+sfx, mix, true)
		if !rec {
			g.derive(allTC, na, false)
			g.derive(mapTCs, nm, false)
		}
		oa := g.outerOf("OA"+sfx, na, false)
		om := g.outerOf("OM"+sfx, nm, true)
		g.derive(allTC, oa, rec)
		g.derive(mapTCs, om, rec)
	}
	c.instrumentOrd(wp)
	// the package without any instance for the nested struct: Clone only (every other typeclass refuses)
	wq := &Pkg{Name: "wq", UndeclaredOK: map[string]bool{}}
	gq := &gctx{r: r, p: wq, c: c}
	nq := gq.nestedStruct("NQ", mix, true)
	nq.NoInstance = true
	oq := gq.outerOf("OQ", nq, true)
	gq.derive(TCSet(0).With(Clone), oq, false)
	wq.UndeclaredOK["CloneNQ"] = true
	wq.UndeclaredPrefix = "Clone" // the package derives nothing else
	c.Pkgs = []*Pkg{wp, wq}
	c.Shapes = append(c.Shapes, "nestvis."+mix+".plain", "nestvis."+mix+".recursive", "nestvis."+mix+".plain-without-instance")
	c.ensure(r)
	sort.Strings(c.Shapes)
	return c
}

// nestVisOf: the nested plain structs (with reference storage) a field type reaches without passing
// through another named type, as "<mix>/<regime>" tags; regime as seen from derivation x.
func nestVisOf(t *TX, x *Derive) []string {
	var out []string
	seen := map[string]bool{}
	var walk func(t *TX)
	walk = func(t *TX) {
		if t.K == KNamed {
			d := t.Decl
			if d.NestVis != "" && d.IsStruct && hasMutableStorage(t, map[*Decl]bool{}) {
				regime := "plain"
				switch {
				case d.NoInstance:
					regime = "plain-without-instance"
				case x.Recursive:
					regime = "recursive"
				}
				k := d.NestVis + "/" + regime
				if !seen[k] {
					seen[k] = true
					out = append(out, k)
				}
			}
			return
		}
		for _, e := range t.El {
			walk(e)
		}
	}
	walk(t)
	return out
}

// cloneTag is the violation-key suffix of a field of derivation x whose storage sits in a nested plain struct.
func cloneTag(t *TX, x *Derive) string {
	l := nestVisOf(t, x)
	if len(l) == 0 {
		return ""
	}
	return "nested-plain-struct/" + l[0]
}

// nestVisHits: counters "nestvis.<mix>.<TC>.<regime>" for a derivation whose law test ran to completion.
func nestVisHits(x *Derive) []string {
	if !x.Decl.IsStruct || x.Implicit {
		return nil
	}
	seen := map[string]bool{}
	var out []string
	for _, f := range x.Decl.Fields {
		for _, k := range nestVisOf(f.T, x) {
			mix, regime, _ := strings.Cut(k, "/")
			n := "nestvis." + mix + "." + tcName[x.TC] + "." + regime
			if !seen[n] {
				seen[n] = true
				out = append(out, n)
			}
		}
	}
	return out
}

// ---- generic type of the type's package with instances declared there -----------------------------------

func genTpGenericCase(r *rand.Rand) *Case {
	c := &Case{}
	tp := &Pkg{Name: "tp"}
	gt := &gctx{r: r, p: tp, c: c}
	tcs := gt.chooseTCs(allTC, 65)
	// Box[T]: every field uses T; Duo[A, B]: the last parameter may be unused
	np := 1 + r.IntN(2)
	params := []string{"A", "B"}[:np]
	usable := params
	if np == 2 && chance(r, 40) {
		usable = params[:1]
	}
	d := &Decl{Name: "Box", IsStruct: true, Value: chance(r, 50), Params: params, Shape: "tp-generic"}
	nfld := 2 + r.IntN(3)
	for i := 0; i < nfld; i++ {
		fn := fmt.Sprintf("X%d", i+1)
		if d.Value {
			fn = fmt.Sprintf("x%d", i+1)
		}
		var t *TX
		switch {
		case i < len(usable):
			t = &TX{K: KParam, Param: usable[i]}
		case chance(r, 50):
			t = wrap(pick(r, []Kind{KSlice, KOption, KSeq}), &TX{K: KParam, Param: pick(r, usable)})
		default:
			t = gt.basicType(tcs)
		}
		d.Fields = append(d.Fields, Field{fn, t})
	}
	gt.add(d)
	gt.derive(tcs&d.caps(), d, false)
	wp := &Pkg{Name: "wp", Imports: []*Pkg{tp}}
	gw := &gctx{r: r, p: wp, c: c, avail: []*Decl{d}}
	if chance(r, 40) {
		wp.Overrides = append(wp.Overrides, &Override{TC: Eq, Name: "EqString", Target: "basic:string", Variant: "fold", AsFunc: chance(r, 30)})
		c.Shapes = append(c.Shapes, "override.EqString")
	}
	for k := 0; k < 2; k++ {
		value := chance(r, 50)
		h := &Decl{Name: fmt.Sprintf("H%d", k+1), IsStruct: true, Value: value, Shape: "tp-generic-holder"}
		args := gw.instArgs(d, tcs)
		ts := []*TX{gw.basicType(tcs), named(d, args...)}
		if k == 1 {
			ts = append(ts, wrap(pick(r, []Kind{KSlice, KOption}), named(d, gw.instArgs(d, tcs)...)))
		}
		r.Shuffle(len(ts), func(i, j int) { ts[i], ts[j] = ts[j], ts[i] })
		for i, t := range ts {
			fn := fmt.Sprintf("X%d", i+1)
			if value {
				fn = fmt.Sprintf("x%d", i+1)
			}
			h.Fields = append(h.Fields, Field{fn, t})
		}
		gw.add(h)
		gw.derive(tcs&d.caps(), h, false)
	}
	c.instrumentOrd(wp)
	c.Pkgs = []*Pkg{tp, wp}
	c.Shapes = append(c.Shapes, "tp.generic+instances-derived-in-own-package", "holder-of-imported-generic")
	c.ensure(r)
	sort.Strings(c.Shapes)
	return c
}

// genSpecial dispatches the forced cases.
func genSpecial(r *rand.Rand, what string) *Case {
	if mix, ok := strings.CutPrefix(what, "nestvis:"); ok {
		return genNestVisCase(r, mix)
	}
	if what == "tpgeneric" {
		return genTpGenericCase(r)
	}
	panic("unknown special case " + what)
}
