package main

import (
	"fmt"
	"strings"
)

// lawGen writes the law test of one package from its SPEC (never from gombok's output; the
// only thing taken from the generated file is the list of instance names that exist).
type lawGen struct {
	p    *Pkg
	fns  strings.Builder
	memo map[string]string
	n    int
}

func (g *lawGen) fn(prefix, key string) (string, bool) {
	k := prefix + "|" + key
	if n, ok := g.memo[k]; ok {
		return n, false
	}
	g.n++
	n := fmt.Sprintf("%s%d", prefix, g.n)
	g.memo[k] = n
	return n, true
}

func (g *lawGen) src(t *TX) string { return t.Src(g.p) }

// fieldsOf: the fields of a struct declaration that take part in an instance generated in ctx,
// with type arguments substituted.
func fieldsOf(t *TX, ctx *Pkg) []Field {
	d := t.Decl
	m := d.bind(t.El)
	var out []Field
	for _, f := range d.Fields {
		out = append(out, Field{f.Name, f.T.Subst(m)})
	}
	return out
}

func (g *lawGen) getStmt(t *TX, v string, n int) string {
	names := make([]string, n)
	for i := range names {
		names[i] = fmt.Sprintf("%s%d", v, i+1)
	}
	return strings.Join(names, ", ") + " := " + g.xfn("XGet_", t) + "(" + v + ")"
}

// xfn: XNew_/XGet_ accessor of a struct type, instantiated.
func (g *lawGen) xfn(prefix string, t *TX) string {
	s := qual(t.Decl, g.p, prefix+t.Decl.Name)
	if len(t.El) > 0 {
		as := make([]string, len(t.El))
		for i, e := range t.El {
			as[i] = g.src(e)
		}
		s += "[" + strings.Join(as, ", ") + "]"
	}
	return s
}

func hlistGet(v string, i int) string {
	s := v
	for ; i > 0; i-- {
		s = "hlist.Tail(" + s + ")"
	}
	return s + ".Head()"
}

// ---- value generators ---------------------------------------------------------------------------

// gen writes func gN(k, d int) T. k >= 0 selects among a handful of values per kind. NEGATIVE k are the
// storage shapes the Clone laws add to their pool, applied at EVERY position of the value at once:
//
//	-1  every slice / Seq / []byte is empty WITH spare capacity (make(T, 0, 4)), every map is empty non-nil
//	-2  every slice / Seq has one element, every map one entry, whose own slices / maps are of shape -1
//	-3  every slice / Seq has one element and spare capacity (len 1, cap 8), elements of shape -3
//
// Options are defined, pointers non-nil (down to the recursion bound), basic leaves take their k = 0 value.
func (g *lawGen) gen(t *TX) string {
	name, fresh := g.fn("g", t.Key())
	if !fresh {
		return name
	}
	T := g.src(t)
	var body string
	el := func(i int) string { return g.gen(t.El[i]) }
	neg := "if k < 0 {\n\tk = 0\n}\n"
	switch t.K {
	case KBasic:
		switch {
		case t.Basic == "bool":
			body = "return k%2 == 0"
		case t.Basic == "string":
			body = `return [...]string{"a", "A", "b", "", "ab", "Ab"}[k%6]`
		case isUnsigned(t.Basic):
			body = fmt.Sprintf("return %s([...]uint8{2, 3, 0, 7, 1, 5}[k%%6])", T)
		case isFloat(t.Basic):
			body = fmt.Sprintf("return %s([...]float64{2, 3, 0, 0.5, 1, 4}[k%%6])", T)
		default:
			body = fmt.Sprintf("return %s([...]int{2, 3, 0, -1, 1, 5}[k%%6])", T)
		}
		body = neg + body
	case KBytes:
		body = "switch k {\ncase -1:\n\treturn make([]byte, 0, 4)\ncase -3:\n\treturn append(make([]byte, 0, 8), 'a')\n}\n" + neg + `return [][]byte{[]byte("ab"), []byte("ba"), []byte("a"), nil, {}, []byte("abc")}[k%6]`
	case KSlice, KSeq:
		e := el(0)
		body = fmt.Sprintf("switch k {\ncase -1:\n\treturn make(%[1]s, 0, 4)\ncase -2:\n\treturn %[1]s{%[2]s(-1, d)}\ncase -3:\n\treturn append(make(%[1]s, 0, 8), %[2]s(-3, d))\n}\n", T, e) + neg +
			fmt.Sprintf("switch k %% 6 {\ncase 0:\n\treturn %[1]s{%[2]s(0, d), %[2]s(1, d)}\ncase 1:\n\treturn %[1]s{%[2]s(1, d), %[2]s(0, d)}\ncase 2:\n\treturn %[1]s{%[2]s(0, d)}\ncase 3:\n\treturn nil\ncase 4:\n\treturn %[1]s{}\n}\nreturn %[1]s{%[2]s(0, d), %[2]s(1, d), %[2]s(2, d)}", T, e)
	case KOption:
		e := el(0)
		body = fmt.Sprintf("if k < 0 {\n\treturn fp.Some(%s(k, d))\n}\n", e) + fmt.Sprintf("switch k %% 4 {\ncase 0:\n\treturn fp.Some(%[1]s(0, d))\ncase 1:\n\treturn fp.Some(%[1]s(1, d))\ncase 2:\n\treturn fp.None[%[2]s]()\n}\nreturn fp.Some(%[1]s(2, d))", e, g.src(t.El[0]))
	case KPtr:
		e := el(0)
		body = fmt.Sprintf("if k < 0 {\n\tif d >= 3 {\n\t\treturn nil\n\t}\n\tv := %[1]s(k, d+1)\n\treturn &v\n}\nif d >= 3 || k%%4 == 2 {\n\treturn nil\n}\nv := %[1]s([...]int{0, 1, 0, 2}[k%%4], d+1)\nreturn &v", e)
	case KMap:
		k0, k1 := `"p"`, `"q"`
		if t.El[0].Basic != "string" {
			k0, k1 = "1", "2"
		}
		e := el(1)
		body = fmt.Sprintf("switch k {\ncase -1:\n\treturn %[1]s{}\ncase -2, -3:\n\treturn %[1]s{%[3]s: %[2]s(-1, d)}\n}\n", T, e, k0) + neg +
			fmt.Sprintf("switch k %% 5 {\ncase 0:\n\treturn %[1]s{%[3]s: %[2]s(0, d), %[4]s: %[2]s(1, d)}\ncase 1:\n\treturn %[1]s{%[3]s: %[2]s(1, d), %[4]s: %[2]s(0, d)}\ncase 2:\n\treturn %[1]s{%[3]s: %[2]s(0, d)}\ncase 3:\n\treturn nil\n}\nreturn %[1]s{}", T, e, k0, k1)
	case KTuple2:
		body = fmt.Sprintf("return %s{I1: %s(k, d), I2: %s(k, d)}", T, el(0), el(1))
	case KHList:
		s := "hlist.Empty()"
		for i := len(t.El) - 1; i >= 0; i-- {
			s = fmt.Sprintf("hlist.Concat(%s(k, d), %s)", el(i), s)
		}
		body = "return " + s
	case KNamed:
		if t.Decl.IsStruct && t.Decl.Simple {
			// targets of hand-written instances: values that tell the instances apart (0 vs 1 differ only
			// in the letter case of one string component, 0 vs 2 only in the last component, 0 vs 4 only
			// in the first), so that picking the wrong one of local / type's package / derive package shows
			fs := fieldsOf(t, g.p)
			firstString := 0
			for i := len(fs) - 1; i >= 0; i-- {
				if fs[i].T.Basic == "string" {
					firstString = i
				}
			}
			args := make([]string, len(fs))
			for i, f := range fs {
				args[i] = fmt.Sprintf("%s(ks[%d], d)", g.gen(f.T), i)
			}
			body = fmt.Sprintf("var ks [%d]int\nswitch k %% 6 {\ncase 1:\n\tks[%d] = 1\ncase 2:\n\tks[%d] = 2\ncase 3, 5:\n\tfor i := range ks {\n\t\tks[i] = k %% 6\n\t}\ncase 4:\n\tks[0] = 2\n}\nif k < 0 {\n\tfor i := range ks {\n\t\tks[i] = k\n\t}\n}\nreturn %s(%s)",
				len(fs), firstString, len(fs)-1, g.xfn("XNew_", t), strings.Join(args, ", "))
		} else if t.Decl.IsStruct {
			fs := fieldsOf(t, g.p)
			args := make([]string, len(fs))
			for i, f := range fs {
				args[i] = fmt.Sprintf("%s(c08k(k, %d), d)", g.gen(f.T), i)
			}
			body = "return " + g.xfn("XNew_", t) + "(" + strings.Join(args, ", ") + ")"
		} else {
			body = fmt.Sprintf("return %s(%s(k, d))", T, g.gen(t.Decl.Under))
		}
	default:
		panic("gen: open type " + t.Key())
	}
	fmt.Fprintf(&g.fns, "func %s(k, d int) %s {\n%s\n}\n\n", name, T, indent(body))
	return name
}

func indent(s string) string { return "\t" + strings.ReplaceAll(s, "\n", "\n\t") }

// ---- equalities -----------------------------------------------------------------------------------

// sem selects how leaves and named types are compared: tc < 0 is structural equality.
type sem struct {
	tc  int // -1 structural, else TC
	ctx *Pkg
	rec bool
	dp  string // derive package of the directive ("" = the library's)
}

func (s sem) key() string {
	if s.tc < 0 {
		return "se"
	}
	return fmt.Sprintf("%s/%s/%v/%s", tcName[s.tc], s.ctx.Name, s.rec, s.dp)
}

func (g *lawGen) resolve(s sem, t *TX) resolution {
	r := resolveNamed(TC(s.tc), s.ctx, t.Decl, s.rec)
	if r.mode == mNone {
		panic(fmt.Sprintf("harness: no instance resolvable for %s[%s] in %s", tcName[s.tc], t.Key(), s.ctx.Name))
	}
	return r
}

// pinned: a generic named type whose instance comes from ANOTHER package (the type's own package)
// gets the instances of its type arguments from the package that asks for it; the basic type arguments
// are therefore pinned to the semantics they have in s.ctx before the reference descends into the
// declaring package. Returns t itself when nothing has to be pinned.
func (g *lawGen) pinned(s sem, t *TX) *TX {
	if s.tc < 0 || t.K != KNamed || len(t.El) == 0 {
		return t
	}
	r := resolveNamed(TC(s.tc), s.ctx, t.Decl, s.rec)
	if r.ctx == nil || r.ctx == s.ctx {
		return t
	}
	changed := false
	n := *t
	n.El = make([]*TX, len(t.El))
	for i, a := range t.El {
		n.El[i] = a
		if a.K == KBasic && a.Sem == "" {
			c := *a
			c.Sem = "std"
			if o := s.ctx.findOverride(TC(s.tc), "basic:"+a.Basic); o != nil {
				c.Sem = o.Variant
			}
			n.El[i] = &c
			changed = true
		}
	}
	if !changed {
		return t
	}
	return &n
}

// eqv: func(a, b T) bool. Structural (nil == empty, pointers by pointee) when s.tc < 0, else the
// equality the documented resolution order gives for Eq / Hashable in package s.ctx.
func (g *lawGen) eqv(s sem, t *TX) string {
	name, fresh := g.fn("e", s.key()+"|"+t.Key())
	if !fresh {
		return name
	}
	T := g.src(t)
	el := func(i int) string { return g.eqv(s, t.El[i]) }
	var body string
	switch t.K {
	case KBasic:
		body = "return a == b"
		if s.tc >= 0 {
			if t.Sem == "fold" {
				body = "return strings.EqualFold(a, b)"
			} else if t.Sem == "" {
				if o := s.ctx.findOverride(TC(s.tc), "basic:"+t.Basic); o != nil && o.Variant == "fold" {
					body = "return strings.EqualFold(a, b)"
				} else if o == nil && s.tc == int(Eq) && s.dp == "foldeq" && t.Basic == "string" {
					// no instance in the working package: the directive's OWN derive package comes next, and
					// foldeq declares a case-insensitive String
					body = "return strings.EqualFold(a, b)"
				}
			}
		}
	case KBytes:
		body = "return rSliceEq(a, b, func(x, y byte) bool { return x == y })"
	case KSlice:
		body = fmt.Sprintf("return rSliceEq(a, b, %s)", el(0))
	case KSeq:
		if s.tc == int(Eq) && s.ctx.SortedSeq {
			body = fmt.Sprintf("return rSortedEq(a, b, %s, %s)", g.less(sem{int(Ord), s.ctx, s.rec, ""}, t.El[0]), el(0))
		} else {
			body = fmt.Sprintf("return rSliceEq(a, b, %s)", el(0))
		}
	case KOption:
		body = fmt.Sprintf("return rOptEq(a, b, %s)", el(0))
	case KPtr:
		body = fmt.Sprintf("return rPtrEq(a, b, %s)", el(0))
	case KMap:
		body = fmt.Sprintf("return rMapEq(a, b, %s)", el(1))
	case KTuple2:
		body = fmt.Sprintf("return %s(a.I1, b.I1) && %s(a.I2, b.I2)", el(0), el(1))
	case KHList:
		var cs []string
		for i := range t.El {
			cs = append(cs, fmt.Sprintf("%s(%s, %s)", el(i), hlistGet("a", i), hlistGet("b", i)))
		}
		body = "return " + strings.Join(cs, " && ")
	case KNamed:
		if pt := g.pinned(s, t); pt != t {
			body = fmt.Sprintf("return %s(a, b)", g.eqv(s, pt))
			break
		}
		d := t.Decl
		fieldwise := func(fs sem) string {
			if !d.IsStruct {
				u := d.Under.Subst(d.bind(t.El))
				return fmt.Sprintf("return %s(%s(a), %s(b))", g.eqv(fs, u), g.src(u), g.src(u))
			}
			fl := fieldsOf(t, fs.ctx)
			var cs []string
			for i, f := range fl {
				cs = append(cs, fmt.Sprintf("%s(a%d, b%d)", g.eqv(fs, f.T), i+1, i+1))
			}
			if len(cs) == 0 {
				return "return true"
			}
			return g.getStmt(t, "a", len(fl)) + "\n" + g.getStmt(t, "b", len(fl)) + "\nreturn " + strings.Join(cs, " &&\n\t")
		}
		if s.tc < 0 {
			body = fieldwise(s)
			break
		}
		r := g.resolve(s, t)
		switch r.mode {
		case mLocalOverride, mTypePkg:
			body = g.customEq(r.ov, t)
		case mDefault:
			if d.IsStruct {
				body = "return any(a) == any(b)"
			} else {
				body = "return a == b"
			}
		default:
			body = fieldwise(sem{s.tc, r.ctx, r.rec, r.dp})
		}
	default:
		panic("eqv: open type " + t.Key())
	}
	fmt.Fprintf(&g.fns, "func %s(a, b %s) bool {\n%s\n}\n\n", name, T, indent(body))
	return name
}

// customEq: the hand-written Eq / Hashable instance of a simple declaration, restated.
func (g *lawGen) customEq(o *Override, t *TX) string {
	d := t.Decl
	comps := simpleComps(d)
	get := func(v string) string {
		if d.IsStruct {
			return g.getStmt(t, v, len(comps))
		}
		return fmt.Sprintf("%s1 := %s(%s)", v, d.Under.Basic, v)
	}
	switch o.Variant {
	case "fold":
		var cs []string
		for i, c := range comps {
			if c == "string" {
				cs = append(cs, fmt.Sprintf("strings.EqualFold(a%d, b%d)", i+1, i+1))
			} else {
				cs = append(cs, fmt.Sprintf("a%d == b%d", i+1, i+1))
			}
		}
		return get("a") + "\n" + get("b") + "\nreturn " + strings.Join(cs, " && ")
	case "first":
		return get("a") + "\n" + get("b") + "\n" + strings.TrimPrefix(useRest(len(comps)), "\t") + "return a1 == b1"
	}
	panic("customEq variant " + o.Variant)
}

// ---- order ------------------------------------------------------------------------------------------

func (g *lawGen) less(s sem, t *TX) string {
	name, fresh := g.fn("l", s.key()+"|"+t.Key())
	if !fresh {
		return name
	}
	T := g.src(t)
	el := func(i int) string { return g.less(s, t.El[i]) }
	lex := func(ls, as, bs []string) string {
		var sb strings.Builder
		for i := range ls {
			fmt.Fprintf(&sb, "if %[1]s(%[2]s, %[3]s) {\n\treturn true\n}\nif %[1]s(%[3]s, %[2]s) {\n\treturn false\n}\n", ls[i], as[i], bs[i])
		}
		sb.WriteString("return false")
		return sb.String()
	}
	var body string
	switch t.K {
	case KBasic:
		body = "return a < b"
		if t.Sem == "fold" {
			body = "return rFoldLess(a, b)"
		} else if t.Sem == "rev" {
			body = "return a > b"
		} else if t.Sem == "" {
			if o := s.ctx.findOverride(Ord, "basic:"+t.Basic); o != nil {
				switch o.Variant {
				case "fold":
					body = "return rFoldLess(a, b)"
				case "rev":
					body = "return a > b"
				}
			}
		}
	case KBytes:
		body = "return rSliceLt(a, b, func(x, y byte) bool { return x < y })"
	case KSlice, KSeq:
		body = fmt.Sprintf("return rSliceLt(a, b, %s)", el(0))
	case KOption:
		body = fmt.Sprintf("return rOptLt(a, b, %s)", el(0))
	case KPtr:
		body = fmt.Sprintf("return rPtrLt(a, b, %s)", el(0))
	case KTuple2:
		body = lex([]string{el(0), el(1)}, []string{"a.I1", "a.I2"}, []string{"b.I1", "b.I2"})
	case KHList:
		var ls, as, bs []string
		for i := range t.El {
			ls, as, bs = append(ls, el(i)), append(as, hlistGet("a", i)), append(bs, hlistGet("b", i))
		}
		body = lex(ls, as, bs)
	case KNamed:
		if pt := g.pinned(s, t); pt != t {
			body = fmt.Sprintf("return %s(a, b)", g.less(s, pt))
			break
		}
		d := t.Decl
		r := g.resolve(s, t)
		switch r.mode {
		case mLocalOverride, mTypePkg:
			// variant rev: the reverse of the default lexicographic order of the components
			comps := simpleComps(d)
			var sb strings.Builder
			if d.IsStruct {
				sb.WriteString(g.getStmt(t, "a", len(comps)) + "\n" + g.getStmt(t, "b", len(comps)) + "\n")
			} else {
				fmt.Fprintf(&sb, "a1 := %s(a)\nb1 := %s(b)\n", d.Under.Basic, d.Under.Basic)
			}
			for i := range comps {
				fmt.Fprintf(&sb, "if a%[1]d != b%[1]d {\n\treturn a%[1]d > b%[1]d\n}\n", i+1)
			}
			sb.WriteString("return false")
			body = sb.String()
		case mDefault:
			body = "return a < b"
		default:
			fs := sem{int(Ord), r.ctx, r.rec, ""}
			if !d.IsStruct {
				u := d.Under.Subst(d.bind(t.El))
				body = fmt.Sprintf("return %s(%s(a), %s(b))", g.less(fs, u), g.src(u), g.src(u))
			} else {
				fl := fieldsOf(t, fs.ctx)
				var ls, as, bs []string
				for i, f := range fl {
					ls, as, bs = append(ls, g.less(fs, f.T)), append(as, fmt.Sprintf("a%d", i+1)), append(bs, fmt.Sprintf("b%d", i+1))
				}
				body = g.getStmt(t, "a", len(fl)) + "\n" + g.getStmt(t, "b", len(fl)) + "\n" + lex(ls, as, bs)
			}
		}
	default:
		panic("less: unsupported type " + t.Key())
	}
	fmt.Fprintf(&g.fns, "func %s(a, b %s) bool {\n%s\n}\n\n", name, T, indent(body))
	return name
}

// ---- monoid -----------------------------------------------------------------------------------------

// combine returns the names of func(a, b T) T and func() T.
func (g *lawGen) combine(s sem, t *TX) (string, string) {
	name, fresh := g.fn("c", s.key()+"|"+t.Key())
	ename := "z" + name
	if !fresh {
		return name, ename
	}
	T := g.src(t)
	var body, empty string
	switch t.K {
	case KBasic:
		variant := t.Sem
		if variant == "" {
			if o := s.ctx.findOverride(Monoid, "basic:"+t.Basic); o != nil {
				variant = o.Variant
			} else if t.Basic == "string" {
				variant = "std"
			} else {
				panic("harness: no Monoid declared for " + t.Basic + " in " + s.ctx.Name)
			}
		}
		switch {
		case t.Basic == "string" && variant == "rev":
			body, empty = "return b + a", `return ""`
		case t.Basic == "string":
			body, empty = "return a + b", `return ""`
		case variant == "product":
			body, empty = "return a * b", "return 1"
		default:
			body, empty = "return a + b", "return 0"
		}
	case KBytes, KSlice, KSeq:
		body, empty = "return rConcat(a, b)", "return nil"
	case KOption:
		c, z := g.combine(s, t.El[0])
		body, empty = fmt.Sprintf("return rOptCombine(a, b, %s)", c), fmt.Sprintf("return fp.Some(%s())", z)
	case KPtr:
		c, _ := g.combine(s, t.El[0])
		body, empty = fmt.Sprintf("return rPtrCombine(a, b, %s)", c), "return nil"
	case KMap:
		body, empty = "return rMapMerge(a, b)", fmt.Sprintf("return %s{}", T)
	case KTuple2:
		c1, z1 := g.combine(s, t.El[0])
		c2, z2 := g.combine(s, t.El[1])
		body = fmt.Sprintf("return %s{I1: %s(a.I1, b.I1), I2: %s(a.I2, b.I2)}", T, c1, c2)
		empty = fmt.Sprintf("return %s{I1: %s(), I2: %s()}", T, z1, z2)
	case KHList:
		b, e := "hlist.Empty()", "hlist.Empty()"
		for i := len(t.El) - 1; i >= 0; i-- {
			c, z := g.combine(s, t.El[i])
			b = fmt.Sprintf("hlist.Concat(%s(%s, %s), %s)", c, hlistGet("a", i), hlistGet("b", i), b)
			e = fmt.Sprintf("hlist.Concat(%s(), %s)", z, e)
		}
		body, empty = "return "+b, "return "+e
	case KNamed:
		if pt := g.pinned(s, t); pt != t {
			c, z := g.combine(s, pt)
			body, empty = fmt.Sprintf("return %s(a, b)", c), fmt.Sprintf("return %s()", z)
			break
		}
		d := t.Decl
		r := g.resolve(s, t)
		switch r.mode {
		case mLocalOverride, mTypePkg:
			// variant swap: numbers add, strings concatenate right-to-left, zero identity
			comps := simpleComps(d)
			cs, zs := make([]string, len(comps)), make([]string, len(comps))
			for i, c := range comps {
				zs[i] = zeroOf(c)
				if c == "string" {
					cs[i] = fmt.Sprintf("b%d + a%d", i+1, i+1)
				} else {
					cs[i] = fmt.Sprintf("a%d + b%d", i+1, i+1)
				}
			}
			if d.IsStruct {
				body = g.getStmt(t, "a", len(comps)) + "\n" + g.getStmt(t, "b", len(comps)) + "\nreturn " + g.xfn("XNew_", t) + "(" + strings.Join(cs, ", ") + ")"
				empty = "return " + g.xfn("XNew_", t) + "(" + strings.Join(zs, ", ") + ")"
			} else {
				body = fmt.Sprintf("a1 := %[1]s(a)\nb1 := %[1]s(b)\nreturn %[2]s(%[3]s)", d.Under.Basic, T, cs[0])
				empty = fmt.Sprintf("return %s(%s)", T, zs[0])
			}
		case mDefault:
			panic("harness: Monoid never resolves by type for " + t.Key())
		default:
			fs := sem{int(Monoid), r.ctx, r.rec, ""}
			if !d.IsStruct {
				u := d.Under.Subst(d.bind(t.El))
				c, z := g.combine(fs, u)
				body = fmt.Sprintf("return %s(%s(%s(a), %s(b)))", T, c, g.src(u), g.src(u))
				empty = fmt.Sprintf("return %s(%s())", T, z)
			} else {
				fl := fieldsOf(t, fs.ctx)
				cs, zs := make([]string, len(fl)), make([]string, len(fl))
				for i, f := range fl {
					c, z := g.combine(fs, f.T)
					cs[i], zs[i] = fmt.Sprintf("%s(a%d, b%d)", c, i+1, i+1), z+"()"
				}
				body = g.getStmt(t, "a", len(fl)) + "\n" + g.getStmt(t, "b", len(fl)) + "\nreturn " + g.xfn("XNew_", t) + "(" + strings.Join(cs, ", ") + ")"
				empty = "return " + g.xfn("XNew_", t) + "(" + strings.Join(zs, ", ") + ")"
			}
		}
	default:
		panic("combine: unsupported type " + t.Key())
	}
	fmt.Fprintf(&g.fns, "func %s(a, b %s) %s {\n%s\n}\n\nfunc %s() %s {\n%s\n}\n\n", name, T, T, indent(body), ename, T, indent(empty))
	return name, ename
}

// ---- classes of fields (violation keys) ------------------------------------------------------------

// fieldClass names the input class of a field: its kind and the strongest resolution rule involved.
func (g *lawGen) fieldClass(s sem, t *TX) string {
	rank := map[string]int{"derive-package": 0, "alternative-derive-package": 1, "parameter": 1, "type-package-derived": 2, "local-derived": 3, "recursive-derived": 4, "type-package": 5, "local-override": 6}
	best := "derive-package"
	up := func(m string) {
		if rank[m] > rank[best] {
			best = m
		}
	}
	seen := map[*Decl]bool{}
	var walk func(s sem, t *TX)
	walk = func(s sem, t *TX) {
		switch t.K {
		case KBasic:
			if t.Sem != "" {
				up("parameter")
			} else if s.tc >= 0 && s.ctx.findOverride(TC(s.tc), "basic:"+t.Basic) != nil {
				up("local-override")
			} else if s.dp != "" && t.Basic == "string" {
				up("alternative-derive-package")
			}
		case KSeq:
			if s.tc == int(Eq) && s.ctx.SortedSeq {
				up("local-override")
			}
		case KNamed:
			if seen[t.Decl] {
				return
			}
			seen[t.Decl] = true
			r := resolveNamed(TC(s.tc), s.ctx, t.Decl, s.rec)
			up(string(r.mode))
			if r.ctx != nil {
				fs := sem{s.tc, r.ctx, r.rec, r.dp}
				if t.Decl.IsStruct {
					for _, f := range fieldsOf(t, r.ctx) {
						walk(fs, f.T)
					}
				} else {
					walk(fs, t.Decl.Under)
				}
			}
			return
		}
		for _, e := range t.El {
			walk(s, e)
		}
	}
	walk(s, t)
	k := kindNames[t.K]
	if t.K == KBasic {
		k = t.Basic
	}
	return k + "/" + best
}

func containsPtr(t *TX, seen map[*Decl]bool) bool {
	if t.K == KPtr {
		return true
	}
	if t.K == KNamed {
		if seen[t.Decl] {
			return false
		}
		seen[t.Decl] = true
		if t.Decl.IsStruct {
			for _, f := range t.Decl.Fields {
				if containsPtr(f.T, seen) {
					return true
				}
			}
		} else if containsPtr(t.Decl.Under, seen) {
			return true
		}
	}
	for _, e := range t.El {
		if containsPtr(e, seen) {
			return true
		}
	}
	return false
}

// ---- pools --------------------------------------------------------------------------------------------

func (g *lawGen) pool(t *TX) string {
	name, fresh := g.fn("pool", t.Key())
	if !fresh {
		return name
	}
	T := g.src(t)
	var sb strings.Builder
	fmt.Fprintf(&sb, "func %s() ([]%s, []int) {\n\tvar vs []%s\n\tvar vr []int\n", name, T, T)
	if t.K == KNamed && t.Decl.IsStruct && len(t.Decl.Fields) > 0 {
		fs := fieldsOf(t, g.p)
		args := make([]string, len(fs))
		for i, f := range fs {
			args[i] = fmt.Sprintf("%s(ks[%d], 0)", g.gen(f.T), i)
		}
		fmt.Fprintf(&sb, "\tmk := func(k, vj, dv int) %s {\n\t\tks := make([]int, %d)\n\t\tfor j := range ks {\n\t\t\tks[j] = k + j\n\t\t}\n\t\tif vj >= 0 {\n\t\t\tks[vj] += dv\n\t\t}\n\t\treturn %s(%s)\n\t}\n",
			T, len(fs), g.xfn("XNew_", t), strings.Join(args, ", "))
		sb.WriteString("\tfor _, k := range []int{0, 1, 2, 0} {\n\t\tvs, vr = append(vs, mk(k, -1, 0)), append(vr, -1)\n\t}\n")
		fmt.Fprintf(&sb, "\tfor j := 0; j < %d; j++ {\n\t\tfor _, dv := range []int{1, 2} {\n\t\t\tvs, vr = append(vs, mk(0, j, dv)), append(vr, j)\n\t\t}\n\t}\n", len(fs))
	} else {
		fmt.Fprintf(&sb, "\tfor k := 0; k < 7; k++ {\n\t\tvs, vr = append(vs, %s(k%%6, 0)), append(vr, -1)\n\t}\n", g.gen(t))
	}
	sb.WriteString("\treturn vs, vr\n}\n\n")
	g.fns.WriteString(sb.String())
	return name
}

// ---- instances handed to generic instance functions -------------------------------------------

func paramSem(tc TC, b string, idx int) string {
	switch tc {
	case Eq, Ord, Hashable:
		if b == "string" {
			return "fold"
		}
	case Monoid:
		if isNumeric(b) {
			if idx%2 == 0 {
				return "product"
			}
			return "sum"
		}
	}
	return "std"
}

func harnessInstance(tc TC, t *TX) string {
	b := t.Basic
	switch tc {
	case Eq:
		if t.Sem == "fold" {
			return "fp.EqFunc[string](strings.EqualFold)"
		}
		return fmt.Sprintf("fp.EqFunc[%s](func(a, b %s) bool { return a == b })", b, b)
	case Ord:
		if t.Sem == "fold" {
			return "fp.LessFunc[string](rFoldLess)"
		}
		return fmt.Sprintf("fp.LessFunc[%s](func(a, b %s) bool { return a < b })", b, b)
	case Hashable:
		if t.Sem == "fold" {
			return "hHash[string]{strings.EqualFold, rFoldHash}"
		}
		if b == "string" {
			return "hHash[string]{func(a, b string) bool { return a == b }, func(s string) uint32 { return uint32(len(s))*31 + 7 }}"
		}
		return fmt.Sprintf("hHash[%s]{func(a, b %s) bool { return a == b }, func(v %s) uint32 { return uint32(v) * 2654435761 }}", b, b, b)
	case Monoid:
		switch {
		case b == "string":
			return `hMonoid[string]{func() string { return "" }, func(a, b string) string { return a + b }}`
		case t.Sem == "product":
			return fmt.Sprintf("hMonoid[%s]{func() %s { return 1 }, func(a, b %s) %s { return a * b }}", b, b, b, b)
		}
		return fmt.Sprintf("hMonoid[%s]{func() %s { return 0 }, func(a, b %s) %s { return a + b }}", b, b, b, b)
	case Clone:
		return fmt.Sprintf("fp.CloneFunc[%s](func(v %s) %s { return v })", b, b, b)
	case Show:
		return fmt.Sprintf("fp.ShowFunc[%s](func(v %s) string { return fmt.Sprint(v) })", b, b)
	}
	panic("harnessInstance")
}

// ---- the law functions ---------------------------------------------------------------------------------

type lawTarget struct {
	x    *Derive
	kind string // "func" or "var": how the generated file declares the instance
}

// genLawTest renders the law test of package p for the derivations that exist in the generated file.
func genLawTest(p *Pkg, targets []lawTarget) (src string, err error) {
	defer func() {
		if r := recover(); r != nil {
			err = fmt.Errorf("%v", r)
		}
	}()
	g := &lawGen{p: p, memo: map[string]string{}}
	var laws strings.Builder
	var calls []string
	for i, tg := range targets {
		x := tg.x
		d := x.Decl
		tc := x.TC
		iname := instanceName(tc, p, d)
		s := sem{int(tc), p, x.Recursive, x.DP}
		// the concrete type the laws run on
		t := named(d)
		var gargs []string
		if len(d.Params) > 0 {
			used := map[string]bool{}
			for _, u := range d.usedParamsFor(tc) {
				used[u] = true
			}
			pool := []string{"int", "string", "int64", "uint8"}
			k := 0
			for _, prm := range d.Params {
				if used[prm] {
					b := pool[k%len(pool)]
					a := &TX{K: KBasic, Basic: b, Sem: paramSem(tc, b, k)}
					t.El = append(t.El, a)
					gargs = append(gargs, fmt.Sprintf("garg{ifaceType[fp.%s[%s]](), %s}", tcName[tc], b, harnessInstance(tc, a)))
					k++
				} else {
					t.El = append(t.El, &TX{K: KBasic, Basic: "bool", Sem: "std"})
				}
			}
		}
		T := g.src(t)
		typ := d.Pkg.Name + "." + d.Name
		// classes of the fields
		var classes []string
		if d.IsStruct {
			for _, f := range fieldsOf(t, p) {
				classes = append(classes, g.fieldClass(s, f.T))
			}
		}
		if len(classes) == 0 {
			u := t
			if !d.IsStruct {
				u = d.Under
			}
			classes = []string{"newtype-" + g.fieldClass(s, u)}
		}
		cl := make([]string, len(classes))
		for j, c := range classes {
			cl[j] = fmt.Sprintf("%q", c)
		}
		classLit := "[]string{" + strings.Join(cl, ", ") + "}"
		fn := fmt.Sprintf("law%d", i+1)
		calls = append(calls, fn)
		fmt.Fprintf(&laws, "// %s[%s] (%s)\nfunc %s() {\n\tif !c08begin(%q, %q) {\n\t\treturn\n\t}\n\tdefer c08end(%q, %q)\n", tcName[tc], T, flagText(x), fn, tcName[tc], typ, tcName[tc], typ)
		iface := fmt.Sprintf("fp.%s[%s]", tcName[tc], T)
		getInst := func(v string) {
			switch {
			case len(d.Params) > 0:
				targs := make([]string, len(t.El))
				for j, e := range t.El {
					targs[j] = g.src(e)
				}
				fmt.Fprintf(&laws, "\t%s, ok := callGeneric[%s](%q, %q, %s[%s]%s)\n\tif !ok {\n\t\treturn\n\t}\n", v, iface, tcName[tc], typ, iname, strings.Join(targs, ", "),
					func() string {
						if len(gargs) == 0 {
							return ""
						}
						return ", " + strings.Join(gargs, ", ")
					}())
			case tg.kind == "var":
				fmt.Fprintf(&laws, "\tvar %s %s = %s\n", v, iface, iname)
			default:
				fmt.Fprintf(&laws, "\tvar %s %s = %s()\n", v, iface, iname)
			}
		}
		getInst("inst")
		fmt.Fprintf(&laws, "\tpool, varied := %s()\n\t_ = varied\n", g.pool(t))
		switch tc {
		case Eq:
			fmt.Fprintf(&laws, "\trunEq(%q, inst, pool, varied, %s, %s)\n", typ, classLit, g.refTop(s, t))
		case Hashable:
			if len(d.Params) > 0 {
				fmt.Fprintf(&laws, "\tagain := inst\n")
			} else {
				getInst("again")
			}
			fmt.Fprintf(&laws, "\trunHash(%q, inst, again, pool, varied, %s, %s)\n", typ, classLit, g.refTop(s, t))
		case Ord:
			tk := "nil"
			if p.hasOrdTick() {
				n := int64(len(classes))
				tk = fmt.Sprintf("&c08tick{ticks: &XOrdTicks, budget: &XOrdBudget, per: %d}", 50000+200*n*n)
			}
			fmt.Fprintf(&laws, "\trunOrd(%q, inst, pool, varied, %s, %s, %s)\n", typ, classLit, g.refTop(s, t), tk)
		case Monoid:
			c, z := g.refTopMonoid(s, t)
			fmt.Fprintf(&laws, "\trunMonoid(%q, inst, pool, varied, %s, %s, %s, %s)\n", typ, classLit, c, z, g.eqv(sem{tc: -1}, t))
		case Clone:
			// fields whose storage sits in a nested plain struct get their own violation key
			tagLit := "nil"
			if d.IsStruct {
				tl := []string{}
				for _, f := range fieldsOf(t, p) {
					tl = append(tl, fmt.Sprintf("%q", cloneTag(f.T, x)))
				}
				tagLit = "[]string{" + strings.Join(tl, ", ") + "}"
			}
			// storage shapes at every position at once: empty slices / Seq with spare capacity and zero-length maps,
			// one-element containers of those, one-element slices with spare capacity (see gen)
			fmt.Fprintf(&laws, "\tpool = append(pool, %[1]s(-1, 0), %[1]s(-2, 0), %[1]s(-3, 0))\n", g.gen(t))
			fmt.Fprintf(&laws, "\trunClone(%q, inst, pool, %s, %s, %v, %s)\n", typ, classLit, tagLit, d.IsStruct, g.eqv(sem{tc: -1}, t))
		case Show:
			// derive-package oracle (only in packages that use the scratch module's upshow next to the library's
			// show): the String instance of the directive's own derive package renders the string leaves
			mode, leaves := 0, "nil"
			if p.usesAltDP(Show) && d.IsStruct {
				if lf := g.strLeaves(t); lf != "" {
					leaves = lf
					mode = 2
					if x.DP == "upshow" {
						mode = 1
					}
				}
			}
			if containsPtr(t, map[*Decl]bool{}) {
				fmt.Fprintf(&laws, "\trunShow(%q, inst, pool, nil, %s, %d)\n", typ, leaves, mode)
			} else {
				fmt.Fprintf(&laws, "\trebuilt, _ := %s()\n\trunShow(%q, inst, pool, rebuilt, %s, %d)\n", g.pool(t), typ, leaves, mode)
			}
		}
		laws.WriteString("}\n\n")
	}
	var body strings.Builder
	body.WriteString("// Law test written by the C08 harness from the package SPEC.\n\n")
	body.WriteString("func TestC08(t *testing.T) {\n")
	for _, c := range calls {
		fmt.Fprintf(&body, "\t%s()\n", c)
	}
	body.WriteString("}\n\n")
	body.WriteString(laws.String())
	body.WriteString(g.fns.String())
	body.WriteString(preludeSrc)
	// keep every import of the prelude used even when a runner is not instantiated
	body.WriteString("\nvar _ = sort.Ints\nvar _ = hlist.Empty\nvar _ = reflect.TypeOf\nvar _ = strings.ToLower\nvar _ fp.Unit\n")
	return withImports(p, body.String()), nil
}

func flagText(x *Derive) string {
	s := "directive"
	if x.Implicit {
		s = "implicit, expected from recursive=true"
	}
	if x.Recursive && !x.Implicit {
		s += " recursive=true"
	}
	return s
}

// refTop: the reference for the derivation's own type is always field-wise in the deriving package
// (the instance under test is the one being generated, whatever other instances exist for it).
func (g *lawGen) refTop(s sem, t *TX) string {
	d := t.Decl
	name, fresh := g.fn("top", s.key()+"|"+t.Key())
	if !fresh {
		return name
	}
	T := g.src(t)
	var body string
	if tcIsOrd := s.tc == int(Ord); tcIsOrd {
		if !d.IsStruct {
			u := d.Under.Subst(d.bind(t.El))
			body = fmt.Sprintf("return %s(%s(a), %s(b))", g.less(s, u), g.src(u), g.src(u))
		} else {
			fl := fieldsOf(t, s.ctx)
			var sb strings.Builder
			sb.WriteString(g.getStmt(t, "a", len(fl)) + "\n" + g.getStmt(t, "b", len(fl)) + "\n")
			for i, f := range fl {
				fmt.Fprintf(&sb, "if %[1]s(a%[2]d, b%[2]d) {\n\treturn true\n}\nif %[1]s(b%[2]d, a%[2]d) {\n\treturn false\n}\n", g.less(s, f.T), i+1)
			}
			sb.WriteString("return false")
			body = sb.String()
		}
	} else {
		if !d.IsStruct {
			u := d.Under.Subst(d.bind(t.El))
			body = fmt.Sprintf("return %s(%s(a), %s(b))", g.eqv(s, u), g.src(u), g.src(u))
		} else {
			fl := fieldsOf(t, s.ctx)
			var cs []string
			for i, f := range fl {
				cs = append(cs, fmt.Sprintf("%s(a%d, b%d)", g.eqv(s, f.T), i+1, i+1))
			}
			body = g.getStmt(t, "a", len(fl)) + "\n" + g.getStmt(t, "b", len(fl)) + "\nreturn " + strings.Join(cs, " &&\n\t")
		}
	}
	fmt.Fprintf(&g.fns, "func %s(a, b %s) bool {\n%s\n}\n\n", name, T, indent(body))
	return name
}

func (g *lawGen) refTopMonoid(s sem, t *TX) (string, string) {
	d := t.Decl
	name, fresh := g.fn("topc", s.key()+"|"+t.Key())
	ename := "z" + name
	if !fresh {
		return name, ename
	}
	T := g.src(t)
	var body, empty string
	if !d.IsStruct {
		u := d.Under.Subst(d.bind(t.El))
		c, z := g.combine(s, u)
		body = fmt.Sprintf("return %s(%s(%s(a), %s(b)))", T, c, g.src(u), g.src(u))
		empty = fmt.Sprintf("return %s(%s())", T, z)
	} else {
		fl := fieldsOf(t, s.ctx)
		cs, zs := make([]string, len(fl)), make([]string, len(fl))
		for i, f := range fl {
			c, z := g.combine(s, f.T)
			cs[i], zs[i] = fmt.Sprintf("%s(a%d, b%d)", c, i+1, i+1), z+"()"
		}
		body = g.getStmt(t, "a", len(fl)) + "\n" + g.getStmt(t, "b", len(fl)) + "\nreturn " + g.xfn("XNew_", t) + "(" + strings.Join(cs, ", ") + ")"
		empty = "return " + g.xfn("XNew_", t) + "(" + strings.Join(zs, ", ") + ")"
	}
	fmt.Fprintf(&g.fns, "func %s(a, b %s) %s {\n%s\n}\n\nfunc %s() %s {\n%s\n}\n\n", name, T, T, indent(body), ename, T, indent(empty))
	return name, ename
}

// ---- string leaves (derive-package oracle of Show) -------------------------------------------------------

// usesAltDP: some directive of the package for tc names one of the scratch module's own derive packages.
func (p *Pkg) usesAltDP(tc TC) bool {
	for _, x := range p.Derives {
		if x.TC == tc && x.DP != "" {
			return true
		}
	}
	return false
}

// strLeaves writes func(v T) []string returning the string values a derived Show of the struct type t
// renders through the String instance of the directive's own derive package: string fields and strings
// inside slices / Seq / Options / pointers / map keys and values / Tuple2 of the fields - not those
// inside a nested named type (its instance has a directive, and a derive package, of its own). Returns
// "" when a field of the struct is or contains a named type (then the presence / absence of the other
// package's rendering says nothing about this directive).
func (g *lawGen) strLeaves(t *TX) string {
	fs := fieldsOf(t, g.p)
	hasNamed := false
	for _, f := range fs {
		f.T.walk(func(x *TX) {
			if x.K == KNamed || x.K == KHList {
				hasNamed = true
			}
		})
	}
	if hasNamed {
		return ""
	}
	name, fresh := g.fn("sl", t.Key())
	if !fresh {
		return name
	}
	var walk func(t *TX, v string, depth int) string
	walk = func(t *TX, v string, depth int) string {
		it := fmt.Sprintf("e%d", depth)
		switch t.K {
		case KBasic:
			if t.Basic == "string" {
				return "out = append(out, " + v + ")\n"
			}
		case KSlice, KSeq:
			if in := walk(t.El[0], it, depth+1); in != "" {
				return fmt.Sprintf("for _, %s := range %s {\n%s}\n", it, v, in)
			}
		case KOption:
			if in := walk(t.El[0], it, depth+1); in != "" {
				return fmt.Sprintf("if %s.IsDefined() {\n\t%s := %s.Get()\n%s}\n", v, it, v, in)
			}
		case KPtr:
			if in := walk(t.El[0], it, depth+1); in != "" {
				return fmt.Sprintf("if %s != nil {\n\t%s := *%s\n%s}\n", v, it, v, in)
			}
		case KMap:
			kin, vin := walk(t.El[0], "k"+it, depth+1), walk(t.El[1], it, depth+1)
			if kin != "" || vin != "" {
				return fmt.Sprintf("for k%s, %s := range %s {\n\t_, _ = k%s, %s\n%s%s}\n", it, it, v, it, it, kin, vin)
			}
		case KTuple2:
			return walk(t.El[0], v+".I1", depth+1) + walk(t.El[1], v+".I2", depth+1)
		}
		return ""
	}
	var body strings.Builder
	body.WriteString(g.getStmt(t, "v", len(fs)) + "\nvar out []string\n")
	for i, f := range fs {
		fmt.Fprintf(&body, "_ = v%d\n", i+1)
		body.WriteString(walk(f.T, fmt.Sprintf("v%d", i+1), 0))
	}
	body.WriteString("return out")
	fmt.Fprintf(&g.fns, "func %s(v %s) []string {\n%s\n}\n\n", name, g.src(t), indent(body.String()))
	return name
}
