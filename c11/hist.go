// History cases: an instance is an object that is used many times, and what Combine returns is a
// value the caller keeps.  A history case builds the instance expression twice through new
// constructor calls (#0, #1) and also uses the table's long-lived instance (#2), draws a few
// inputs, takes Empty() of every instance, and then runs a PRNG script of Combines whose operands
// are inputs, kept Empty() values and — un-copied — the results of earlier steps: the latest
// result as the left operand of the next Combine of the same instance (what a fold or Scan does),
// as the right operand, the same left operand again with another right operand
// (x := C(a,b); y := C(x,c); z := C(x,d)), C(x,x), C(x,Empty), C(Empty,x), and results of one
// instance as operands of the other.
//
// Oracle.  Every kept value carries the rendering the plain-Go reference gave it when it was
// made.  Before a step both operands are rendered again and must still equal that reference
// (inputs: arguments-modified, results: result-changed-by-later-combine, Empty() values:
// empty-changed-by-use); only then is the expectation refC(x,y) computed from them, so it is the
// reference's answer for the reference's operands.  After the step the operands are rendered once
// more; at a PRNG midpoint and at the end every kept value is, and at the end every kept Empty()
// value must still be a two-sided identity of a kept result.  A wrong result that a brand-new
// instance gets right on the same operands is keyed combine-depends-on-history.
package main

import (
	"fmt"
	"math/rand/v2"
	"strconv"
	"strings"

	"verif/vrt"
)

type hval struct {
	v    any
	ref  string // rendering by the reference
	kind byte   // 'i' input, 'e' Empty() value, 'r' result of a Combine
	desc string
	w    int // weight: bounds the growth of values under repeated self-combination
	okAt int // number of Combines done when it was last compared with ref
	by   int // results: the instance that made it
}

const histWeightCap = 1500

func weightOf(ref string) int { return 1 + len(ref)/16 }

func histCase(w *vrt.W, i int, r *rand.Rand, loc *local, d *dyn) {
	w.Begin(i, d.site)
	var pool []*hval
	var script []string
	var inputSizes []int
	sizedUsed := 0
	witness := func() any {
		ins := []string{}
		for _, h := range pool {
			if h.kind == 'i' {
				ins = append(ins, h.desc+" = "+short(h.ref))
			}
		}
		m := map[string]any{"instance": d.name, "kind": "history", "inputs": ins, "script": script}
		if sizedUsed > 0 {
			m["input_sizes"] = inputSizes
		}
		return m
	}
	var c struct {
		steps, resLeft, resRight, latestLeftSame, latestRightSame, self, withEmpty, fork, second, table, cross, rechecks, identityAfter int64
	}
	stopped := false
	w.Guard(i, witness, func() {
		insts := []ops{d.mk(), d.mk(), d.table}
		done := 0 // Combines so far
		fail := func(key, detail string) {
			stopped = true
			w.Violation(i, key, short(detail)+"\ninstance "+d.name+"\nhistory (#0, #1: two instances from two constructor calls, #2: the instance every other case of this worker uses):\n  "+strings.Join(script, "\n  "), witness())
		}
		// verify compares a kept value with its reference rendering again
		verify := func(h *hval, when string) bool {
			if h.okAt == done {
				return true
			}
			c.rechecks++
			g := d.norm(h.v)
			if g == h.ref {
				h.okAt = done
				return true
			}
			switch h.kind {
			case 'i':
				fail(d.site+"/arguments-modified", fmt.Sprintf("%s: input %s rendered %s when it was drawn and renders %s now", when, h.desc, short(h.ref), short(g)))
			case 'e':
				fail(d.site+"/empty-changed-by-use", fmt.Sprintf("%s: %s rendered %s when Empty() returned it and renders %s now", when, h.desc, short(h.ref), short(g)))
			default:
				fail(d.site+"/result-changed-by-later-combine", fmt.Sprintf("%s: the kept result %s rendered %s (as the reference says) when Combine returned it and renders %s now", when, h.desc, short(h.ref), short(g)))
			}
			return false
		}
		verifyAll := func(when string) bool {
			for _, h := range pool {
				if !verify(h, when) {
					return false
				}
			}
			return true
		}

		// inputs
		nIn := 3 + r.IntN(4)
		sized := r.IntN(3) == 0
		limit := sizeLimit(d.width)
		sizes := make([]int, nIn)
		if sized {
			big := 0
			for k := range sizes {
				if r.IntN(2) == 0 {
					sizes[k] = drawLarge(r, limit)
				} else {
					sizes[k] = drawTiny(r)
				}
				big = max(big, sizes[k])
			}
			for k := range sizes {
				setHint(sizes[k], universeFor(big))
				v := d.gen(r)
				sizedUsed += clearHint()
				ref := d.norm(v)
				pool = append(pool, &hval{v: v, ref: ref, kind: 'i', desc: "in" + strconv.Itoa(k), w: weightOf(ref)})
			}
			inputSizes = sizes
		} else {
			for k := 0; k < nIn; k++ {
				v := d.gen(r)
				ref := d.norm(v)
				pool = append(pool, &hval{v: v, ref: ref, kind: 'i', desc: "in" + strconv.Itoa(k), w: weightOf(ref)})
			}
		}
		// the Empty() value of every instance is kept and used like any other value
		var empties []*hval
		if d.isMonoid {
			w.Site(d.site + ".Empty")
			for k, in := range insts {
				e := in.empty()
				want := d.refE()
				if g := d.norm(e); g != want {
					fail(d.blameE()+"/empty-not-as-named", fmt.Sprintf("#%d.Empty() = %s, expected %s", k, short(g), want))
					return
				}
				h := &hval{v: e, ref: want, kind: 'e', desc: "E" + strconv.Itoa(k), w: 1}
				pool = append(pool, h)
				empties = append(empties, h)
			}
		}
		w.Site(d.site + ".Combine")

		var results []*hval
		last := []*hval{nil, nil, nil} // latest result per instance
		var prevX *hval                // left operand of the previous step
		prevInst := 0

		// step runs one Combine on instance k and keeps the result
		step := func(k int, x, y *hval, why string) *hval {
			if !verify(x, "before "+why) || !verify(y, "before "+why) {
				return nil
			}
			want := d.refC(x.v, y.v)
			name := "r" + strconv.Itoa(len(results))
			script = append(script, fmt.Sprintf("%s := #%d.Combine(%s, %s)   // %s", name, k, x.desc, y.desc, why))
			got := insts[k].combine(x.v, y.v)
			done++
			c.steps++
			if g := d.norm(got); g != want {
				fresh := d.mk()
				if g2 := d.norm(fresh.combine(x.v, y.v)); g2 == want {
					fail(d.site+"/combine-depends-on-history", fmt.Sprintf("%s = %s, but a new instance of the same expression gives %s on the same two operands, which is what the instance is named to give\n%s = %s\n%s = %s", name, short(g), short(want), x.desc, short(x.ref), y.desc, short(y.ref)))
				} else {
					fail(d.blame(x.v, y.v)+"/combine-not-as-named", fmt.Sprintf("%s = %s, but the instance is named/defined to give %s\n%s = %s\n%s = %s", name, short(g), short(want), x.desc, short(x.ref), y.desc, short(y.ref)))
				}
				return nil
			}
			res := &hval{v: got, ref: want, kind: 'r', desc: name, w: x.w + y.w, okAt: done, by: k}
			// the operands are still what they were
			if !verify(x, "after "+name) || !verify(y, "after "+name) {
				return nil
			}
			// coverage
			if x.kind == 'r' {
				c.resLeft++
				if x == last[k] {
					c.latestLeftSame++
				}
				if x.by != k {
					c.cross++
				}
			}
			if y.kind == 'r' {
				c.resRight++
				if y == last[k] {
					c.latestRightSame++
				}
				if y.by != k {
					c.cross++
				}
			}
			if x == y {
				c.self++
			}
			if x.kind == 'e' || y.kind == 'e' {
				c.withEmpty++
			}
			if prevX == x && x.kind == 'r' {
				c.fork++
			}
			switch k {
			case 1:
				c.second++
			case 2:
				c.table++
			}
			pool = append(pool, res)
			results = append(results, res)
			last[k] = res
			prevX, prevInst = x, k
			return res
		}
		anyOf := func() *hval { return pool[r.IntN(len(pool))] }
		anyInput := func() *hval { return pool[r.IntN(nIn)] }
		// fit replaces operands that would make the result too heavy
		fit := func(x, y *hval) (*hval, *hval) {
			for try := 0; try < 4 && x.w+y.w > histWeightCap; try++ {
				if try%2 == 0 {
					y = anyInput()
				} else {
					x = anyInput()
				}
			}
			return x, y
		}

		nSteps := 6 + r.IntN(15)
		mid := r.IntN(nSteps)
		for s := 0; s < nSteps && !stopped; s++ {
			// the instance: mostly the same as in the previous step
			k := prevInst
			if s == 0 || r.IntN(3) == 0 {
				k = r.IntN(5) % 3 // #0 and #1 twice as often as the table's instance
			}
			latest := last[k]
			if latest == nil && len(results) > 0 {
				latest = results[len(results)-1]
			}
			var x, y *hval
			why := ""
			switch op := r.IntN(10); {
			case latest == nil:
				x, y, why = anyInput(), anyInput(), "two inputs"
			case op < 3:
				x, y, why = latest, anyOf(), "latest result as left operand"
			case op < 5:
				x, y, why = anyOf(), latest, "latest result as right operand"
			case op == 5 && prevX != nil:
				x, y, why = prevX, anyOf(), "the previous left operand once more"
			case op == 6:
				x = results[r.IntN(len(results))]
				y, why = x, "a result with itself"
			case op == 7 && len(empties) > 0:
				e := empties[r.IntN(len(empties))]
				if r.IntN(2) == 0 {
					x, y, why = latest, e, "a kept Empty() value as right operand"
				} else {
					x, y, why = e, latest, "a kept Empty() value as left operand"
				}
			case op == 8:
				x, y, why = results[r.IntN(len(results))], results[r.IntN(len(results))], "two earlier results"
			default:
				x, y, why = anyOf(), anyOf(), "any two kept values"
			}
			x, y = fit(x, y)
			if x.w+y.w > histWeightCap {
				continue
			}
			if step(k, x, y, why) == nil {
				return
			}
			if s == mid && !verifyAll("after step "+strconv.Itoa(s)) {
				return
			}
		}
		if stopped || !verifyAll("after the last step") {
			return
		}
		// Empty() values that were used as operands are still identities of a kept value, on
		// every instance; so is the next Empty()
		if d.isMonoid {
			x := pool[r.IntN(len(pool))]
			for k, in := range insts {
				for _, e := range []*hval{empties[k], {v: in.empty(), ref: d.refE(), kind: 'e', desc: "a new #" + strconv.Itoa(k) + ".Empty()", okAt: -1}} {
					if !verify(e, "at the end") {
						return
					}
					for side := 0; side < 2; side++ {
						var got any
						what := ""
						if side == 0 {
							got, what = in.combine(e.v, x.v), fmt.Sprintf("#%d.Combine(%s, %s)", k, e.desc, x.desc)
						} else {
							got, what = in.combine(x.v, e.v), fmt.Sprintf("#%d.Combine(%s, %s)", k, x.desc, e.desc)
						}
						done++
						c.identityAfter++
						if g := d.norm(got); g != x.ref {
							key := d.site + "/identity-lost-after-use"
							fresh := d.mk()
							var g2 string
							if side == 0 {
								g2 = d.norm(fresh.combine(fresh.empty(), x.v))
							} else {
								g2 = d.norm(fresh.combine(x.v, fresh.empty()))
							}
							if g2 != x.ref {
								key = d.site + []string{"/left-identity", "/right-identity"}[side]
							}
							fail(key, fmt.Sprintf("after the history %s = %s, but %s = %s", what, short(g), x.desc, short(x.ref)))
							return
						}
					}
				}
			}
			verifyAll("after the identity checks")
		}
	})
	w.Done(i)
	loc.add("histories", 1)
	loc.add("histinst."+d.name, 1)
	for _, s := range d.combs {
		loc.add("hit."+s, 1)
	}
	loc.add("histories.steps", c.steps)
	loc.add("histories.result_as_left_operand", c.resLeft)
	loc.add("histories.result_as_right_operand", c.resRight)
	loc.add("histories.latest_result_as_left_operand_of_same_instance", c.latestLeftSame)
	loc.add("histories.latest_result_as_right_operand_of_same_instance", c.latestRightSame)
	loc.add("histories.result_combined_with_itself", c.self)
	loc.add("histories.kept_empty_as_operand", c.withEmpty)
	loc.add("histories.same_left_operand_twice_in_a_row", c.fork)
	loc.add("histories.steps_on_second_instance", c.second)
	loc.add("histories.steps_on_table_instance", c.table)
	loc.add("histories.result_of_other_instance_as_operand", c.cross)
	loc.add("histories.kept_values_reread", c.rechecks)
	loc.add("histories.identity_checks_after_use", c.identityAfter)
	if sizedUsed > 0 {
		loc.add("histories.sized", 1)
	}
	w.Max("max_history_steps", c.steps)
	// non-trivial: results were fed back both as left and as right operands
	if c.resLeft > 0 && c.resRight > 0 {
		loc.add("histories.nontrivial", 1)
		h := "hist|" + d.name
		for _, v := range pool {
			if v.kind == 'i' {
				h += "|" + v.ref
				if len(h) > 3000 {
					break
				}
			}
		}
		w.DistinctHash(vrt.Hash64(h + "|" + strings.Join(script, ";")))
		if w.WantSample() && len(script) <= 10 && r.IntN(100) == 0 {
			w.Sample(witness())
		}
	}
}
