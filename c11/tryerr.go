// Distinguishable failures: which failure survives.
//
// monoid.Try(m).Combine(a, b) is try.Map2(a, b, m.Combine) = FlatMap(a, …Map(b, …)): when a is a
// failure the result carries a's error, else when b is a failure b's error.  So monoid.Try keeps
// the failure of its LEFT operand, a left fold keeps the FIRST failure of the sequence;
// monoid.Dual flips the operands, so Dual(Try(m)) keeps the RIGHT operand's failure and a fold
// the LAST one; monoid.Option lifts with None absorbing on either side (None wins over any
// failure); monoid.IMap transports.  The law / history / sequence cases render every failure as
// "Failure"; here every failure of a case carries its own error value (distinct pointers, some
// with equal messages, some comparable non-pointer values) and the surviving error is compared
// by identity against a plain-Go model of that behaviour: for Combine on pairs, associativity on
// triples, the plain Combine loop, and the five Reduce/FoldMap implementations (handed the
// library's own instance value).
package main

import (
	"fmt"
	"math/rand/v2"
	"slices"
	"strconv"

	"verif/vrt"

	"github.com/csgura/fp"
	"github.com/csgura/fp/iterator"
	"github.com/csgura/fp/list"
	"github.com/csgura/fp/monoid"
	"github.com/csgura/fp/option"
	"github.com/csgura/fp/seq"
)

type sentinelErr struct {
	id  int
	msg string
}

func (e *sentinelErr) Error() string { return e.msg }

type codeErr int

func (e codeErr) Error() string { return "code " + strconv.Itoa(int(e)) }

// mel: a model element / model result
type mel struct {
	kind int // 0 success, 1 failure, 2 none
	s    string
	e    error
	tag  string // rendering of the error: "#<id> <msg>"
}

func (a mel) same(b mel) bool {
	if a.kind != b.kind {
		return false
	}
	switch a.kind {
	case 0:
		return a.s == b.s
	case 1:
		return a.e == b.e // pointer identity for *sentinelErr, value equality for codeErr
	}
	return true
}

func (a mel) String() string {
	switch a.kind {
	case 0:
		return "Success(" + strconv.Quote(a.s) + ")"
	case 1:
		return "Failure(" + a.tag + ")"
	}
	return "None"
}

// the named behaviour: None absorbs; else the left failure; else the right failure; else
// concatenation.  flip: the instance flips its operands (an odd number of Dual).
func melCombine(a, b mel, flip bool) mel {
	if flip {
		a, b = b, a
	}
	switch {
	case a.kind == 2 || b.kind == 2:
		return mel{kind: 2}
	case a.kind == 1:
		return a
	case b.kind == 1:
		return b
	}
	return mel{kind: 0, s: a.s + b.s}
}

type teInst[T any] struct {
	name    string
	flip    bool
	hasNone bool
	mk      func() fp.Monoid[T]
	mo      fp.Monoid[T]
	inj     func(mel) T
	obs     func(T, map[error]string) mel
}

func tryInj(m mel) fp.Try[string] {
	if m.kind == 1 {
		return fp.Failure[string](m.e)
	}
	return fp.Success(m.s)
}

func tryObs(t fp.Try[string], tags map[error]string) mel {
	if t.IsSuccess() {
		return mel{kind: 0, s: t.Get()}
	}
	_, err := t.Unapply()
	tag, ok := tags[err]
	if !ok {
		tag = fmt.Sprintf("an error that is none of the inputs: %T %v", err, err)
	}
	return mel{kind: 1, e: err, tag: tag}
}

type tryS = fp.Try[string]

var tryErrTable []func(w *vrt.W, i int, r *rand.Rand, loc *local)
var tryErrNames []string

func addTE[T any](in teInst[T]) {
	in.mo = in.mk()
	tryErrNames = append(tryErrNames, in.name)
	tryErrTable = append(tryErrTable, func(w *vrt.W, i int, r *rand.Rand, loc *local) { tryErrCase(w, i, r, loc, in) })
}

func init() {
	mTry := func() fp.Monoid[tryS] { return monoid.Try(monoid.String) }
	box := func(v tryS) boxed[tryS] { return boxed[tryS]{v} }
	unbox := func(b boxed[tryS]) tryS { return b.V }
	dbox := func(v fp.Dual[tryS]) boxed[fp.Dual[tryS]] { return boxed[fp.Dual[tryS]]{v} }
	dunbox := func(b boxed[fp.Dual[tryS]]) fp.Dual[tryS] { return b.V }
	optInj := func(m mel) fp.Option[tryS] {
		if m.kind == 2 {
			return option.None[tryS]()
		}
		return option.Some(tryInj(m))
	}
	optObs := func(o fp.Option[tryS], tags map[error]string) mel {
		if o.IsEmpty() {
			return mel{kind: 2}
		}
		return tryObs(o.Get(), tags)
	}
	addTE(teInst[tryS]{name: "monoid.Try(monoid.String)", mk: mTry, inj: tryInj, obs: tryObs})
	addTE(teInst[fp.Dual[tryS]]{name: "monoid.Dual(monoid.Try(monoid.String))", flip: true,
		mk:  func() fp.Monoid[fp.Dual[tryS]] { return monoid.Dual(mTry()) },
		inj: func(m mel) fp.Dual[tryS] { return fp.Dual[tryS]{GetDual: tryInj(m)} },
		obs: func(d fp.Dual[tryS], tags map[error]string) mel { return tryObs(d.GetDual, tags) }})
	addTE(teInst[fp.Option[tryS]]{name: "monoid.Option(monoid.Try(monoid.String))", hasNone: true,
		mk: func() fp.Monoid[fp.Option[tryS]] { return monoid.Option(mTry()) }, inj: optInj, obs: optObs})
	addTE(teInst[boxed[tryS]]{name: "monoid.IMap(monoid.Try(monoid.String))",
		mk:  func() fp.Monoid[boxed[tryS]] { return monoid.IMap(mTry(), box, unbox) },
		inj: func(m mel) boxed[tryS] { return box(tryInj(m)) },
		obs: func(b boxed[tryS], tags map[error]string) mel { return tryObs(b.V, tags) }})
	addTE(teInst[fp.Dual[boxed[tryS]]]{name: "monoid.Dual(monoid.IMap(monoid.Try(monoid.String)))", flip: true,
		mk:  func() fp.Monoid[fp.Dual[boxed[tryS]]] { return monoid.Dual(monoid.IMap(mTry(), box, unbox)) },
		inj: func(m mel) fp.Dual[boxed[tryS]] { return fp.Dual[boxed[tryS]]{GetDual: box(tryInj(m))} },
		obs: func(d fp.Dual[boxed[tryS]], tags map[error]string) mel { return tryObs(d.GetDual.V, tags) }})
	addTE(teInst[boxed[fp.Dual[tryS]]]{name: "monoid.IMap(monoid.Dual(monoid.Try(monoid.String)))", flip: true,
		mk:  func() fp.Monoid[boxed[fp.Dual[tryS]]] { return monoid.IMap(monoid.Dual(mTry()), dbox, dunbox) },
		inj: func(m mel) boxed[fp.Dual[tryS]] { return dbox(fp.Dual[tryS]{GetDual: tryInj(m)}) },
		obs: func(b boxed[fp.Dual[tryS]], tags map[error]string) mel { return tryObs(b.V.GetDual, tags) }})
	addTE(teInst[fp.Dual[fp.Dual[tryS]]]{name: "monoid.Dual(monoid.Dual(monoid.Try(monoid.String)))",
		mk: func() fp.Monoid[fp.Dual[fp.Dual[tryS]]] { return monoid.Dual(monoid.Dual(mTry())) },
		inj: func(m mel) fp.Dual[fp.Dual[tryS]] {
			return fp.Dual[fp.Dual[tryS]]{GetDual: fp.Dual[tryS]{GetDual: tryInj(m)}}
		},
		obs: func(d fp.Dual[fp.Dual[tryS]], tags map[error]string) mel { return tryObs(d.GetDual.GetDual, tags) }})
	addTE(teInst[fp.Dual[fp.Option[tryS]]]{name: "monoid.Dual(monoid.Option(monoid.Try(monoid.String)))", flip: true, hasNone: true,
		mk:  func() fp.Monoid[fp.Dual[fp.Option[tryS]]] { return monoid.Dual(monoid.Option(mTry())) },
		inj: func(m mel) fp.Dual[fp.Option[tryS]] { return fp.Dual[fp.Option[tryS]]{GetDual: optInj(m)} },
		obs: func(d fp.Dual[fp.Option[tryS]], tags map[error]string) mel { return optObs(d.GetDual, tags) }})
	addTE(teInst[fp.Option[fp.Dual[tryS]]]{name: "monoid.Option(monoid.Dual(monoid.Try(monoid.String)))", flip: true, hasNone: true,
		mk: func() fp.Monoid[fp.Option[fp.Dual[tryS]]] { return monoid.Option(monoid.Dual(mTry())) },
		inj: func(m mel) fp.Option[fp.Dual[tryS]] {
			if m.kind == 2 {
				return option.None[fp.Dual[tryS]]()
			}
			return option.Some(fp.Dual[tryS]{GetDual: tryInj(m)})
		},
		obs: func(o fp.Option[fp.Dual[tryS]], tags map[error]string) mel {
			if o.IsEmpty() {
				return mel{kind: 2}
			}
			return tryObs(o.Get().GetDual, tags)
		}})
}

func tryErrCase[T any](w *vrt.W, i int, r *rand.Rand, loc *local, in teInst[T]) {
	w.Begin(i, in.name)
	// the errors of this case: distinct values, some with the same message
	ne := 2 + r.IntN(4)
	errs := make([]error, ne)
	tags := map[error]string{}
	for k := range errs {
		msg := "boom"
		if r.IntN(2) == 0 {
			msg = "e" + strconv.Itoa(k)
		}
		if r.IntN(5) == 0 {
			errs[k] = codeErr(k)
		} else {
			errs[k] = &sentinelErr{id: k, msg: msg}
		}
		tags[errs[k]] = "#" + strconv.Itoa(k) + " " + errs[k].Error()
	}
	n := 0
	switch k := r.IntN(10); {
	case k == 0:
		n = r.IntN(3)
	case k < 8:
		n = 3 + r.IntN(10)
	default:
		n = []int{15, 16, 17, 31, 32, 33, 40, 64, 65}[r.IntN(9)]
	}
	pf := []int{2, 3, 5, 12}[r.IntN(4)] // one element in pf is a failure
	ms := make([]mel, n)
	failures := map[error]bool{}
	nfail := 0
	for k := range ms {
		switch {
		case r.IntN(pf) == 0:
			e := errs[r.IntN(ne)]
			ms[k] = mel{kind: 1, e: e, tag: tags[e]}
			failures[e] = true
			nfail++
		case in.hasNone && r.IntN(12) == 0:
			ms[k] = mel{kind: 2}
		default:
			ms[k] = mel{kind: 0, s: words[r.IntN(len(words))]}
		}
	}
	xs := make([]T, n)
	for k := range xs {
		xs[k] = in.inj(ms[k])
	}
	// which instance object: the table's long-lived one or a new one
	m := in.mo
	if r.IntN(3) == 0 {
		m = in.mk()
	}
	render := func() []string {
		out := make([]string, len(ms))
		for k, e := range ms {
			out[k] = e.String()
		}
		return out
	}
	witness := func() any { return map[string]any{"monoid": in.name, "elements": render()} }
	obs := func(v T) mel { return in.obs(v, tags) }
	report := func(site string, got, want mel, what string) {
		kind := "/not-left-fold"
		if site == in.name {
			kind = "/combine-not-as-named"
		}
		if got.kind == 1 && want.kind == 1 {
			kind = "/wrong-surviving-failure"
		}
		w.Violation(i, site+kind, fmt.Sprintf("%s with %s = %s, named behaviour (monoid.Try keeps its left operand's failure, Dual flips, None absorbs) = %s\nelements %v", what, in.name, got, want, render()), witness())
	}
	w.Guard(i, witness, func() {
		w.Site(in.name)
		if e := obs(m.Empty()); !e.same(mel{kind: 0}) {
			report(in.name, e, mel{kind: 0}, "Empty()")
		}
		// Combine on neighbouring pairs, associativity on neighbouring triples
		for k := 0; k+1 < n && k < 8; k++ {
			got, want := obs(m.Combine(xs[k], xs[k+1])), melCombine(ms[k], ms[k+1], in.flip)
			loc.add("tryerr.pairs", 1)
			if ms[k].kind == 1 && ms[k+1].kind == 1 && ms[k].e != ms[k+1].e {
				loc.add("tryerr.pairs_of_two_distinct_failures", 1)
			}
			if !got.same(want) {
				report(in.name, got, want, fmt.Sprintf("Combine(%s, %s)", ms[k], ms[k+1]))
			}
			if k+2 < n {
				l, rr := obs(m.Combine(m.Combine(xs[k], xs[k+1]), xs[k+2])), obs(m.Combine(xs[k], m.Combine(xs[k+1], xs[k+2])))
				loc.add("tryerr.triples", 1)
				if !l.same(rr) {
					w.Violation(i, in.name+"/not-associative", fmt.Sprintf("%s: Combine(Combine(a,b),c) = %s but Combine(a,Combine(b,c)) = %s for a=%s b=%s c=%s (failures compared by the identity of their error)", in.name, l, rr, ms[k], ms[k+1], ms[k+2]), witness())
				}
			}
		}
		// the model fold
		want := mel{kind: 0}
		for _, e := range ms {
			want = melCombine(want, e, in.flip)
		}
		acc := m.Empty()
		for _, x := range xs {
			acc = m.Combine(acc, x)
		}
		if got := obs(acc); !got.same(want) {
			report(in.name, got, want, fmt.Sprintf("the plain loop acc = Combine(acc, x) from Empty() over %d elements", n))
		}
		idx := indices(n)
		b := vrt.NewBudget(int64(8*n+64), "FoldMap callback calls")
		at := func(k int) T { b.Tick(); return xs[k] }
		check := func(site string, v T) {
			loc.add("tryerr.folds", 1)
			loc.add("tryerr.folds."+site, 1)
			loc.add("hit."+site, 1)
			if got := obs(v); !got.same(want) {
				report(site, got, want, fmt.Sprintf("%s over %d elements", site, n))
			}
		}
		for _, impl := range r.Perm(implCount) {
			w.Site(implSite[impl])
			switch impl {
			case implSeqReduce:
				check("seq.Reduce", seq.Reduce(fp.Seq[T](xs), m))
			case implIterReduce:
				var it fp.Iterator[T]
				switch r.IntN(3) {
				case 0:
					it = iterator.FromSeq(fp.Seq[T](xs))
				case 1:
					it = iterator.Pull(slices.Values(xs))
				default:
					it = iterator.FromList(list.Of(xs...))
				}
				check("iterator.Reduce", iterator.Reduce(it, m))
			case implListReduce:
				var l fp.List[T]
				switch r.IntN(4) {
				case 0:
					l = list.FromSeq(fp.Seq[T](xs))
				case 1:
					l = list.Of(xs...)
				case 2:
					l = list.Collect(iterator.FromSeq(fp.Seq[T](xs)))
				default:
					l = list.Empty[T]()
					for k := n - 1; k >= 0; k-- {
						l = list.Apply(xs[k], l)
					}
				}
				check("list.Reduce", list.Reduce(l, m))
			case implSeqFoldMap:
				check("seq.FoldMap", seq.FoldMap(fp.Seq[int](idx), m, at))
			default:
				var l fp.List[int]
				if r.IntN(2) == 0 {
					l = list.FromSeq(fp.Seq[int](idx))
				} else {
					l = list.Collect(iterator.FromSeq(fp.Seq[int](idx)))
				}
				check("list.FoldMap", list.FoldMap(l, m, at))
			}
		}
	})
	w.Done(i)
	loc.add("tryerr.cases", 1)
	loc.add("tryerrinst."+in.name, 1)
	if nfail >= 2 && len(failures) >= 2 {
		loc.add("tryerr.sequences_with_two_distinguishable_failures", 1)
		// first and last failure differ: the two candidate behaviours give different results
		var first, last error
		none := false
		for _, e := range ms {
			if e.kind == 1 {
				if first == nil {
					first = e.e
				}
				last = e.e
			}
			if e.kind == 2 {
				none = true
			}
		}
		if first != last && !none {
			loc.add("tryerr.first_and_last_failure_differ", 1)
			h := "tryerr|" + in.name
			for _, e := range ms {
				h += "|" + e.String()
			}
			w.DistinctHash(vrt.Hash64(h))
			if w.WantSample() && n <= 6 && r.IntN(100) == 0 {
				w.Sample(witness())
			}
		}
	}
}
