// The type-erased view of an instance description.  lawCase and histCase are written against
// it, so the Go compiler builds them once instead of once per instance type (there are about
// 170 instance types, some of them 21-tuples).  Values travel as `any` exactly as the library
// returned them: boxing a slice, map, pointer, func or struct does not copy what it refers to.
package main

import (
	"math/rand/v2"

	"github.com/csgura/fp"
)

// ops is one instance object.
type ops struct {
	combine func(a, b any) any
	empty   func() any // nil for semigroup-only instances
}

type dyn struct {
	name     string
	site     string
	combs    []string
	isMonoid bool
	assoc    bool
	width    int // container-valued leaves consulted per generated operand (sizes.go)
	gen      func(r *rand.Rand) any
	norm     func(any) string
	raw      func(any) string // may be nil
	refC     func(a, b any) string
	refE     func() string
	blame    func(a, b any) string
	blameE   func() string
	wrong    func(a, b any) bool
	wrongE   func() bool
	table    ops        // the long-lived instance of the table, shared by all cases of a worker
	mk       func() ops // the same instance expression built again by new constructor calls
}

func un[T any](v any) T {
	if v == nil {
		var z T
		return z
	}
	return v.(T)
}

func mkOps[T any](sg fp.Semigroup[T], mo fp.Monoid[T]) ops {
	o := ops{combine: func(a, b any) any { return sg.Combine(un[T](a), un[T](b)) }}
	if mo != nil {
		o.empty = func() any { return mo.Empty() }
	}
	return o
}

func erase[T any](in inst[T]) *dyn {
	d := &dyn{name: in.name, site: in.site, combs: in.combs, isMonoid: in.mo != nil, assoc: in.assoc,
		gen:    func(r *rand.Rand) any { return in.gen(r) },
		norm:   func(v any) string { return in.norm(un[T](v)) },
		refC:   func(a, b any) string { return in.refC(un[T](a), un[T](b)) },
		blame:  func(a, b any) string { return in.blame(un[T](a), un[T](b)) },
		wrong:  func(a, b any) bool { return in.wrong(un[T](a), un[T](b)) },
		wrongE: in.wrongE,
		table:  mkOps(in.sg, in.mo),
	}
	if in.raw != nil {
		d.raw = func(v any) string { return in.raw(un[T](v)) }
	}
	if in.mo != nil {
		d.refE, d.blameE = in.refE, in.blameE
		d.mk = func() ops { m := in.mkM(); return mkOps[T](m, m) }
	} else {
		d.mk = func() ops { return mkOps[T](in.mkS(), nil) }
	}
	// width: how many container-valued leaves one operand has (Option may draw None: the
	// maximum over a few fixed draws)
	pr := rand.New(rand.NewPCG(11, 11))
	for k := 0; k < 8; k++ {
		setHint(1, 4)
		in.gen(pr)
		if u := clearHint(); u > d.width {
			d.width = u
		}
	}
	return d
}
