package main

import (
	"fmt"
	"math/rand/v2"
	"strconv"

	"verif/vrt"

	"github.com/csgura/fp"
	"github.com/csgura/fp/iterator"
	"github.com/csgura/fp/list"
	"github.com/csgura/fp/seq"
)

// ---- law cases ----------------------------------------------------------------------------

func short(s string) string {
	if len(s) > 600 {
		return s[:300] + fmt.Sprintf(" …(%d bytes)… ", len(s)-500) + s[len(s)-200:]
	}
	return s
}

func lawCase(w *vrt.W, i int, r *rand.Rand, loc *local, d *dyn) {
	w.Begin(i, d.site)
	var a, b, c any
	var na, nb, nc string
	var sz [3]int
	shape := ""
	sizedUsed := 0
	witness := func() any {
		m := map[string]any{"instance": d.name, "a": short(na), "b": short(nb), "c": short(nc)}
		if shape != "" {
			m["operand_sizes"] = sz
			m["size_shape"] = shape
		}
		return m
	}
	fail := func(key, detail string) {
		if d.raw != nil {
			detail += "\nas stored: a = " + d.raw(a) + "  b = " + d.raw(b) + "  c = " + d.raw(c) +
				"\n           Combine(Combine(a,b),c) = " + d.raw(d.table.combine(d.table.combine(a, b), c)) + "  Combine(a,Combine(b,c)) = " + d.raw(d.table.combine(a, d.table.combine(b, c)))
		}
		w.Violation(i, key, short(detail)+"\ninstance "+d.name+"\na = "+short(na)+"\nb = "+short(nb)+"\nc = "+short(nc), witness())
	}
	in := d.table
	w.Guard(i, witness, func() {
		// one case in five: large / lopsided operands (no effect on instances without a
		// container-valued leaf: they ignore the hint)
		if r.IntN(5) == 0 {
			sz, shape = tripleSizes(r, sizeLimit(d.width))
			u := universeFor(max(sz[0], sz[1], sz[2]))
			for k, p := range []*any{&a, &b, &c} {
				setHint(sz[k], u)
				*p = d.gen(r)
				sizedUsed += clearHint()
			}
			if sizedUsed == 0 {
				shape = ""
			}
		} else {
			a, b, c = d.gen(r), d.gen(r), d.gen(r)
		}
		if d.isMonoid {
			// the identity takes part in triples as well
			for k, p := range []*any{&a, &b, &c} {
				if r.IntN(8) == 0 {
					*p = in.empty()
					loc.add("triples.with_identity_at_"+strconv.Itoa(k+1), 1)
				}
			}
		}
		if r.IntN(10) == 0 {
			b = a
		}
		na, nb, nc = d.norm(a), d.norm(b), d.norm(c)
		firstBlame := ""
		named := func(x, y any, what string) any {
			got := in.combine(x, y)
			if g, want := d.norm(got), d.refC(x, y); g != want {
				bl := d.blame(x, y)
				if firstBlame == "" {
					firstBlame = bl
				}
				fail(bl+"/combine-not-as-named", fmt.Sprintf("Combine(%s) = %s, but the instance is named/defined to give %s\nx = %s\ny = %s", what, short(g), short(want), short(d.norm(x)), short(d.norm(y))))
			}
			loc.add("checks.named", 1)
			return got
		}
		w.Site(d.site + ".Combine")
		// the four products, in one of three orders: a result is also the operand of the very
		// next Combine of the same instance (as left, as right operand)
		var ab, bc, l, rr any
		switch order := r.IntN(3); order {
		case 0:
			ab = named(a, b, "a, b")
			bc = named(b, c, "b, c")
			l = named(ab, c, "Combine(a,b), c")
			rr = named(a, bc, "a, Combine(b,c)")
		case 1:
			ab = named(a, b, "a, b")
			l = named(ab, c, "Combine(a,b), c")
			bc = named(b, c, "b, c")
			rr = named(a, bc, "a, Combine(b,c)")
		default:
			bc = named(b, c, "b, c")
			rr = named(a, bc, "a, Combine(b,c)")
			ab = named(a, b, "a, b")
			l = named(ab, c, "Combine(a,b), c")
		}
		nab, nbc, nl, nr := d.norm(ab), d.norm(bc), d.norm(l), d.norm(rr)
		if d.assoc {
			if nl != nr {
				bl := firstBlame
				if bl == "" {
					bl = d.site
				}
				fail(bl+"/not-associative", fmt.Sprintf("Combine(Combine(a,b),c) = %s but Combine(a,Combine(b,c)) = %s", short(nl), short(nr)))
			}
			loc.add("checks.associativity", 1)
		} else {
			loc.add("checks.associativity_skipped_float", 1)
		}
		if d.isMonoid {
			w.Site(d.site + ".Empty")
			e := in.empty()
			ne := d.norm(e)
			if want := d.refE(); ne != want {
				fail(d.blameE()+"/empty-not-as-named", fmt.Sprintf("Empty() = %s, expected %s", ne, want))
			}
			w.Site(d.site + ".Combine")
			// the identity is checked on the operands and on a result
			for _, x := range []any{a, c, ab} {
				nx := d.norm(x)
				if g := d.norm(in.combine(e, x)); g != nx {
					bl := d.site
					if d.wrong(e, x) {
						bl = d.blame(e, x)
					} else if d.wrongE() {
						bl = d.blameE()
					}
					fail(bl+"/left-identity", fmt.Sprintf("Combine(Empty(), x) = %s for x = %s (Empty() = %s)", short(g), short(nx), d.norm(e)))
				}
				if g := d.norm(in.combine(x, e)); g != nx {
					bl := d.site
					if d.wrong(x, e) {
						bl = d.blame(x, e)
					} else if d.wrongE() {
						bl = d.blameE()
					}
					fail(bl+"/right-identity", fmt.Sprintf("Combine(x, Empty()) = %s for x = %s (Empty() = %s)", short(g), short(nx), d.norm(e)))
				}
				loc.add("checks.identity", 2)
			}
			// the Empty() value that was used as an operand, and the next one, are still the identity
			w.Site(d.site + ".Empty")
			if g := d.norm(e); g != ne {
				fail(d.site+"/empty-changed-by-use", fmt.Sprintf("the value Empty() returned rendered %s and renders %s after it was used as an operand of Combine", ne, short(g)))
			}
			if g := d.norm(in.empty()); g != ne {
				fail(d.site+"/empty-changed-by-use", fmt.Sprintf("Empty() = %s after an earlier Empty() value (%s) was used as an operand of Combine", short(g), ne))
			}
			loc.add("checks.empty_after_use", 2)
		}
		// inputs must still render the same (Combine must not write into its arguments:
		// MergeSeq on a slice with spare capacity, MergeGoMap, Ptr)
		if d.norm(a) != na || d.norm(b) != nb || d.norm(c) != nc {
			fail(d.site+"/arguments-modified", fmt.Sprintf("after the calls the arguments render as a=%s b=%s c=%s", short(d.norm(a)), short(d.norm(b)), short(d.norm(c))))
		}
		// ... and earlier results are values: a later Combine must not change them (two
		// results appended into the same spare capacity would, an accumulator extended in
		// place would)
		for _, k := range []struct {
			what string
			v    any
			was  string
		}{{"Combine(a,b)", ab, nab}, {"Combine(b,c)", bc, nbc}, {"Combine(Combine(a,b),c)", l, nl}, {"Combine(a,Combine(b,c))", rr, nr}} {
			if g := d.norm(k.v); g != k.was {
				fail(d.site+"/result-changed-by-later-combine", fmt.Sprintf("%s rendered %s, after further Combine calls it renders %s", k.what, short(k.was), short(g)))
			}
			loc.add("checks.result_reread", 1)
		}
	})
	w.Done(i)
	loc.add("triples", 1)
	loc.add("inst."+d.name, 1)
	for _, s := range d.combs {
		loc.add("hit."+s, 1)
	}
	if d.isMonoid {
		loc.add("triples.monoid", 1)
	} else {
		loc.add("triples.semigroup_only", 1)
	}
	if sizedUsed > 0 {
		loc.add("triples.sized", 1)
		loc.add("triples.sized.shape."+shape, 1)
		loc.add("sizedinst."+d.name, 1)
		for _, n := range sz {
			loc.add("triples.sized.operand_size."+sizeClass(n), 1)
		}
		// the pairs Combine saw: (a,b) (b,c) (ab,c) (a,bc)
		for _, p := range [][2]int{{sz[0], sz[1]}, {sz[1], sz[2]}} {
			switch {
			case p[0] >= 1 && p[1] >= 32 && 4*p[0] <= p[1]:
				loc.add("triples.sized.small_left_large_right", 1)
			case p[1] >= 1 && p[0] >= 32 && 4*p[1] <= p[0]:
				loc.add("triples.sized.large_left_small_right", 1)
			case p[0] >= 32 && p[0] == p[1]:
				loc.add("triples.sized.equal_large", 1)
			}
		}
		w.Max("max_operand_size", int64(max(sz[0], sz[1], sz[2])))
	}
	// non-trivial: no operand is the identity and the three are not all equal
	nontrivial := !(na == nb && nb == nc)
	if d.isMonoid {
		e := d.refE()
		if na == e || nb == e || nc == e {
			nontrivial = false
		}
	}
	if nontrivial {
		loc.add("triples.nontrivial", 1)
		w.DistinctHash(vrt.Hash64("law|" + d.name + "|" + na + "|" + nb + "|" + nc))
		if w.WantSample() && r.IntN(200) == 0 {
			w.Sample(witness())
		}
	}
}

// ---- Reduce / FoldMap cases ---------------------------------------------------------------

// lengths at which a bulk / pairwise / chunked path would start or change
var boundaryLengths = []int{15, 16, 17, 31, 32, 33, 63, 64, 65, 100, 127, 128, 129, 255, 256, 257, 1000}

func seqCase[T any](w *vrt.W, i int, r *rand.Rand, loc *local, in inst[T], width int) {
	w.Begin(i, "Reduce")
	// length
	n := 0
	boundary := false
	switch k := r.IntN(20); {
	case k == 0:
		n = 0
	case k == 1:
		n = 1
	case k == 2:
		n = 2
	case k < 14:
		n = 3 + r.IntN(30)
	case k < 17:
		n = boundaryLengths[r.IntN(len(boundaryLengths))]
		if n == 1000 && !in.cheap {
			n = 129
		}
		boundary = true
	case k < 19:
		n = 40 + r.IntN(200)
	default:
		n = 300 + r.IntN(700)
		if w.Tier == "thorough" {
			n = 300 + r.IntN(1500)
		}
		if !in.cheap {
			n = 40 + r.IntN(100)
		}
	}
	// element sizes: as drawn by the ordinary generator (0..4 entries over 5..8 keys: the
	// accumulator of a map monoid never has more than 8 entries), or "growing": every element
	// has 1..4 entries over a universe of 40..340 keys, so that the accumulator grows through
	// 16, 32, 64, 128, 256 entries while single small maps keep arriving, or "lopsided": tiny
	// and large elements mixed
	mode := "plain"
	if width > 0 {
		switch r.IntN(4) {
		case 0:
			mode = "growing"
		case 1:
			if n <= 24 {
				mode = "lopsided"
			}
		}
	}
	xs := make([]T, n)
	gu := 40 + r.IntN(300)
	limit := min(sizeLimit(width), 257)
	lu := universeFor(limit)
	for k := range xs {
		switch mode {
		case "growing":
			setHint(1+r.IntN(4), gu)
		case "lopsided":
			if r.IntN(3) == 0 {
				setHint(drawLarge(r, limit), lu)
			} else {
				setHint(drawTiny(r), lu)
			}
		}
		xs[k] = in.gen(r)
		clearHint()
		if r.IntN(12) == 0 {
			xs[k] = in.mo.Empty()
		}
	}
	m := in.mo
	norms := func() []string {
		out := make([]string, 0, 12)
		for k, x := range xs {
			if k >= 12 {
				out = append(out, fmt.Sprintf("… %d more", len(xs)-12))
				break
			}
			out = append(out, short(in.norm(x)))
		}
		return out
	}
	witness := func() any {
		return map[string]any{"monoid": in.name, "length": n, "element_sizes": mode, "elements": norms()}
	}
	var want, wantRev string
	w.Guard(i, witness, func() {
		// the definition: plain left fold of the instance's own Combine from Empty
		acc := m.Empty()
		for _, x := range xs {
			acc = m.Combine(acc, x)
		}
		want = in.norm(acc)
		rev := m.Empty()
		for k := len(xs) - 1; k >= 0; k-- {
			rev = m.Combine(rev, xs[k])
		}
		wantRev = in.norm(rev)
		emptyN := in.norm(m.Empty())
		check := func(site string, got T) {
			loc.add("sequences."+site, 1)
			loc.add("hit."+site, 1)
			g := in.norm(got)
			if g == want {
				return
			}
			note := ""
			switch {
			case g == emptyN:
				note = " (that is Empty(): the elements were ignored)"
			case g == wantRev:
				note = " (that is the fold of the reversed sequence)"
			}
			w.Violation(i, site+"/not-left-fold", fmt.Sprintf("%s over %d elements with %s = %s%s\nplain left fold of Combine from Empty = %s\nelements %v", site, n, in.name, short(g), note, short(want), norms()), witness())
		}
		budget := vrt.NewBudget(int64(4*n+16), "FoldMap callback calls for "+strconv.Itoa(n)+" elements")
		idx := make([]int, n)
		for k := range idx {
			idx[k] = k
		}
		at := func(k int) T { budget.Tick(); return xs[k] }

		w.Site("seq.Reduce")
		check("seq.Reduce", seq.Reduce(fp.Seq[T](xs), m))

		w.Site("iterator.Reduce")
		var it fp.Iterator[T]
		switch r.IntN(3) {
		case 0:
			it = iterator.FromSeq(fp.Seq[T](xs))
		case 1:
			it = iterator.Of(xs...)
		default:
			pos := 0
			nb := vrt.NewBudget(int64(4*n+16), "HasNext/Next calls")
			it = fp.MakeIterator(func() bool { nb.Tick(); return pos < len(xs) }, func() T { nb.Tick(); pos++; return xs[pos-1] })
		}
		check("iterator.Reduce", iterator.Reduce(it, m))

		w.Site("list.Reduce")
		var l fp.List[T]
		switch r.IntN(3) {
		case 0:
			l = list.FromSeq(fp.Seq[T](xs))
		case 1:
			l = list.Of(xs...)
		default:
			l = list.Empty[T]()
			for k := len(xs) - 1; k >= 0; k-- {
				l = list.Apply(xs[k], l)
			}
		}
		check("list.Reduce", list.Reduce(l, m))

		w.Site("seq.FoldMap")
		check("seq.FoldMap", seq.FoldMap(fp.Seq[int](idx), m, at))

		w.Site("list.FoldMap")
		check("list.FoldMap", list.FoldMap(list.FromSeq(fp.Seq[int](idx)), m, at))

		// the folds did not write into the elements and the instance has no memory of them
		if mode != "plain" || r.IntN(4) == 0 {
			w.Site("Reduce")
			again := m.Empty()
			for _, x := range xs {
				again = m.Combine(again, x)
			}
			if g := in.norm(again); g != want {
				w.Violation(i, "Reduce/plain-fold-not-repeatable", fmt.Sprintf("the plain left fold over the same %d elements with %s gave %s before and %s after seq/iterator/list Reduce and FoldMap ran over them (elements written to, or an instance with a memory)", n, in.name, short(want), short(g)), witness())
			}
			loc.add("sequences.refolded_afterwards", 1)
		}
	})
	w.Done(i)
	loc.add("sequences", 1)
	loc.add("seqinst."+in.name, 1)
	if n > 300 {
		loc.add("sequences.longer_than_300", 1)
	}
	if n == 0 {
		loc.add("sequences.empty", 1)
	}
	if boundary {
		loc.add("sequences.boundary_length", 1)
		loc.add("sequences.boundary_length."+strconv.Itoa(n), 1)
	}
	if mode != "plain" {
		loc.add("sequences.elements_"+mode, 1)
	}
	w.Max("max_sequence_length", int64(n))
	w.Max("max_fold_result_rendering_bytes", int64(len(want)))
	// non-trivial: at least 3 elements and the order of combination shows in the result
	if n >= 3 && want != wantRev {
		loc.add("sequences.order_sensitive", 1)
		h := "seq|" + in.name
		for _, x := range xs {
			h += "|" + in.norm(x)
			if len(h) > 4000 {
				break
			}
		}
		w.DistinctHash(vrt.Hash64(h))
		if w.WantSample() && n <= 8 && r.IntN(50) == 0 {
			w.Sample(witness())
		}
	}
}
