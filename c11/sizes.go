// Operand sizes.  The ordinary generators draw containers of 0..4 entries over a 5..8 element
// universe: every path of an instance that depends on the SIZE of an operand (a merge that
// starts from the larger side, a bulk path for long sequences, a different node layout of the
// persistent map above 16/32 entries) stays unvisited.  A case driver can therefore put a size
// hint in force while it draws one operand: every container-valued leaf generator (String,
// MergeSeq/Slice/GoMap/Map/Set, also below wrappers, tuples and hlists) then builds a value of
// exactly that many entries whose keys / elements come from a universe [0,u) shared by all
// operands of the case, so that operands of very different sizes still share keys, with
// independently drawn values: which side wins on a shared key shows.
//
// A worker runs its cases sequentially on one goroutine, so the hint is a plain package variable;
// it is set from values drawn from the case's own PRNG, generation stays a pure function of it.
package main

import (
	"math/rand/v2"
	"strconv"
)

var hint struct {
	on   bool
	n, u int
	used int // how many leaf generators consulted the hint since it was set
}

func setHint(n, u int) {
	if u < n {
		u = n
	}
	hint.on, hint.n, hint.u, hint.used = true, n, u, 0
}

func clearHint() int {
	used := hint.used
	hint.on, hint.used = false, 0
	return used
}

// sizeHint is called by the container-valued leaf generators.
func sizeHint() (n, u int, ok bool) {
	if !hint.on {
		return 0, 0, false
	}
	hint.used++
	return hint.n, hint.u, true
}

// pickDistinct draws n distinct numbers of [0,u) (selection sampling), in increasing order or,
// with probability 1/2, shuffled (the order in which a map is built is not to matter).
func pickDistinct(r *rand.Rand, n, u int) []int {
	out := make([]int, 0, n)
	for k := 0; k < u && len(out) < n; k++ {
		if r.IntN(u-k) < n-len(out) {
			out = append(out, k)
		}
	}
	if r.IntN(2) == 0 {
		r.Shuffle(len(out), func(i, j int) { out[i], out[j] = out[j], out[i] })
	}
	return out
}

func keyName(i int) string { return "k" + strconv.Itoa(i) }

// the sizes around which containers change their representation or a size test would sit
var largeSizes = []int{15, 16, 17, 31, 32, 33, 63, 64, 65, 100, 128, 129, 257, 1000}

// weights: 257 and 1000 are drawn less often (they cost more), everything else evenly
var largeWeights = []int{4, 4, 4, 4, 4, 4, 4, 4, 4, 4, 4, 4, 2, 1}

// drawLarge draws one of largeSizes not above limit (limit < 15: 15).
func drawLarge(r *rand.Rand, limit int) int {
	total := 0
	for k, s := range largeSizes {
		if s <= limit || k == 0 {
			total += largeWeights[k]
		}
	}
	x := r.IntN(total)
	for k, s := range largeSizes {
		if s <= limit || k == 0 {
			if x < largeWeights[k] {
				return s
			}
			x -= largeWeights[k]
		}
	}
	return largeSizes[0]
}

func drawTiny(r *rand.Rand) int { return 1 + r.IntN(5) }

// sizeLimit bounds the hint for an instance expression with `width` container-valued leaves
// (a Tuple21 of strings draws 21 values per operand): about 1300 entries per operand in total.
func sizeLimit(width int) int {
	if width < 1 {
		width = 1
	}
	return 1300 / width
}

// universe for operands of at most max entries: a key of a small operand lies in a large one
// with probability ≈ 0.8
func universeFor(max int) int { return max + max/4 + 3 }

// sizeClass names a size for the coverage counters.
func sizeClass(n int) string {
	switch {
	case n == 0:
		return "0"
	case n <= 5:
		return "tiny"
	case n < 32:
		return "15-31"
	case n < 64:
		return "32-63"
	case n < 128:
		return "64-127"
	case n < 257:
		return "128-256"
	case n < 1000:
		return "257"
	}
	return "1000"
}

// tripleSizes draws the sizes of a sized law triple.  Shapes: tiny-left/large-right (so also
// large-left/tiny-right for (b,c)), large/tiny/large, all equal, two tiny then large (the result
// of a Combine as the small left operand), independent.
func tripleSizes(r *rand.Rand, limit int) (sz [3]int, shape string) {
	switch r.IntN(6) {
	case 0:
		return [3]int{drawTiny(r), drawLarge(r, limit), drawTiny(r)}, "tiny-large-tiny"
	case 1:
		return [3]int{drawLarge(r, limit), drawTiny(r), drawLarge(r, limit)}, "large-tiny-large"
	case 2:
		l := drawLarge(r, limit)
		return [3]int{l, l, l}, "equal"
	case 3:
		return [3]int{drawTiny(r), drawTiny(r), drawLarge(r, limit)}, "tiny-tiny-large"
	case 4:
		return [3]int{drawLarge(r, limit), drawLarge(r, limit), drawTiny(r)}, "large-large-tiny"
	}
	for k := range sz {
		switch r.IntN(4) {
		case 0:
			sz[k] = r.IntN(6)
		default:
			sz[k] = drawLarge(r, limit)
		}
	}
	return sz, "independent"
}
