// C11 — Monoid / Semigroup instances are lawful and compute what their names say;
// Reduce / FoldMap of seq, iterator and list equal the plain left fold.
//
// Every instance expression under test is described by an inst[T]: the library instance, a
// value generator, a canonical rendering norm(T) (by content, functions extensionally on a
// fixed test domain) and a plain-Go reference refC(a,b) of what Combine is *named* to do,
// rendered the same way.  A law case draws a triple and checks named behaviour, associativity
// and the two-sided identity by comparing renderings; a sequence case compares the five
// Reduce/FoldMap implementations with the plain loop acc = Combine(acc, x) from Empty().
// The per-arity builders (tuples_gen.go) are written by ./gen.
package main

import (
	"errors"
	"fmt"
	"math"
	"math/rand/v2"
	"sort"
	"strconv"
	"strings"

	"verif/vrt"

	"github.com/csgura/fp"
	"github.com/csgura/fp/hash"
	"github.com/csgura/fp/hlist"
	"github.com/csgura/fp/immutable"
	"github.com/csgura/fp/iterator"
	"github.com/csgura/fp/lazy"
	"github.com/csgura/fp/list"
	"github.com/csgura/fp/monoid"
	"github.com/csgura/fp/semigroup"
	"github.com/csgura/fp/seq"
)

// ---- instance descriptions ----------------------------------------------------------------

type inst[T any] struct {
	name  string   // the expression, e.g. monoid.Option(monoid.String)
	site  string   // its outermost combinator, e.g. monoid.Option
	combs []string // every library instance/combinator in the expression
	sg    fp.Semigroup[T]
	mo    fp.Monoid[T] // nil for semigroup-only instances
	gen   func(r *rand.Rand) T
	norm  func(T) string      // canonical rendering by content
	refC  func(a, b T) string // plain-Go reference: rendering of what Combine(a,b) is named to be
	refE  func() string       // plain-Go reference: rendering of Empty() (monoids)
	// blame names the instance responsible when norm(Combine(a,b)) != refC(a,b): a component
	// that is wrong on its own, else the combinator itself
	blame  func(a, b T) string
	blameE func() string
	raw    func(T) string // optional: uncanonicalised rendering, for violation reports only
	assoc  bool           // false: floating point, associativity not demanded
	// orderShows: Combine is not commutative (used to pick monoids for Reduce/FoldMap)
	orderShows bool
	cheap      bool // fit for long sequences
}

func (in inst[T]) wrong(a, b T) bool { return in.norm(in.sg.Combine(a, b)) != in.refC(a, b) }
func (in inst[T]) wrongE() bool      { return in.mo != nil && in.norm(in.mo.Empty()) != in.refE() }

func leaf[T any](in inst[T]) inst[T] {
	site := in.site
	in.combs = []string{site}
	in.blame = func(a, b T) string { return site }
	in.blameE = func() string { return site }
	if in.mo != nil && in.sg == nil {
		in.sg = in.mo
	}
	return in
}

func merge(site string, cs ...[]string) []string {
	seen := map[string]bool{site: true}
	out := []string{site}
	for _, c := range cs {
		for _, s := range c {
			if !seen[s] {
				seen[s] = true
				out = append(out, s)
			}
		}
	}
	return out
}

// ---- generators ---------------------------------------------------------------------------

type integer interface {
	~int | ~int8 | ~int16 | ~int32 | ~int64 | ~uint | ~uint8 | ~uint16 | ~uint32 | ~uint64
}

func genInt[T integer](r *rand.Rand) T {
	switch r.IntN(8) {
	case 0:
		return 0
	case 1:
		return 1
	case 2:
		return T(r.Uint64()) // any bit pattern: overflow is exercised
	case 3:
		var m T = 1
		return ^T(0) - m*T(r.IntN(3)) // near the top of the range / -1..-3 for signed
	}
	return T(r.IntN(41) - 20)
}

func fmtInt[T integer](v T) string { return fmt.Sprint(v) }

var words = []string{"", "a", "b", "ab", "ba", "xyz", "-", "é"}

func genStr(r *rand.Rand) string {
	if r.IntN(3) == 0 {
		return words[r.IntN(len(words))]
	}
	n := r.IntN(4)
	b := make([]byte, n)
	for i := range b {
		b[i] = byte('a' + r.IntN(4))
	}
	return string(b)
}

func genFloat(r *rand.Rand) float64 {
	switch r.IntN(10) {
	case 0:
		return 0
	case 1:
		return math.Copysign(0, -1)
	case 2:
		return math.Inf(1)
	case 3:
		return 1e308
	case 4:
		return 0.1
	}
	return float64(r.IntN(2001)-1000) / 7
}

// -0 ≡ +0 (they are == and the identity law would otherwise demand 0 + -0 = -0), NaN ≡ NaN
func fmtFloat(f float64) string {
	if f == 0 {
		return "0"
	}
	if f != f {
		return "NaN"
	}
	return strconv.FormatFloat(f, 'g', -1, 64)
}

// ---- leaf instances -----------------------------------------------------------------------

func intSum[T integer](site string, m fp.Monoid[T], tname string) inst[T] {
	return leaf(inst[T]{name: site + "[" + tname + "]", site: site, mo: m, gen: genInt[T], norm: fmtInt[T],
		refC: func(a, b T) string { return fmtInt(a + b) }, refE: func() string { return "0" }, assoc: true, cheap: true})
}

func intProduct[T integer](site string, m fp.Monoid[T], tname string) inst[T] {
	return leaf(inst[T]{name: site + "[" + tname + "]", site: site, mo: m, gen: genInt[T], norm: fmtInt[T],
		refC: func(a, b T) string { return fmtInt(a * b) }, refE: func() string { return "1" }, assoc: true, cheap: true})
}

func strConcat(site, name string, m fp.Monoid[string]) inst[string] {
	return leaf(inst[string]{name: name, site: site, mo: m, gen: genStr, norm: strconv.Quote,
		refC: func(a, b string) string { return strconv.Quote(a + b) }, refE: func() string { return `""` }, assoc: true, orderShows: true, cheap: true})
}

func floatInst(site, name string, m fp.Monoid[float64], op func(a, b float64) float64, e string) inst[float64] {
	return leaf(inst[float64]{name: name, site: site, mo: m, gen: genFloat, norm: fmtFloat,
		refC: func(a, b float64) string { return fmtFloat(op(a, b)) }, refE: func() string { return e }, assoc: false})
}

func boolInst(site string, m fp.Monoid[bool], sg fp.Semigroup[bool], op func(a, b bool) bool, e bool) inst[bool] {
	in := inst[bool]{name: site, site: site, mo: m, sg: sg, gen: func(r *rand.Rand) bool { return r.IntN(2) == 0 }, norm: strconv.FormatBool,
		refC: func(a, b bool) string { return strconv.FormatBool(op(a, b)) }, assoc: true, cheap: true}
	if m != nil {
		in.refE = func() string { return strconv.FormatBool(e) }
	}
	return leaf(in)
}

func unitInst() inst[fp.Unit] {
	return leaf(inst[fp.Unit]{name: "monoid.Unit", site: "monoid.Unit", mo: monoid.Unit, gen: func(*rand.Rand) fp.Unit { return fp.Unit{} },
		norm: func(fp.Unit) string { return "()" }, refC: func(a, b fp.Unit) string { return "()" }, refE: func() string { return "()" }, assoc: true, cheap: true})
}

func hnilInst() inst[hlist.Nil] {
	return leaf(inst[hlist.Nil]{name: "monoid.HNil", site: "monoid.HNil", mo: monoid.HNil, gen: func(*rand.Rand) hlist.Nil { return hlist.Nil{} },
		norm: func(hlist.Nil) string { return "HNil" }, refC: func(a, b hlist.Nil) string { return "HNil" }, refE: func() string { return "HNil" }, assoc: true, cheap: true})
}

func genInts(r *rand.Rand) []int {
	switch r.IntN(6) {
	case 0:
		return nil
	case 1:
		return []int{}
	}
	n := 1 + r.IntN(3)
	s := make([]int, n, n+r.IntN(3)) // spare capacity: Concat must not write into it
	for i := range s {
		s[i] = r.IntN(10)
	}
	return s
}

func fmtInts(s []int) string { return fmt.Sprint(append([]int{}, s...)) } // nil ≡ empty

func concatInts(a, b []int) string {
	out := make([]int, 0, len(a)+len(b))
	out = append(out, a...)
	out = append(out, b...)
	return fmtInts(out)
}

func mergeSeqInst() inst[fp.Seq[int]] {
	return leaf(inst[fp.Seq[int]]{name: "monoid.MergeSeq[int]", site: "monoid.MergeSeq", mo: monoid.MergeSeq[int](),
		gen: func(r *rand.Rand) fp.Seq[int] { return genInts(r) }, norm: func(s fp.Seq[int]) string { return fmtInts(s) },
		refC: func(a, b fp.Seq[int]) string { return concatInts(a, b) }, refE: func() string { return "[]" }, assoc: true, orderShows: true, cheap: true})
}

func mergeSliceInst() inst[[]int] {
	return leaf(inst[[]int]{name: "monoid.MergeSlice[int]", site: "monoid.MergeSlice", mo: monoid.MergeSlice[int](),
		gen: genInts, norm: fmtInts, refC: concatInts, refE: func() string { return "[]" }, assoc: true, orderShows: true, cheap: true})
}

var mapKeys = []string{"a", "b", "c", "d", "e"}

func genGoMap(r *rand.Rand) map[string]int {
	switch r.IntN(7) {
	case 0:
		return nil
	case 1:
		return map[string]int{}
	}
	m := map[string]int{}
	for n := 1 + r.IntN(3); n > 0; n-- {
		m[mapKeys[r.IntN(len(mapKeys))]] = r.IntN(100)
	}
	return m
}

func fmtGoMap(m map[string]int) string {
	ks := make([]string, 0, len(m))
	for k := range m {
		ks = append(ks, k)
	}
	sort.Strings(ks)
	var b strings.Builder
	b.WriteByte('{')
	for i, k := range ks {
		if i > 0 {
			b.WriteByte(' ')
		}
		fmt.Fprintf(&b, "%s=%d", k, m[k])
	}
	b.WriteByte('}')
	return b.String()
}

// union with right bias, in plain Go
func unionRight(a, b map[string]int) string {
	out := map[string]int{}
	for k, v := range a {
		out[k] = v
	}
	for k, v := range b {
		out[k] = v
	}
	return fmtGoMap(out)
}

func mergeGoMapInst() inst[map[string]int] {
	return leaf(inst[map[string]int]{name: "monoid.MergeGoMap[string,int]", site: "monoid.MergeGoMap", mo: monoid.MergeGoMap[string, int](),
		gen: genGoMap, norm: fmtGoMap, refC: unionRight, refE: func() string { return "{}" }, assoc: true, orderShows: true, cheap: true})
}

// content of an fp.Map through its own iterator (duplicates would show as a size mismatch)
func mapContent(m fp.Map[string, int]) string {
	out := map[string]int{}
	n := 0
	it := m.Iterator()
	for it.HasNext() {
		t := it.Next()
		out[t.I1] = t.I2
		n++
	}
	s := fmtGoMap(out)
	if n != len(out) || m.Size() != n {
		s += fmt.Sprintf("!iterated=%d distinct=%d Size=%d", n, len(out), m.Size())
	}
	return s
}

func mapToGo(m fp.Map[string, int]) map[string]int {
	out := map[string]int{}
	it := m.Iterator()
	for it.HasNext() {
		t := it.Next()
		out[t.I1] = t.I2
	}
	return out
}

func mergeMapInst() inst[fp.Map[string, int]] {
	return leaf(inst[fp.Map[string, int]]{name: "monoid.MergeMap[string,int]", site: "monoid.MergeMap", mo: monoid.MergeMap[string, int](),
		gen: func(r *rand.Rand) fp.Map[string, int] {
			if r.IntN(6) == 0 {
				return fp.Map[string, int]{} // the zero value, which is also Empty()
			}
			var items []fp.Tuple2[string, int]
			for k, v := range genGoMap(r) {
				items = append(items, fp.Tuple2[string, int]{I1: k, I2: v})
			}
			sort.Slice(items, func(i, j int) bool { return items[i].I1 < items[j].I1 })
			return immutable.Map(hash.String, items...)
		},
		norm: mapContent,
		refC: func(a, b fp.Map[string, int]) string { return unionRight(mapToGo(a), mapToGo(b)) },
		refE: func() string { return "{}" }, assoc: true, orderShows: true})
}

func setContent(s fp.Set[int]) string {
	var xs []int
	it := s.Iterator()
	for it.HasNext() {
		xs = append(xs, it.Next())
	}
	sort.Ints(xs)
	out := fmt.Sprint(append([]int{}, xs...))
	for i := 1; i < len(xs); i++ {
		if xs[i] == xs[i-1] {
			out += "!duplicate"
		}
	}
	if s.Size() != len(xs) {
		out += fmt.Sprintf("!Size=%d", s.Size())
	}
	return out
}

func mergeSetInst() inst[fp.Set[int]] {
	return leaf(inst[fp.Set[int]]{name: "monoid.MergeSet[int]", site: "monoid.MergeSet", mo: monoid.MergeSet[int](),
		gen: func(r *rand.Rand) fp.Set[int] {
			if r.IntN(6) == 0 {
				return fp.Set[int]{}
			}
			n := r.IntN(4)
			xs := make([]int, n)
			for i := range xs {
				xs[i] = r.IntN(8)
			}
			return immutable.Set(hash.Number[int](), xs...)
		},
		norm: setContent,
		refC: func(a, b fp.Set[int]) string {
			u := map[int]bool{}
			for _, s := range []fp.Set[int]{a, b} {
				it := s.Iterator()
				for it.HasNext() {
					u[it.Next()] = true
				}
			}
			xs := make([]int, 0, len(u))
			for k := range u {
				xs = append(xs, k)
			}
			sort.Ints(xs)
			return fmt.Sprint(xs)
		},
		refE: func() string { return "[]" }, assoc: true})
}

// ---- fp.Map / fp.Set whose hasher has its own key equivalence -------------------------------
//
// Legitimate values of fp.Map[string,int] / fp.Set[string] (C03 treats such hashers as first
// class).  Content is compared modulo the hasher's equivalence: keys are rendered lower-case,
// so it does not matter which representative of a class the library keeps; two entries of the
// same class inside one map show up as two entries.
type foldHasher struct{}

func (foldHasher) Eqv(a, b string) bool { return strings.EqualFold(a, b) }
func (foldHasher) Hash(s string) uint32 { return hash.String.Hash(strings.ToLower(s)) }

var foldKeys = []string{"a", "A", "b", "B", "c"}

func foldMapContent(m fp.Map[string, int]) string {
	var es []string
	it := m.Iterator()
	for it.HasNext() {
		t := it.Next()
		es = append(es, strings.ToLower(t.I1)+"="+strconv.Itoa(t.I2))
	}
	sort.Strings(es)
	s := "{" + strings.Join(es, " ") + "}"
	if m.Size() != len(es) {
		s += fmt.Sprintf("!Size=%d", m.Size())
	}
	return s
}

func foldMapInst() inst[fp.Map[string, int]] {
	return leaf(inst[fp.Map[string, int]]{name: "monoid.MergeMap[string,int] over maps with a case-insensitive hasher", site: "monoid.MergeMap(custom-Eqv hasher)", mo: monoid.MergeMap[string, int](),
		gen: func(r *rand.Rand) fp.Map[string, int] {
			if r.IntN(6) == 0 {
				return fp.Map[string, int]{}
			}
			items := make([]fp.Tuple2[string, int], r.IntN(4))
			for i := range items {
				items[i] = fp.Tuple2[string, int]{I1: foldKeys[r.IntN(len(foldKeys))], I2: r.IntN(100)}
			}
			return immutable.Map[string, int](foldHasher{}, items...)
		},
		norm: foldMapContent,
		raw: func(m fp.Map[string, int]) string {
			if m.Base == nil {
				return "zero fp.Map"
			}
			var es []string
			for it := m.Iterator(); it.HasNext(); {
				t := it.Next()
				es = append(es, t.I1+":"+strconv.Itoa(t.I2))
			}
			sort.Strings(es)
			return fmt.Sprintf("%T{%s}", m.Base, strings.Join(es, " "))
		},
		refC: func(a, b fp.Map[string, int]) string {
			out := map[string]int{}
			for _, m := range []fp.Map[string, int]{a, b} {
				it := m.Iterator()
				for it.HasNext() {
					t := it.Next()
					out[strings.ToLower(t.I1)] = t.I2
				}
			}
			return fmtGoMap(out)
		},
		refE: func() string { return "{}" }, assoc: true, orderShows: true})
}

func foldSetContent(s fp.Set[string]) string {
	var es []string
	it := s.Iterator()
	for it.HasNext() {
		es = append(es, strings.ToLower(it.Next()))
	}
	sort.Strings(es)
	out := "[" + strings.Join(es, " ") + "]"
	if s.Size() != len(es) {
		out += fmt.Sprintf("!Size=%d", s.Size())
	}
	return out
}

func foldSetInst() inst[fp.Set[string]] {
	return leaf(inst[fp.Set[string]]{name: "monoid.MergeSet[string] over sets with a case-insensitive hasher", site: "monoid.MergeSet(custom-Eqv hasher)", mo: monoid.MergeSet[string](),
		gen: func(r *rand.Rand) fp.Set[string] {
			if r.IntN(6) == 0 {
				return fp.Set[string]{}
			}
			xs := make([]string, r.IntN(4))
			for i := range xs {
				xs[i] = foldKeys[r.IntN(len(foldKeys))]
			}
			return immutable.Set[string](foldHasher{}, xs...)
		},
		norm: foldSetContent,
		raw: func(s fp.Set[string]) string {
			var es []string
			for it := s.Iterator(); it.HasNext(); {
				es = append(es, it.Next())
			}
			sort.Strings(es)
			return "Set{" + strings.Join(es, " ") + "}"
		},
		refC: func(a, b fp.Set[string]) string {
			u := map[string]bool{}
			for _, s := range []fp.Set[string]{a, b} {
				it := s.Iterator()
				for it.HasNext() {
					u[strings.ToLower(it.Next())] = true
				}
			}
			es := make([]string, 0, len(u))
			for k := range u {
				es = append(es, k)
			}
			sort.Strings(es)
			return "[" + strings.Join(es, " ") + "]"
		},
		refE: func() string { return "[]" }, assoc: true})
}

// Endo: functions compared extensionally on 16 points. The generated functions are affine
// maps, x -> x+k, constant maps and a table permutation: composition is not commutative.
var endoPoints = []int{-7, -3, -2, -1, 0, 1, 2, 3, 4, 5, 6, 7, 10, 100, -100, 1 << 40}

var permTable = [8]int{3, 0, 6, 1, 7, 2, 5, 4}

func genEndo(r *rand.Rand) fp.Endo[int] {
	switch r.IntN(6) {
	case 0:
		return func(x int) int { return x }
	case 1:
		k := r.IntN(9) - 4
		return func(x int) int { return x + k }
	case 2:
		k := r.IntN(5)
		return func(x int) int { return k }
	case 3:
		return func(x int) int {
			if x >= 0 && x < 8 {
				return permTable[x]
			}
			return x
		}
	}
	a, b := r.IntN(7)-3, r.IntN(11)-5
	return func(x int) int { return a*x + b }
}

func fmtEndo(f fp.Endo[int]) string {
	if f == nil {
		return "nil-func"
	}
	out := make([]int, len(endoPoints))
	for i, x := range endoPoints {
		out[i] = f(x)
	}
	return fmt.Sprint(out)
}

func endoRef(f, g fp.Endo[int]) string {
	out := make([]int, len(endoPoints))
	for i, x := range endoPoints {
		out[i] = f(g(x)) // Combine(f,g) = f ∘ g
	}
	return fmt.Sprint(out)
}

func endoInst(site string, m fp.Monoid[fp.Endo[int]], sg fp.Semigroup[fp.Endo[int]]) inst[fp.Endo[int]] {
	in := inst[fp.Endo[int]]{name: site + "[int]", site: site, mo: m, sg: sg, gen: genEndo, norm: fmtEndo, refC: endoRef, assoc: true, orderShows: true, cheap: true}
	if m != nil {
		in.refE = func() string { return fmt.Sprint(endoPoints) }
	}
	return leaf(in)
}

// ---- combinators --------------------------------------------------------------------------

// monoid.Option: lifts with None absorbing; Empty = Some(empty)
func mOptionInst[T any](in inst[T]) inst[fp.Option[T]] {
	site := "monoid.Option"
	norm := func(o fp.Option[T]) string {
		if o.IsDefined() {
			return "Some(" + in.norm(o.Get()) + ")"
		}
		return "None"
	}
	out := inst[fp.Option[T]]{name: site + "(" + in.name + ")", site: site, combs: merge(site, in.combs), assoc: in.assoc, orderShows: in.orderShows, cheap: in.cheap,
		gen: func(r *rand.Rand) fp.Option[T] {
			if r.IntN(4) == 0 {
				return fp.None[T]()
			}
			return fp.Some(in.gen(r))
		},
		norm: norm,
		refC: func(a, b fp.Option[T]) string {
			if a.IsDefined() && b.IsDefined() {
				return "Some(" + in.refC(a.Get(), b.Get()) + ")"
			}
			return "None"
		},
		refE: func() string { return "Some(" + in.refE() + ")" },
		blame: func(a, b fp.Option[T]) string {
			if a.IsDefined() && b.IsDefined() && in.wrong(a.Get(), b.Get()) {
				return in.blame(a.Get(), b.Get())
			}
			return site
		},
		blameE: func() string {
			if in.wrongE() {
				return in.blameE()
			}
			return site
		},
	}
	out.mo = monoid.Option(in.mo)
	out.sg = out.mo
	return out
}

// semigroup.Option: None is neutral
func sOptionInst[T any](in inst[T]) inst[fp.Option[T]] {
	site := "semigroup.Option"
	norm := func(o fp.Option[T]) string {
		if o.IsDefined() {
			return "Some(" + in.norm(o.Get()) + ")"
		}
		return "None"
	}
	return inst[fp.Option[T]]{name: site + "(" + in.name + ")", site: site, combs: merge(site, in.combs), assoc: in.assoc,
		sg: semigroup.Option(in.sg),
		gen: func(r *rand.Rand) fp.Option[T] {
			if r.IntN(3) == 0 {
				return fp.None[T]()
			}
			return fp.Some(in.gen(r))
		},
		norm: norm,
		refC: func(a, b fp.Option[T]) string {
			switch {
			case a.IsDefined() && b.IsDefined():
				return "Some(" + in.refC(a.Get(), b.Get()) + ")"
			case a.IsDefined():
				return norm(a)
			}
			return norm(b)
		},
		blame: func(a, b fp.Option[T]) string {
			if a.IsDefined() && b.IsDefined() && in.wrong(a.Get(), b.Get()) {
				return in.blame(a.Get(), b.Get())
			}
			return site
		},
	}
}

var tryErrs = []error{errors.New("e1"), errors.New("e2"), errors.New("e3")}

// monoid.Try: lifts with failure absorbing.  Which of two errors survives is not part of the
// property: every failure renders as "Failure".
func mTryInst[T any](in inst[T]) inst[fp.Try[T]] {
	site := "monoid.Try"
	norm := func(t fp.Try[T]) string {
		if t.IsSuccess() {
			return "Success(" + in.norm(t.Get()) + ")"
		}
		return "Failure"
	}
	out := inst[fp.Try[T]]{name: site + "(" + in.name + ")", site: site, combs: merge(site, in.combs), assoc: in.assoc, orderShows: in.orderShows, cheap: in.cheap,
		gen: func(r *rand.Rand) fp.Try[T] {
			if r.IntN(4) == 0 {
				return fp.Failure[T](tryErrs[r.IntN(len(tryErrs))])
			}
			return fp.Success(in.gen(r))
		},
		norm: norm,
		refC: func(a, b fp.Try[T]) string {
			if a.IsSuccess() && b.IsSuccess() {
				return "Success(" + in.refC(a.Get(), b.Get()) + ")"
			}
			return "Failure"
		},
		refE: func() string { return "Success(" + in.refE() + ")" },
		blame: func(a, b fp.Try[T]) string {
			if a.IsSuccess() && b.IsSuccess() && in.wrong(a.Get(), b.Get()) {
				return in.blame(a.Get(), b.Get())
			}
			return site
		},
		blameE: func() string {
			if in.wrongE() {
				return in.blameE()
			}
			return site
		},
	}
	out.mo = monoid.Try(in.mo)
	out.sg = out.mo
	return out
}

// Dual flips the arguments.  pkg = "monoid" or "semigroup".
func dualInst[T any](pkg string, in inst[T]) inst[fp.Dual[T]] {
	site := pkg + ".Dual"
	out := inst[fp.Dual[T]]{name: site + "(" + in.name + ")", site: site, combs: merge(site, in.combs), assoc: in.assoc, orderShows: in.orderShows, cheap: in.cheap,
		gen:  func(r *rand.Rand) fp.Dual[T] { return fp.Dual[T]{GetDual: in.gen(r)} },
		norm: func(d fp.Dual[T]) string { return "Dual(" + in.norm(d.GetDual) + ")" },
		refC: func(a, b fp.Dual[T]) string { return "Dual(" + in.refC(b.GetDual, a.GetDual) + ")" },
		blame: func(a, b fp.Dual[T]) string {
			if in.wrong(b.GetDual, a.GetDual) {
				return in.blame(b.GetDual, a.GetDual)
			}
			return site
		},
	}
	if pkg == "monoid" {
		out.mo = monoid.Dual(in.mo)
		out.sg = out.mo
		out.refE = func() string { return "Dual(" + in.refE() + ")" }
		out.blameE = func() string {
			if in.wrongE() {
				return in.blameE()
			}
			return site
		}
	} else {
		out.sg = semigroup.Dual(in.sg)
	}
	return out
}

// Eval: combines the values of two suspended computations.
func evalInst[T any](pkg string, in inst[T]) inst[lazy.Eval[T]] {
	site := pkg + ".Eval"
	out := inst[lazy.Eval[T]]{name: site + "(" + in.name + ")", site: site, combs: merge(site, in.combs), assoc: in.assoc, orderShows: in.orderShows,
		gen: func(r *rand.Rand) lazy.Eval[T] {
			v := in.gen(r)
			switch r.IntN(3) {
			case 0:
				return lazy.Done(v)
			case 1:
				return lazy.Call(func() T { return v })
			}
			return lazy.TailCall(func() lazy.Eval[T] { return lazy.Done(v) })
		},
		norm: func(e lazy.Eval[T]) string { return "Eval(" + in.norm(e.Get()) + ")" },
		refC: func(a, b lazy.Eval[T]) string { return "Eval(" + in.refC(a.Get(), b.Get()) + ")" },
		blame: func(a, b lazy.Eval[T]) string {
			if in.wrong(a.Get(), b.Get()) {
				return in.blame(a.Get(), b.Get())
			}
			return site
		},
	}
	if pkg == "monoid" {
		out.mo = monoid.Eval(in.mo)
		out.sg = out.mo
		out.refE = func() string { return "Eval(" + in.refE() + ")" }
		out.blameE = func() string {
			if in.wrongE() {
				return in.blameE()
			}
			return site
		}
	} else {
		out.sg = semigroup.Eval(in.sg)
	}
	return out
}

// Ptr: nil is neutral, two non-nil pointers combine their targets into a new target.
func ptrInst[T any](pkg string, in inst[T]) inst[*T] {
	site := pkg + ".Ptr"
	norm := func(p *T) string {
		if p == nil {
			return "nil"
		}
		return "&" + in.norm(*p)
	}
	out := inst[*T]{name: site + "(" + in.name + ")", site: site, combs: merge(site, in.combs), assoc: in.assoc, orderShows: in.orderShows, cheap: in.cheap,
		gen: func(r *rand.Rand) *T {
			if r.IntN(4) == 0 {
				return nil
			}
			v := in.gen(r)
			return &v
		},
		norm: norm,
		refC: func(a, b *T) string {
			switch {
			case a != nil && b != nil:
				return "&" + in.refC(*a, *b)
			case a != nil:
				return norm(a)
			}
			return norm(b)
		},
		blame: func(a, b *T) string {
			if a != nil && b != nil && in.wrong(*a, *b) {
				return in.blame(*a, *b)
			}
			return site
		},
	}
	if pkg == "monoid" {
		out.mo = monoid.Ptr(lazy.Done(in.mo))
		out.sg = out.mo
		out.refE = func() string { return "nil" }
		out.blameE = func() string { return site }
	} else {
		out.sg = semigroup.Ptr(lazy.Done(in.sg))
	}
	return out
}

// IMap transports an instance along a bijection; here T <-> boxed[T].
type boxed[T any] struct{ V T }

func imapInst[T any](pkg string, in inst[T]) inst[boxed[T]] {
	site := pkg + ".IMap"
	box := func(v T) boxed[T] { return boxed[T]{v} }
	unbox := func(b boxed[T]) T { return b.V }
	out := inst[boxed[T]]{name: site + "(" + in.name + ")", site: site, combs: merge(site, in.combs), assoc: in.assoc, orderShows: in.orderShows, cheap: in.cheap,
		gen:  func(r *rand.Rand) boxed[T] { return box(in.gen(r)) },
		norm: func(b boxed[T]) string { return "Boxed(" + in.norm(b.V) + ")" },
		refC: func(a, b boxed[T]) string { return "Boxed(" + in.refC(a.V, b.V) + ")" },
		blame: func(a, b boxed[T]) string {
			if in.wrong(a.V, b.V) {
				return in.blame(a.V, b.V)
			}
			return site
		},
	}
	if pkg == "monoid" {
		out.mo = monoid.IMap(in.mo, box, unbox)
		out.sg = out.mo
		out.refE = func() string { return "Boxed(" + in.refE() + ")" }
		out.blameE = func() string {
			if in.wrongE() {
				return in.blameE()
			}
			return site
		}
	} else {
		out.sg = semigroup.IMap(in.sg, box, unbox)
	}
	return out
}

func hconsInst[H any, T hlist.HList](ih inst[H], it inst[T]) inst[hlist.Cons[H, T]] {
	site := "monoid.HCons"
	type C = hlist.Cons[H, T]
	out := inst[C]{name: site + "(" + ih.name + ", " + it.name + ")", site: site, combs: merge(site, ih.combs, it.combs), assoc: ih.assoc && it.assoc,
		orderShows: ih.orderShows || it.orderShows, cheap: ih.cheap && it.cheap,
		gen:  func(r *rand.Rand) C { return hlist.Concat(ih.gen(r), it.gen(r)) },
		norm: func(c C) string { return ih.norm(hlist.Head(c)) + " :: " + it.norm(hlist.Tail(c)) },
		refC: func(a, b C) string {
			return ih.refC(hlist.Head(a), hlist.Head(b)) + " :: " + it.refC(hlist.Tail(a), hlist.Tail(b))
		},
		refE: func() string { return ih.refE() + " :: " + it.refE() },
		blame: func(a, b C) string {
			if ih.wrong(hlist.Head(a), hlist.Head(b)) {
				return ih.blame(hlist.Head(a), hlist.Head(b))
			}
			if it.wrong(hlist.Tail(a), hlist.Tail(b)) {
				return it.blame(hlist.Tail(a), hlist.Tail(b))
			}
			return site
		},
		blameE: func() string {
			if ih.wrongE() {
				return ih.blameE()
			}
			if it.wrongE() {
				return it.blameE()
			}
			return site
		},
	}
	out.mo = monoid.HCons(ih.mo, it.mo)
	out.sg = out.mo
	return out
}

// ---- the table ----------------------------------------------------------------------------

type local struct{ c map[string]int64 }

func (l *local) add(k string, n int64) { l.c[k] += n }

type entry struct {
	name  string
	site  string
	combs []string
	run   func(w *vrt.W, i int, r *rand.Rand, loc *local)
}

var (
	lawTable []entry // every instance expression
	seqTable []entry // lawful monoids used for Reduce / FoldMap
)

func addLaw[T any](in inst[T]) inst[T] {
	lawTable = append(lawTable, entry{in.name, in.site, in.combs, func(w *vrt.W, i int, r *rand.Rand, loc *local) { lawCase(w, i, r, loc, in) }})
	return in
}

func addSeq[T any](in inst[T]) {
	if in.mo == nil || !in.assoc {
		panic("Reduce needs a lawful monoid: " + in.name)
	}
	seqTable = append(seqTable, entry{in.name, in.site, in.combs, func(w *vrt.W, i int, r *rand.Rand, loc *local) { seqCase(w, i, r, loc, in) }})
}

// the leaf instances referred to by the generated per-arity tables
var (
	iString     = strConcat("monoid.String", "monoid.String", monoid.String)
	iSumInt     = intSum("monoid.Sum", monoid.Sum[int](), "int")
	iSumInt8    = intSum("monoid.Sum", monoid.Sum[int8](), "int8")
	iSumUint16  = intSum("monoid.Sum", monoid.Sum[uint16](), "uint16")
	iSumString  = strConcat("monoid.Sum", "monoid.Sum[string]", monoid.Sum[string]())
	iProdInt    = intProduct("monoid.Product", monoid.Product[int](), "int")
	iProdInt8   = intProduct("monoid.Product", monoid.Product[int8](), "int8")
	iProdUint32 = intProduct("monoid.Product", monoid.Product[uint32](), "uint32")
	iAny        = boolInst("monoid.Any", monoid.Any, nil, func(a, b bool) bool { return a || b }, false)
	iAll        = boolInst("monoid.All", monoid.All, nil, func(a, b bool) bool { return a && b }, true)
	iUnit       = unitInst()
	iHNil       = hnilInst()
	iMergeSeq   = mergeSeqInst()
	iMergeSlice = mergeSliceInst()
	iMergeGoMap = mergeGoMapInst()
	iMergeMap   = mergeMapInst()
	iMergeSet   = mergeSetInst()
	iEndo       = endoInst("monoid.Endo", monoid.Endo[int](), nil)
)

func semi[T any](site, name string, sg fp.Semigroup[T], like inst[T]) inst[T] {
	like.name, like.site, like.sg, like.mo, like.refE = name, site, sg, nil, nil
	return leaf(like)
}

func init() {
	// --- package monoid and fp: leaves
	for _, in := range []inst[string]{iString, iSumString, strConcat("fp.Sum", "fp.Sum[string]", fp.Sum[string]()),
		strConcat("monoid.New", "monoid.New(zero, +)", monoid.New(func() string { return "" }, func(a, b string) string { return a + b }))} {
		addLaw(in)
	}
	addLaw(iSumInt)
	addLaw(iSumInt8)
	addLaw(iSumUint16)
	addLaw(intSum("monoid.Sum", monoid.Sum[int64](), "int64"))
	addLaw(intSum("fp.Sum", fp.Sum[int](), "int"))
	addLaw(intSum("fp.Sum", fp.Sum[uint8](), "uint8"))
	addLaw(iProdInt)
	addLaw(iProdInt8)
	addLaw(iProdUint32)
	addLaw(intProduct("monoid.Product", monoid.Product[int64](), "int64"))
	addLaw(intProduct("fp.Product", fp.Product[int](), "int"))
	addLaw(intProduct("fp.Product", fp.Product[int16](), "int16"))
	addLaw(floatInst("monoid.Sum", "monoid.Sum[float64]", monoid.Sum[float64](), func(a, b float64) float64 { return a + b }, "0"))
	addLaw(floatInst("monoid.Product", "monoid.Product[float64]", monoid.Product[float64](), func(a, b float64) float64 { return a * b }, "1"))
	addLaw(floatInst("fp.Sum", "fp.Sum[float64]", fp.Sum[float64](), func(a, b float64) float64 { return a + b }, "0"))
	addLaw(floatInst("fp.Product", "fp.Product[float64]", fp.Product[float64](), func(a, b float64) float64 { return a * b }, "1"))
	addLaw(iAny)
	addLaw(iAll)
	addLaw(iUnit)
	addLaw(iHNil)
	addLaw(iMergeSeq)
	addLaw(iMergeSlice)
	addLaw(iMergeGoMap)
	addLaw(iMergeMap)
	addLaw(iMergeSet)
	addLaw(iEndo)
	// maps / sets whose hasher has its own key equivalence (own violation keys, see foldMapInst)
	addLaw(foldMapInst())
	addLaw(foldSetInst())

	// --- package monoid: combinators, one level and nested
	addLaw(mOptionInst(iString))
	addLaw(mOptionInst(iSumInt8))
	addLaw(mOptionInst(iMergeSeq))
	addLaw(mOptionInst(mOptionInst(iAll)))
	addLaw(mTryInst(iString))
	addLaw(mTryInst(iProdInt))
	addLaw(mTryInst(mOptionInst(iMergeGoMap)))
	addLaw(dualInst("monoid", iString))
	addLaw(dualInst("monoid", iMergeSeq))
	addLaw(dualInst("monoid", iEndo))
	addLaw(dualInst("monoid", dualInst("monoid", iString)))
	addLaw(dualInst("monoid", iMergeGoMap))
	addLaw(evalInst("monoid", iString))
	addLaw(evalInst("monoid", iSumInt))
	addLaw(evalInst("monoid", mOptionInst(iMergeSlice)))
	addLaw(ptrInst("monoid", iString))
	addLaw(ptrInst("monoid", iProdInt8))
	addLaw(ptrInst("monoid", ptrInst("monoid", iMergeSeq)))
	addLaw(imapInst("monoid", iString))
	addLaw(imapInst("monoid", iSumUint16))
	addLaw(imapInst("monoid", dualInst("monoid", iMergeSlice)))
	addLaw(mOptionInst(dualInst("monoid", iString)))
	addLaw(mOptionInst(iEndo))
	addLaw(mOptionInst(iMergeMap))
	addLaw(mTryInst(iMergeSet))
	addLaw(hconsInst(iString, iHNil))
	addLaw(hconsInst(iSumInt, hconsInst(iString, iHNil)))
	addLaw(hconsInst(iAll, hconsInst(iMergeSeq, hconsInst(iProdInt8, hconsInst(iAny, iHNil)))))
	addLaw(hconsInst(mOptionInst(iString), hconsInst(dualInst("monoid", iString), hconsInst(iEndo, iHNil))))
	addLaw(mOptionInst(hconsInst(iString, hconsInst(iSumInt, iHNil))))
	addLaw(floatTuple())

	// --- package semigroup
	addLaw(semi("semigroup.Sum", "semigroup.Sum[int]", semigroup.Sum[int](), iSumInt))
	addLaw(semi("semigroup.Sum", "semigroup.Sum[int8]", semigroup.Sum[int8](), iSumInt8))
	addLaw(semi("semigroup.Sum", "semigroup.Sum[string]", semigroup.Sum[string](), iSumString))
	addLaw(semi("semigroup.Product", "semigroup.Product[int]", semigroup.Product[int](0, 0), iProdInt))
	addLaw(semi("semigroup.Product", "semigroup.Product[int8]", semigroup.Product[int8](0, 0), iProdInt8))
	sgString := addLaw(semi("semigroup.New", "semigroup.New(+ on string)", semigroup.New(func(a, b string) string { return a + b }), iString))
	sgAny := addLaw(semi("semigroup.Any", "semigroup.Any", semigroup.Any, iAny))
	sgAll := addLaw(semi("semigroup.All", "semigroup.All", semigroup.All, iAll))
	sgEndo := addLaw(endoInst("semigroup.Endo", nil, semigroup.Endo[int]()))
	sgSumInt := semi("semigroup.Sum", "semigroup.Sum[int]", semigroup.Sum[int](), iSumInt)
	addLaw(dualInst("semigroup", sgString))
	addLaw(dualInst("semigroup", sgEndo))
	addLaw(evalInst("semigroup", sgString))
	addLaw(evalInst("semigroup", sgAll))
	addLaw(imapInst("semigroup", sgString))
	addLaw(imapInst("semigroup", sgSumInt))
	addLaw(ptrInst("semigroup", sgString))
	addLaw(ptrInst("semigroup", sgAny))
	addLaw(sOptionInst(sgString))
	addLaw(sOptionInst(sgSumInt))
	addLaw(sOptionInst(dualInst("semigroup", sgString)))
	addLaw(sOptionInst(sOptionInst(sgAll)))
	addLaw(floatSemi())

	// --- every tuple arity (generated)
	tupleInstances()

	// --- monoids for Reduce / FoldMap: lawful, most of them non-commutative
	addSeq(iString)
	addSeq(iMergeSeq)
	addSeq(iEndo)
	addSeq(iMergeGoMap)
	addSeq(iMergeSlice)
	addSeq(dualInst("monoid", iString))
	addSeq(mOptionInst(iString))
	addSeq(mTryInst(iMergeSeq))
	addSeq(tuple2Inst(iString, iSumInt))
	addSeq(tuple3Inst(iMergeSeq, iAll, dualInst("monoid", iString)))
	addSeq(hconsInst(iString, hconsInst(iProdInt, iHNil)))
	addSeq(evalInst("monoid", iString))
	addSeq(ptrInst("monoid", iString))
	addSeq(imapInst("monoid", iMergeSeq))
	addSeq(iSumInt)
	addSeq(iProdInt8)
	addSeq(iAll)
	addSeq(iAny)
	addSeq(iMergeMap)
	addSeq(iMergeSet)
	addSeq(iSumString)
}

func floatTuple() inst[fp.Tuple2[float64, string]] {
	return tuple2Inst(floatInst("monoid.Sum", "monoid.Sum[float64]", monoid.Sum[float64](), func(a, b float64) float64 { return a + b }, "0"), iString)
}

func floatSemi() inst[float64] {
	f := floatInst("semigroup.Sum", "semigroup.Sum[float64]", nil, func(a, b float64) float64 { return a + b }, "0")
	f.sg, f.mo, f.refE = semigroup.Sum[float64](), nil, nil
	return f
}

// ---- law cases ----------------------------------------------------------------------------

func lawCase[T any](w *vrt.W, i int, r *rand.Rand, loc *local, in inst[T]) {
	w.Begin(i, in.site)
	a, b, c := in.gen(r), in.gen(r), in.gen(r)
	isMonoid := in.mo != nil
	var na, nb, nc string
	witness := func() any {
		return map[string]any{"instance": in.name, "a": na, "b": nb, "c": nc}
	}
	failed := false
	fail := func(key, detail string) {
		failed = true
		if in.raw != nil {
			detail += "\nas stored: a = " + in.raw(a) + "  b = " + in.raw(b) + "  c = " + in.raw(c) +
				"\n           Combine(Combine(a,b),c) = " + in.raw(in.sg.Combine(in.sg.Combine(a, b), c)) + "  Combine(a,Combine(b,c)) = " + in.raw(in.sg.Combine(a, in.sg.Combine(b, c)))
		}
		w.Violation(i, key, detail+"\ninstance "+in.name+"\na = "+na+"\nb = "+nb+"\nc = "+nc, witness())
	}
	w.Guard(i, witness, func() {
		if isMonoid {
			// the identity takes part in triples as well
			for k, p := range []*T{&a, &b, &c} {
				if r.IntN(8) == 0 {
					*p = in.mo.Empty()
					loc.add("triples.with_identity_at_"+strconv.Itoa(k+1), 1)
				}
			}
		}
		if r.IntN(10) == 0 {
			b = a
		}
		na, nb, nc = in.norm(a), in.norm(b), in.norm(c)
		firstBlame := ""
		named := func(x, y T, what string) T {
			got := in.sg.Combine(x, y)
			if g, want := in.norm(got), in.refC(x, y); g != want {
				bl := in.blame(x, y)
				if firstBlame == "" {
					firstBlame = bl
				}
				fail(bl+"/combine-not-as-named", fmt.Sprintf("Combine(%s) = %s, but the instance is named/defined to give %s\nx = %s\ny = %s", what, g, want, in.norm(x), in.norm(y)))
			}
			loc.add("checks.named", 1)
			return got
		}
		w.Site(in.site + ".Combine")
		ab := named(a, b, "a, b")
		nab := in.norm(ab)
		bc := named(b, c, "b, c")
		nbc := in.norm(bc)
		l := named(ab, c, "Combine(a,b), c")
		rr := named(a, bc, "a, Combine(b,c)")
		if in.assoc {
			if nl, nr := in.norm(l), in.norm(rr); nl != nr {
				bl := firstBlame
				if bl == "" {
					bl = in.site
				}
				fail(bl+"/not-associative", fmt.Sprintf("Combine(Combine(a,b),c) = %s but Combine(a,Combine(b,c)) = %s", nl, nr))
			}
			loc.add("checks.associativity", 1)
		} else {
			loc.add("checks.associativity_skipped_float", 1)
		}
		if isMonoid {
			w.Site(in.site + ".Empty")
			e := in.mo.Empty()
			if ne, want := in.norm(e), in.refE(); ne != want {
				fail(in.blameE()+"/empty-not-as-named", fmt.Sprintf("Empty() = %s, expected %s", ne, want))
			}
			w.Site(in.site + ".Combine")
			for _, x := range []T{a, c} {
				nx := in.norm(x)
				if g := in.norm(in.mo.Combine(e, x)); g != nx {
					bl := in.site
					if in.wrong(e, x) {
						bl = in.blame(e, x)
					} else if in.wrongE() {
						bl = in.blameE()
					}
					fail(bl+"/left-identity", fmt.Sprintf("Combine(Empty(), x) = %s for x = %s (Empty() = %s)", g, nx, in.norm(e)))
				}
				if g := in.norm(in.mo.Combine(x, e)); g != nx {
					bl := in.site
					if in.wrong(x, e) {
						bl = in.blame(x, e)
					} else if in.wrongE() {
						bl = in.blameE()
					}
					fail(bl+"/right-identity", fmt.Sprintf("Combine(x, Empty()) = %s for x = %s (Empty() = %s)", g, nx, in.norm(e)))
				}
				loc.add("checks.identity", 2)
			}
		}
		// inputs must still render the same (Combine must not write into its arguments:
		// MergeSeq on a slice with spare capacity, MergeGoMap, Ptr)
		if in.norm(a) != na || in.norm(b) != nb || in.norm(c) != nc {
			fail(in.site+"/arguments-modified", fmt.Sprintf("after the calls the arguments render as a=%s b=%s c=%s", in.norm(a), in.norm(b), in.norm(c)))
		}
		// ... and earlier results are values: a later Combine must not change them (two
		// results appended into the same spare capacity would)
		if g := in.norm(ab); g != nab {
			fail(in.site+"/result-changed-by-later-combine", fmt.Sprintf("Combine(a,b) rendered %s, after further Combine calls it renders %s", nab, g))
		}
		if g := in.norm(bc); g != nbc {
			fail(in.site+"/result-changed-by-later-combine", fmt.Sprintf("Combine(b,c) rendered %s, after further Combine calls it renders %s", nbc, g))
		}
	})
	w.Done(i)
	_ = failed
	loc.add("triples", 1)
	loc.add("inst."+in.name, 1)
	for _, s := range in.combs {
		loc.add("hit."+s, 1)
	}
	if isMonoid {
		loc.add("triples.monoid", 1)
	} else {
		loc.add("triples.semigroup_only", 1)
	}
	// non-trivial: no operand is the identity and the three are not all equal
	nontrivial := !(na == nb && nb == nc)
	if isMonoid {
		e := in.refE()
		if na == e || nb == e || nc == e {
			nontrivial = false
		}
	}
	if nontrivial {
		loc.add("triples.nontrivial", 1)
		w.DistinctHash(vrt.Hash64("law|" + in.name + "|" + na + "|" + nb + "|" + nc))
		if w.WantSample() && r.IntN(200) == 0 {
			w.Sample(witness())
		}
	}
}

// ---- Reduce / FoldMap cases ---------------------------------------------------------------

func seqCase[T any](w *vrt.W, i int, r *rand.Rand, loc *local, in inst[T]) {
	w.Begin(i, "Reduce")
	// length
	n := 0
	switch k := r.IntN(20); {
	case k == 0:
		n = 0
	case k == 1:
		n = 1
	case k == 2:
		n = 2
	case k < 17:
		n = 3 + r.IntN(30)
	case k < 19:
		n = 40 + r.IntN(200)
	default:
		n = 300 + r.IntN(700)
		if w.Tier == "thorough" {
			n = 300 + r.IntN(1500)
		}
		if !in.cheap {
			n = 40 + r.IntN(100)
		}
	}
	xs := make([]T, n)
	for k := range xs {
		xs[k] = in.gen(r)
		if r.IntN(12) == 0 {
			xs[k] = in.mo.Empty()
		}
	}
	m := in.mo
	norms := func() []string {
		out := make([]string, 0, 12)
		for k, x := range xs {
			if k >= 12 {
				out = append(out, fmt.Sprintf("… %d more", len(xs)-12))
				break
			}
			out = append(out, in.norm(x))
		}
		return out
	}
	witness := func() any {
		return map[string]any{"monoid": in.name, "length": n, "elements": norms()}
	}
	var want, wantRev string
	w.Guard(i, witness, func() {
		// the definition: plain left fold of the instance's own Combine from Empty
		acc := m.Empty()
		for _, x := range xs {
			acc = m.Combine(acc, x)
		}
		want = in.norm(acc)
		rev := m.Empty()
		for k := len(xs) - 1; k >= 0; k-- {
			rev = m.Combine(rev, xs[k])
		}
		wantRev = in.norm(rev)
		emptyN := in.norm(m.Empty())
		check := func(site string, got T) {
			loc.add("sequences."+site, 1)
			loc.add("hit."+site, 1)
			g := in.norm(got)
			if g == want {
				return
			}
			hint := ""
			switch {
			case g == emptyN:
				hint = " (that is Empty(): the elements were ignored)"
			case g == wantRev:
				hint = " (that is the fold of the reversed sequence)"
			}
			w.Violation(i, site+"/not-left-fold", fmt.Sprintf("%s over %d elements with %s = %s%s\nplain left fold of Combine from Empty = %s\nelements %v", site, n, in.name, g, hint, want, norms()), witness())
		}
		budget := vrt.NewBudget(int64(4*n+16), "FoldMap callback calls for "+strconv.Itoa(n)+" elements")
		idx := make([]int, n)
		for k := range idx {
			idx[k] = k
		}
		at := func(k int) T { budget.Tick(); return xs[k] }

		w.Site("seq.Reduce")
		check("seq.Reduce", seq.Reduce(fp.Seq[T](xs), m))

		w.Site("iterator.Reduce")
		var it fp.Iterator[T]
		switch r.IntN(3) {
		case 0:
			it = iterator.FromSeq(fp.Seq[T](xs))
		case 1:
			it = iterator.Of(xs...)
		default:
			pos := 0
			nb := vrt.NewBudget(int64(4*n+16), "HasNext/Next calls")
			it = fp.MakeIterator(func() bool { nb.Tick(); return pos < len(xs) }, func() T { nb.Tick(); pos++; return xs[pos-1] })
		}
		check("iterator.Reduce", iterator.Reduce(it, m))

		w.Site("list.Reduce")
		var l fp.List[T]
		switch r.IntN(3) {
		case 0:
			l = list.FromSeq(fp.Seq[T](xs))
		case 1:
			l = list.Of(xs...)
		default:
			l = list.Empty[T]()
			for k := len(xs) - 1; k >= 0; k-- {
				l = list.Apply(xs[k], l)
			}
		}
		check("list.Reduce", list.Reduce(l, m))

		w.Site("seq.FoldMap")
		check("seq.FoldMap", seq.FoldMap(fp.Seq[int](idx), m, at))

		w.Site("list.FoldMap")
		check("list.FoldMap", list.FoldMap(list.FromSeq(fp.Seq[int](idx)), m, at))
	})
	w.Done(i)
	loc.add("sequences", 1)
	loc.add("seqinst."+in.name, 1)
	if n > 300 {
		loc.add("sequences.longer_than_300", 1)
	}
	if n == 0 {
		loc.add("sequences.empty", 1)
	}
	w.Max("max_sequence_length", int64(n))
	// non-trivial: at least 3 elements and the order of combination shows in the result
	if n >= 3 && want != wantRev {
		loc.add("sequences.order_sensitive", 1)
		h := "seq|" + in.name
		for _, x := range xs {
			h += "|" + in.norm(x)
			if len(h) > 4000 {
				break
			}
		}
		w.DistinctHash(vrt.Hash64(h))
		if w.WantSample() && n <= 8 && r.IntN(50) == 0 {
			w.Sample(witness())
		}
	}
}

// ---- main ---------------------------------------------------------------------------------

// requiredSites: every instance / combinator named by the property must be exercised.
func requiredSites() []string {
	out := []string{
		"monoid.String", "monoid.Sum", "monoid.Product", "monoid.Any", "monoid.All", "monoid.Option", "monoid.Try",
		"monoid.MergeSeq", "monoid.MergeSlice", "monoid.MergeMap", "monoid.MergeSet", "monoid.MergeGoMap", "monoid.Endo",
		"monoid.MergeMap(custom-Eqv hasher)", "monoid.MergeSet(custom-Eqv hasher)", "monoid.Dual", "monoid.Eval", "monoid.Ptr", "monoid.Unit", "monoid.HCons", "monoid.HNil", "monoid.IMap", "monoid.New",
		"fp.Sum", "fp.Product",
		"semigroup.New", "semigroup.Sum", "semigroup.Product", "semigroup.Endo", "semigroup.Dual", "semigroup.Eval",
		"semigroup.Any", "semigroup.All", "semigroup.IMap", "semigroup.Ptr", "semigroup.Option",
		"seq.Reduce", "iterator.Reduce", "list.Reduce", "seq.FoldMap", "list.FoldMap",
	}
	for n := 2; n <= 21; n++ {
		out = append(out, "monoid.Tuple"+strconv.Itoa(n))
	}
	return out
}

func main() {
	perBatch := func(tier string) int {
		if tier == "thorough" {
			return 16000
		}
		return 4000
	}
	vrt.Main(vrt.Config{
		Property: "C11",
		Batches: func(tier string) int {
			if tier == "thorough" {
				return 128
			}
			return 32
		},
		Cases: func(tier string, b int) int { return perBatch(tier) },
		Run: func(w *vrt.W) {
			loc := &local{c: map[string]int64{}}
			pb := perBatch(w.Tier)
			for i := w.From; i < w.To; i++ {
				g := w.Batch*pb + i
				r := w.Rand(i)
				if g%8 == 7 {
					e := seqTable[(g/8)%len(seqTable)]
					e.run(w, i, r, loc)
				} else {
					e := lawTable[((g/8)*7+g%8)%len(lawTable)]
					e.run(w, i, r, loc)
				}
			}
			ks := make([]string, 0, len(loc.c))
			for k := range loc.c {
				ks = append(ks, k)
			}
			sort.Strings(ks)
			for _, k := range ks {
				w.Add(k, loc.c[k])
			}
		},
		Rule: "7 of 8 cases are law cases, 1 of 8 a sequence case; instances are taken round-robin from a table of instance expressions (all leaves of package monoid/semigroup/fp at several widths, every combinator alone and nested, every Tuple arity 2..21 with three component patterns). Law case: a PRNG triple (a,b,c) (operands are the identity with probability 1/8 each, b=a with 1/10; integers include arbitrary bit patterns so overflow occurs; maps/sets draw keys from a 5..8 element universe so they overlap; Endo values are affine/constant/shift/permutation functions compared on 16 points; fp.Map/fp.Set compared by iterated content; nil ≡ empty) on which are checked: Combine(x,y) renders as the plain-Go reference of the named behaviour for the four pairs (a,b),(b,c),(ab,c),(a,bc); Combine(Combine(a,b),c) = Combine(a,Combine(b,c)) (not for float instances); Empty() as named; Combine(Empty,x)=x=Combine(x,Empty) for x in {a,c}; arguments unchanged. Sequence case: a PRNG sequence (length 0,1,2, 3..32, 40..240, 300..1000, thorough 300..1800) over one of 21 lawful monoids, 16 of them non-commutative; seq.Reduce, iterator.Reduce (FromSeq / Of / MakeIterator sources), list.Reduce (FromSeq / Of / cons-built lists), seq.FoldMap and list.FoldMap must render like the plain loop acc = Combine(acc, x) from Empty(). distinct_nontrivial counts distinct fingerprints of (instance, a, b, c) with no operand equal to the identity and not a=b=c, plus (monoid, sequence) with ≥ 3 elements whose reversed fold differs from the fold (the order of combination shows in the result).",
		Assumptions: []string{
			"floating-point Sum/Product are checked for named behaviour and identity only (associativity does not hold for floats and is not demanded)",
			"functions (Endo) are compared extensionally on a fixed 16-point domain",
			"fp.Map / fp.Set operands are built with hash.String / hash.Number, with a case-insensitive hasher (own instance entries, compared modulo that equivalence) or are the zero value; all operands of one triple use the same hasher",
			"monoid.Try: any failure counts as the absorbing element, which error survives is not compared",
			"monoid.Future is not covered here (future combinators are the subject of C06)",
			"Reduce/FoldMap are compared with the left fold only for lawful monoids (list.Reduce/FoldMap associate to the right, which is the same value exactly when the monoid is lawful)",
		},
		Floors: func(tier string) map[string]int64 {
			f := map[string]int64{"triples.nontrivial": 50000, "sequences.order_sensitive": 5000, "sequences.longer_than_300": 100, "sequences.empty": 50,
				"checks.associativity": 100000, "checks.identity": 100000, "triples.semigroup_only": 10000}
			for _, s := range requiredSites() {
				f["hit."+s] = 500
			}
			for _, e := range lawTable {
				f["inst."+e.name] = 100
			}
			for _, e := range seqTable {
				f["seqinst."+e.name] = 100
			}
			if tier == "thorough" {
				for k := range f {
					f[k] *= 10
				}
			}
			return f
		},
		Finish: func(tier string, m *vrt.Merged, cov map[string]any) {
			cov["instance_expressions"] = len(lawTable)
			cov["reduce_monoids"] = len(seqTable)
			hit := 0
			for _, e := range lawTable {
				if m.Counters["inst."+e.name] > 0 {
					hit++
				}
			}
			cov["instance_expressions_exercised"] = hit
		},
	})
}
