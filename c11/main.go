// C11 — Monoid / Semigroup instances are lawful and compute what their names say;
// Reduce / FoldMap of seq, iterator and list equal the plain left fold.
//
// Every instance expression under test is described by an inst[T]: the library instance, a
// value generator, a canonical rendering norm(T) (by content, functions extensionally on a
// fixed test domain) and a plain-Go reference refC(a,b) of what Combine is *named* to do,
// rendered the same way.  A law case draws a triple and checks named behaviour, associativity
// and the two-sided identity by comparing renderings; a sequence case compares the five
// Reduce/FoldMap implementations with the plain loop acc = Combine(acc, x) from Empty(); a history
// case (hist.go) keeps every Combine result as returned and feeds it back, as left and as right
// operand, into later Combines of two freshly constructed instances and the table's long-lived
// one, re-reading every kept value afterwards.  Operands of container-valued instances are also
// drawn large and lopsided (sizes.go).  The case drivers work on the type-erased view dyn
// (dyn.go) so that they are compiled once, not once per instance type.
// The per-arity builders (tuples_gen.go) are written by ./gen.
package main

import (
	"errors"
	"fmt"
	"math"
	"math/rand/v2"
	"sort"
	"strconv"
	"strings"

	"verif/vrt"

	"github.com/csgura/fp"
	"github.com/csgura/fp/hash"
	"github.com/csgura/fp/hlist"
	"github.com/csgura/fp/immutable"
	"github.com/csgura/fp/lazy"
	"github.com/csgura/fp/monoid"
	"github.com/csgura/fp/semigroup"
)

// ---- instance descriptions ----------------------------------------------------------------

type inst[T any] struct {
	name  string   // the expression, e.g. monoid.Option(monoid.String)
	site  string   // its outermost combinator, e.g. monoid.Option
	combs []string // every library instance/combinator in the expression
	sg    fp.Semigroup[T]
	mo    fp.Monoid[T] // nil for semigroup-only instances
	// mkS / mkM build the instance again through new constructor calls, all the way down
	// (monoid.Option(monoid.MergeSeq[int]()) twice gives two unrelated instance objects); for
	// package-level variables (monoid.String) they return the variable. mkM is nil for
	// semigroup-only instances. sg/mo above are the table's long-lived instance.
	mkS  func() fp.Semigroup[T]
	mkM  func() fp.Monoid[T]
	gen  func(r *rand.Rand) T
	norm func(T) string      // canonical rendering by content
	refC func(a, b T) string // plain-Go reference: rendering of what Combine(a,b) is named to be
	refE func() string       // plain-Go reference: rendering of Empty() (monoids)
	// blame names the instance responsible when norm(Combine(a,b)) != refC(a,b): a component
	// that is wrong on its own, else the combinator itself
	blame  func(a, b T) string
	blameE func() string
	raw    func(T) string // optional: uncanonicalised rendering, for violation reports only
	assoc  bool           // false: floating point, associativity not demanded
	// orderShows: Combine is not commutative (used to pick monoids for Reduce/FoldMap)
	orderShows bool
	cheap      bool // fit for long sequences
}

func (in inst[T]) wrong(a, b T) bool { return in.norm(in.sg.Combine(a, b)) != in.refC(a, b) }
func (in inst[T]) wrongE() bool      { return in.mo != nil && in.norm(in.mo.Empty()) != in.refE() }

// withM / withS set the constructor of an instance description and build the table's instance.
func (in inst[T]) withM(mk func() fp.Monoid[T]) inst[T] {
	in.mkM = mk
	in.mkS = func() fp.Semigroup[T] { return mk() }
	in.mo = mk()
	in.sg = in.mo
	return in
}

func (in inst[T]) withS(mk func() fp.Semigroup[T]) inst[T] {
	in.mkM, in.mo = nil, nil
	in.mkS = mk
	in.sg = mk()
	return in
}

// the constructor of a package-level instance variable
func constM[T any](m fp.Monoid[T]) func() fp.Monoid[T] { return func() fp.Monoid[T] { return m } }
func constS[T any](s fp.Semigroup[T]) func() fp.Semigroup[T] {
	return func() fp.Semigroup[T] { return s }
}

func leaf[T any](in inst[T]) inst[T] {
	site := in.site
	in.combs = []string{site}
	in.blame = func(a, b T) string { return site }
	in.blameE = func() string { return site }
	if in.sg == nil {
		panic("leaf without instance: " + in.name)
	}
	return in
}

func merge(site string, cs ...[]string) []string {
	seen := map[string]bool{site: true}
	out := []string{site}
	for _, c := range cs {
		for _, s := range c {
			if !seen[s] {
				seen[s] = true
				out = append(out, s)
			}
		}
	}
	return out
}

// ---- generators ---------------------------------------------------------------------------

type integer interface {
	~int | ~int8 | ~int16 | ~int32 | ~int64 | ~uint | ~uint8 | ~uint16 | ~uint32 | ~uint64
}

func genInt[T integer](r *rand.Rand) T {
	switch r.IntN(8) {
	case 0:
		return 0
	case 1:
		return 1
	case 2:
		return T(r.Uint64()) // any bit pattern: overflow is exercised
	case 3:
		var m T = 1
		return ^T(0) - m*T(r.IntN(3)) // near the top of the range / -1..-3 for signed
	}
	return T(r.IntN(41) - 20)
}

func fmtInt[T integer](v T) string { return fmt.Sprint(v) }

var words = []string{"", "a", "b", "ab", "ba", "xyz", "-", "é"}

func genStr(r *rand.Rand) string {
	if n, _, ok := sizeHint(); ok {
		b := make([]byte, n)
		for i := range b {
			b[i] = byte('a' + r.IntN(4))
		}
		return string(b)
	}
	if r.IntN(3) == 0 {
		return words[r.IntN(len(words))]
	}
	n := r.IntN(4)
	b := make([]byte, n)
	for i := range b {
		b[i] = byte('a' + r.IntN(4))
	}
	return string(b)
}

func genFloat(r *rand.Rand) float64 {
	switch r.IntN(10) {
	case 0:
		return 0
	case 1:
		return math.Copysign(0, -1)
	case 2:
		return math.Inf(1)
	case 3:
		return 1e308
	case 4:
		return 0.1
	}
	return float64(r.IntN(2001)-1000) / 7
}

// -0 ≡ +0 (they are == and the identity law would otherwise demand 0 + -0 = -0), NaN ≡ NaN
func fmtFloat(f float64) string {
	if f == 0 {
		return "0"
	}
	if f != f {
		return "NaN"
	}
	return strconv.FormatFloat(f, 'g', -1, 64)
}

// ---- leaf instances -----------------------------------------------------------------------

func intSum[T integer](site string, mk func() fp.Monoid[T], tname string) inst[T] {
	return leaf(inst[T]{name: site + "[" + tname + "]", site: site, gen: genInt[T], norm: fmtInt[T],
		refC: func(a, b T) string { return fmtInt(a + b) }, refE: func() string { return "0" }, assoc: true, cheap: true}.withM(mk))
}

func intProduct[T integer](site string, mk func() fp.Monoid[T], tname string) inst[T] {
	return leaf(inst[T]{name: site + "[" + tname + "]", site: site, gen: genInt[T], norm: fmtInt[T],
		refC: func(a, b T) string { return fmtInt(a * b) }, refE: func() string { return "1" }, assoc: true, cheap: true}.withM(mk))
}

func strConcat(site, name string, mk func() fp.Monoid[string]) inst[string] {
	return leaf(inst[string]{name: name, site: site, gen: genStr, norm: strconv.Quote,
		refC: func(a, b string) string { return strconv.Quote(a + b) }, refE: func() string { return `""` }, assoc: true, orderShows: true, cheap: true}.withM(mk))
}

func floatInst(site, name string, mk func() fp.Monoid[float64], op func(a, b float64) float64, e string) inst[float64] {
	return leaf(inst[float64]{name: name, site: site, gen: genFloat, norm: fmtFloat,
		refC: func(a, b float64) string { return fmtFloat(op(a, b)) }, refE: func() string { return e }, assoc: false}.withM(mk))
}

func boolInst(site string, m fp.Monoid[bool], sg fp.Semigroup[bool], op func(a, b bool) bool, e bool) inst[bool] {
	in := inst[bool]{name: site, site: site, gen: func(r *rand.Rand) bool { return r.IntN(2) == 0 }, norm: strconv.FormatBool,
		refC: func(a, b bool) string { return strconv.FormatBool(op(a, b)) }, assoc: true, cheap: true}
	if m != nil {
		in.refE = func() string { return strconv.FormatBool(e) }
		in = in.withM(constM(m))
	} else {
		in = in.withS(constS(sg))
	}
	return leaf(in)
}

func unitInst() inst[fp.Unit] {
	return leaf(inst[fp.Unit]{name: "monoid.Unit", site: "monoid.Unit", gen: func(*rand.Rand) fp.Unit { return fp.Unit{} },
		norm: func(fp.Unit) string { return "()" }, refC: func(a, b fp.Unit) string { return "()" }, refE: func() string { return "()" }, assoc: true, cheap: true}.withM(constM(monoid.Unit)))
}

func hnilInst() inst[hlist.Nil] {
	return leaf(inst[hlist.Nil]{name: "monoid.HNil", site: "monoid.HNil", gen: func(*rand.Rand) hlist.Nil { return hlist.Nil{} },
		norm: func(hlist.Nil) string { return "HNil" }, refC: func(a, b hlist.Nil) string { return "HNil" }, refE: func() string { return "HNil" }, assoc: true, cheap: true}.withM(constM(monoid.HNil)))
}

func genInts(r *rand.Rand) []int {
	if n, _, ok := sizeHint(); ok {
		s := make([]int, n, n+r.IntN(3)*r.IntN(9)) // often with spare capacity
		for i := range s {
			s[i] = r.IntN(10)
		}
		return s
	}
	switch r.IntN(6) {
	case 0:
		return nil
	case 1:
		return []int{}
	}
	n := 1 + r.IntN(3)
	s := make([]int, n, n+r.IntN(3)) // spare capacity: Concat must not write into it
	for i := range s {
		s[i] = r.IntN(10)
	}
	return s
}

func fmtInts(s []int) string { return fmt.Sprint(append([]int{}, s...)) } // nil ≡ empty

func concatInts(a, b []int) string {
	out := make([]int, 0, len(a)+len(b))
	out = append(out, a...)
	out = append(out, b...)
	return fmtInts(out)
}

func mergeSeqInst() inst[fp.Seq[int]] {
	return leaf(inst[fp.Seq[int]]{name: "monoid.MergeSeq[int]", site: "monoid.MergeSeq",
		gen: func(r *rand.Rand) fp.Seq[int] { return genInts(r) }, norm: func(s fp.Seq[int]) string { return fmtInts(s) },
		refC: func(a, b fp.Seq[int]) string { return concatInts(a, b) }, refE: func() string { return "[]" }, assoc: true, orderShows: true, cheap: true}.withM(monoid.MergeSeq[int]))
}

func mergeSliceInst() inst[[]int] {
	return leaf(inst[[]int]{name: "monoid.MergeSlice[int]", site: "monoid.MergeSlice",
		gen: genInts, norm: fmtInts, refC: concatInts, refE: func() string { return "[]" }, assoc: true, orderShows: true, cheap: true}.withM(monoid.MergeSlice[int]))
}

var mapKeys = []string{"a", "b", "c", "d", "e"}

func genGoMap(r *rand.Rand) map[string]int {
	if n, u, ok := sizeHint(); ok {
		m := make(map[string]int, r.IntN(2)*n)
		for _, k := range pickDistinct(r, n, u) {
			m[keyName(k)] = r.IntN(100)
		}
		return m
	}
	switch r.IntN(7) {
	case 0:
		return nil
	case 1:
		return map[string]int{}
	}
	m := map[string]int{}
	for n := 1 + r.IntN(3); n > 0; n-- {
		m[mapKeys[r.IntN(len(mapKeys))]] = r.IntN(100)
	}
	return m
}

func fmtGoMap(m map[string]int) string {
	ks := make([]string, 0, len(m))
	for k := range m {
		ks = append(ks, k)
	}
	sort.Strings(ks)
	var b strings.Builder
	b.WriteByte('{')
	for i, k := range ks {
		if i > 0 {
			b.WriteByte(' ')
		}
		fmt.Fprintf(&b, "%s=%d", k, m[k])
	}
	b.WriteByte('}')
	return b.String()
}

// union with right bias, in plain Go
func unionRight(a, b map[string]int) string {
	out := map[string]int{}
	for k, v := range a {
		out[k] = v
	}
	for k, v := range b {
		out[k] = v
	}
	return fmtGoMap(out)
}

func mergeGoMapInst() inst[map[string]int] {
	return leaf(inst[map[string]int]{name: "monoid.MergeGoMap[string,int]", site: "monoid.MergeGoMap",
		gen: genGoMap, norm: fmtGoMap, refC: unionRight, refE: func() string { return "{}" }, assoc: true, orderShows: true, cheap: true}.withM(monoid.MergeGoMap[string, int]))
}

// content of an fp.Map through its own iterator (duplicates would show as a size mismatch)
func mapContent(m fp.Map[string, int]) string {
	out := map[string]int{}
	n := 0
	it := m.Iterator()
	for it.HasNext() {
		t := it.Next()
		out[t.I1] = t.I2
		n++
	}
	s := fmtGoMap(out)
	if n != len(out) || m.Size() != n {
		s += fmt.Sprintf("!iterated=%d distinct=%d Size=%d", n, len(out), m.Size())
	}
	return s
}

func mapToGo(m fp.Map[string, int]) map[string]int {
	out := map[string]int{}
	it := m.Iterator()
	for it.HasNext() {
		t := it.Next()
		out[t.I1] = t.I2
	}
	return out
}

func mergeMapInst() inst[fp.Map[string, int]] {
	return leaf(inst[fp.Map[string, int]]{name: "monoid.MergeMap[string,int]", site: "monoid.MergeMap",
		gen: func(r *rand.Rand) fp.Map[string, int] {
			if !hint.on && r.IntN(6) == 0 {
				return fp.Map[string, int]{} // the zero value, which is also Empty()
			}
			var items []fp.Tuple2[string, int]
			for k, v := range genGoMap(r) {
				items = append(items, fp.Tuple2[string, int]{I1: k, I2: v})
			}
			sort.Slice(items, func(i, j int) bool { return items[i].I1 < items[j].I1 })
			if hint.on {
				switch r.IntN(3) {
				case 0: // built entry by entry, in a PRNG order
					r.Shuffle(len(items), func(i, j int) { items[i], items[j] = items[j], items[i] })
					m := immutable.Map[string, int](hash.String)
					for _, t := range items {
						m = m.Updated(t.I1, t.I2)
					}
					return m
				case 1:
					r.Shuffle(len(items), func(i, j int) { items[i], items[j] = items[j], items[i] })
				}
			}
			return immutable.Map(hash.String, items...)
		},
		norm: mapContent,
		refC: func(a, b fp.Map[string, int]) string { return unionRight(mapToGo(a), mapToGo(b)) },
		refE: func() string { return "{}" }, assoc: true, orderShows: true}.withM(monoid.MergeMap[string, int]))
}

func setContent(s fp.Set[int]) string {
	var xs []int
	it := s.Iterator()
	for it.HasNext() {
		xs = append(xs, it.Next())
	}
	sort.Ints(xs)
	out := fmt.Sprint(append([]int{}, xs...))
	for i := 1; i < len(xs); i++ {
		if xs[i] == xs[i-1] {
			out += "!duplicate"
		}
	}
	if s.Size() != len(xs) {
		out += fmt.Sprintf("!Size=%d", s.Size())
	}
	return out
}

func mergeSetInst() inst[fp.Set[int]] {
	return leaf(inst[fp.Set[int]]{name: "monoid.MergeSet[int]", site: "monoid.MergeSet",
		gen: func(r *rand.Rand) fp.Set[int] {
			if n, u, ok := sizeHint(); ok {
				return immutable.Set(hash.Number[int](), pickDistinct(r, n, u)...)
			}
			if r.IntN(6) == 0 {
				return fp.Set[int]{}
			}
			n := r.IntN(4)
			xs := make([]int, n)
			for i := range xs {
				xs[i] = r.IntN(8)
			}
			return immutable.Set(hash.Number[int](), xs...)
		},
		norm: setContent,
		refC: func(a, b fp.Set[int]) string {
			u := map[int]bool{}
			for _, s := range []fp.Set[int]{a, b} {
				it := s.Iterator()
				for it.HasNext() {
					u[it.Next()] = true
				}
			}
			xs := make([]int, 0, len(u))
			for k := range u {
				xs = append(xs, k)
			}
			sort.Ints(xs)
			return fmt.Sprint(xs)
		},
		refE: func() string { return "[]" }, assoc: true}.withM(monoid.MergeSet[int]))
}

// ---- fp.Map / fp.Set whose hasher has its own key equivalence -------------------------------
//
// Legitimate values of fp.Map[string,int] / fp.Set[string] (C03 treats such hashers as first
// class).  Content is compared modulo the hasher's equivalence: keys are rendered lower-case,
// so it does not matter which representative of a class the library keeps; two entries of the
// same class inside one map show up as two entries.
type foldHasher struct{}

func (foldHasher) Eqv(a, b string) bool { return strings.EqualFold(a, b) }
func (foldHasher) Hash(s string) uint32 { return hash.String.Hash(strings.ToLower(s)) }

var foldKeys = []string{"a", "A", "b", "B", "c"}

func foldKeyName(r *rand.Rand, k int) string {
	if r.IntN(2) == 0 {
		return "K" + strconv.Itoa(k)
	}
	return "k" + strconv.Itoa(k)
}

func foldMapContent(m fp.Map[string, int]) string {
	type kv struct {
		k string
		v int
	}
	var kvs []kv
	it := m.Iterator()
	for it.HasNext() {
		t := it.Next()
		kvs = append(kvs, kv{strings.ToLower(t.I1), t.I2})
	}
	// by key like fmtGoMap (the reference renders with it), two entries of one class by value
	sort.Slice(kvs, func(i, j int) bool {
		if kvs[i].k != kvs[j].k {
			return kvs[i].k < kvs[j].k
		}
		return kvs[i].v < kvs[j].v
	})
	es := make([]string, len(kvs))
	for i, e := range kvs {
		es[i] = e.k + "=" + strconv.Itoa(e.v)
	}
	s := "{" + strings.Join(es, " ") + "}"
	if m.Size() != len(es) {
		s += fmt.Sprintf("!Size=%d", m.Size())
	}
	return s
}

func foldMapInst() inst[fp.Map[string, int]] {
	return leaf(inst[fp.Map[string, int]]{name: "monoid.MergeMap[string,int] over maps with a case-insensitive hasher", site: "monoid.MergeMap(custom-Eqv hasher)",
		gen: func(r *rand.Rand) fp.Map[string, int] {
			if n, u, ok := sizeHint(); ok {
				// n distinct classes of the hasher's equivalence, either spelling of each
				items := make([]fp.Tuple2[string, int], 0, n)
				for _, k := range pickDistinct(r, n, u) {
					items = append(items, fp.Tuple2[string, int]{I1: foldKeyName(r, k), I2: r.IntN(100)})
				}
				return immutable.Map[string, int](foldHasher{}, items...)
			}
			if r.IntN(6) == 0 {
				return fp.Map[string, int]{}
			}
			items := make([]fp.Tuple2[string, int], r.IntN(4))
			for i := range items {
				items[i] = fp.Tuple2[string, int]{I1: foldKeys[r.IntN(len(foldKeys))], I2: r.IntN(100)}
			}
			return immutable.Map[string, int](foldHasher{}, items...)
		},
		norm: foldMapContent,
		raw: func(m fp.Map[string, int]) string {
			if m.Base == nil {
				return "zero fp.Map"
			}
			var es []string
			for it := m.Iterator(); it.HasNext(); {
				t := it.Next()
				es = append(es, t.I1+":"+strconv.Itoa(t.I2))
			}
			sort.Strings(es)
			return fmt.Sprintf("%T{%s}", m.Base, strings.Join(es, " "))
		},
		refC: func(a, b fp.Map[string, int]) string {
			out := map[string]int{}
			for _, m := range []fp.Map[string, int]{a, b} {
				it := m.Iterator()
				for it.HasNext() {
					t := it.Next()
					out[strings.ToLower(t.I1)] = t.I2
				}
			}
			return fmtGoMap(out)
		},
		refE: func() string { return "{}" }, assoc: true, orderShows: true}.withM(monoid.MergeMap[string, int]))
}

func foldSetContent(s fp.Set[string]) string {
	var es []string
	it := s.Iterator()
	for it.HasNext() {
		es = append(es, strings.ToLower(it.Next()))
	}
	sort.Strings(es)
	out := "[" + strings.Join(es, " ") + "]"
	if s.Size() != len(es) {
		out += fmt.Sprintf("!Size=%d", s.Size())
	}
	return out
}

func foldSetInst() inst[fp.Set[string]] {
	return leaf(inst[fp.Set[string]]{name: "monoid.MergeSet[string] over sets with a case-insensitive hasher", site: "monoid.MergeSet(custom-Eqv hasher)",
		gen: func(r *rand.Rand) fp.Set[string] {
			if n, u, ok := sizeHint(); ok {
				xs := make([]string, 0, n)
				for _, k := range pickDistinct(r, n, u) {
					xs = append(xs, foldKeyName(r, k))
				}
				return immutable.Set[string](foldHasher{}, xs...)
			}
			if r.IntN(6) == 0 {
				return fp.Set[string]{}
			}
			xs := make([]string, r.IntN(4))
			for i := range xs {
				xs[i] = foldKeys[r.IntN(len(foldKeys))]
			}
			return immutable.Set[string](foldHasher{}, xs...)
		},
		norm: foldSetContent,
		raw: func(s fp.Set[string]) string {
			var es []string
			for it := s.Iterator(); it.HasNext(); {
				es = append(es, it.Next())
			}
			sort.Strings(es)
			return "Set{" + strings.Join(es, " ") + "}"
		},
		refC: func(a, b fp.Set[string]) string {
			u := map[string]bool{}
			for _, s := range []fp.Set[string]{a, b} {
				it := s.Iterator()
				for it.HasNext() {
					u[strings.ToLower(it.Next())] = true
				}
			}
			es := make([]string, 0, len(u))
			for k := range u {
				es = append(es, k)
			}
			sort.Strings(es)
			return "[" + strings.Join(es, " ") + "]"
		},
		refE: func() string { return "[]" }, assoc: true}.withM(monoid.MergeSet[string]))
}

// Endo: functions compared extensionally on 16 points. The generated functions are affine
// maps, x -> x+k, constant maps and a table permutation: composition is not commutative.
var endoPoints = []int{-7, -3, -2, -1, 0, 1, 2, 3, 4, 5, 6, 7, 10, 100, -100, 1 << 40}

var permTable = [8]int{3, 0, 6, 1, 7, 2, 5, 4}

func genEndo(r *rand.Rand) fp.Endo[int] {
	switch r.IntN(6) {
	case 0:
		return func(x int) int { return x }
	case 1:
		k := r.IntN(9) - 4
		return func(x int) int { return x + k }
	case 2:
		k := r.IntN(5)
		return func(x int) int { return k }
	case 3:
		return func(x int) int {
			if x >= 0 && x < 8 {
				return permTable[x]
			}
			return x
		}
	}
	a, b := r.IntN(7)-3, r.IntN(11)-5
	return func(x int) int { return a*x + b }
}

func fmtEndo(f fp.Endo[int]) string {
	if f == nil {
		return "nil-func"
	}
	out := make([]int, len(endoPoints))
	for i, x := range endoPoints {
		out[i] = f(x)
	}
	return fmt.Sprint(out)
}

func endoRef(f, g fp.Endo[int]) string {
	out := make([]int, len(endoPoints))
	for i, x := range endoPoints {
		out[i] = f(g(x)) // Combine(f,g) = f ∘ g
	}
	return fmt.Sprint(out)
}

func endoInst(site string, mkM func() fp.Monoid[fp.Endo[int]], mkS func() fp.Semigroup[fp.Endo[int]]) inst[fp.Endo[int]] {
	in := inst[fp.Endo[int]]{name: site + "[int]", site: site, gen: genEndo, norm: fmtEndo, refC: endoRef, assoc: true, orderShows: true, cheap: true}
	if mkM != nil {
		in.refE = func() string { return fmt.Sprint(endoPoints) }
		in = in.withM(mkM)
	} else {
		in = in.withS(mkS)
	}
	return leaf(in)
}

// ---- combinators --------------------------------------------------------------------------

// monoid.Option: lifts with None absorbing; Empty = Some(empty)
func mOptionInst[T any](in inst[T]) inst[fp.Option[T]] {
	site := "monoid.Option"
	norm := func(o fp.Option[T]) string {
		if o.IsDefined() {
			return "Some(" + in.norm(o.Get()) + ")"
		}
		return "None"
	}
	out := inst[fp.Option[T]]{name: site + "(" + in.name + ")", site: site, combs: merge(site, in.combs), assoc: in.assoc, orderShows: in.orderShows, cheap: in.cheap,
		gen: func(r *rand.Rand) fp.Option[T] {
			if r.IntN(4) == 0 {
				return fp.None[T]()
			}
			return fp.Some(in.gen(r))
		},
		norm: norm,
		refC: func(a, b fp.Option[T]) string {
			if a.IsDefined() && b.IsDefined() {
				return "Some(" + in.refC(a.Get(), b.Get()) + ")"
			}
			return "None"
		},
		refE: func() string { return "Some(" + in.refE() + ")" },
		blame: func(a, b fp.Option[T]) string {
			if a.IsDefined() && b.IsDefined() && in.wrong(a.Get(), b.Get()) {
				return in.blame(a.Get(), b.Get())
			}
			return site
		},
		blameE: func() string {
			if in.wrongE() {
				return in.blameE()
			}
			return site
		},
	}
	return out.withM(func() fp.Monoid[fp.Option[T]] { return monoid.Option(in.mkM()) })
}

// semigroup.Option: None is neutral
func sOptionInst[T any](in inst[T]) inst[fp.Option[T]] {
	site := "semigroup.Option"
	norm := func(o fp.Option[T]) string {
		if o.IsDefined() {
			return "Some(" + in.norm(o.Get()) + ")"
		}
		return "None"
	}
	return inst[fp.Option[T]]{name: site + "(" + in.name + ")", site: site, combs: merge(site, in.combs), assoc: in.assoc,
		gen: func(r *rand.Rand) fp.Option[T] {
			if r.IntN(3) == 0 {
				return fp.None[T]()
			}
			return fp.Some(in.gen(r))
		},
		norm: norm,
		refC: func(a, b fp.Option[T]) string {
			switch {
			case a.IsDefined() && b.IsDefined():
				return "Some(" + in.refC(a.Get(), b.Get()) + ")"
			case a.IsDefined():
				return norm(a)
			}
			return norm(b)
		},
		blame: func(a, b fp.Option[T]) string {
			if a.IsDefined() && b.IsDefined() && in.wrong(a.Get(), b.Get()) {
				return in.blame(a.Get(), b.Get())
			}
			return site
		},
	}.withS(func() fp.Semigroup[fp.Option[T]] { return semigroup.Option(in.mkS()) })
}

var tryErrs = []error{errors.New("e1"), errors.New("e2"), errors.New("e3")}

// monoid.Try: lifts with failure absorbing.  Which of two errors survives is not part of the
// property: every failure renders as "Failure".
func mTryInst[T any](in inst[T]) inst[fp.Try[T]] {
	site := "monoid.Try"
	norm := func(t fp.Try[T]) string {
		if t.IsSuccess() {
			return "Success(" + in.norm(t.Get()) + ")"
		}
		return "Failure"
	}
	out := inst[fp.Try[T]]{name: site + "(" + in.name + ")", site: site, combs: merge(site, in.combs), assoc: in.assoc, orderShows: in.orderShows, cheap: in.cheap,
		gen: func(r *rand.Rand) fp.Try[T] {
			if r.IntN(4) == 0 {
				return fp.Failure[T](tryErrs[r.IntN(len(tryErrs))])
			}
			return fp.Success(in.gen(r))
		},
		norm: norm,
		refC: func(a, b fp.Try[T]) string {
			if a.IsSuccess() && b.IsSuccess() {
				return "Success(" + in.refC(a.Get(), b.Get()) + ")"
			}
			return "Failure"
		},
		refE: func() string { return "Success(" + in.refE() + ")" },
		blame: func(a, b fp.Try[T]) string {
			if a.IsSuccess() && b.IsSuccess() && in.wrong(a.Get(), b.Get()) {
				return in.blame(a.Get(), b.Get())
			}
			return site
		},
		blameE: func() string {
			if in.wrongE() {
				return in.blameE()
			}
			return site
		},
	}
	return out.withM(func() fp.Monoid[fp.Try[T]] { return monoid.Try(in.mkM()) })
}

// Dual flips the arguments.  pkg = "monoid" or "semigroup".
func dualInst[T any](pkg string, in inst[T]) inst[fp.Dual[T]] {
	site := pkg + ".Dual"
	out := inst[fp.Dual[T]]{name: site + "(" + in.name + ")", site: site, combs: merge(site, in.combs), assoc: in.assoc, orderShows: in.orderShows, cheap: in.cheap,
		gen:  func(r *rand.Rand) fp.Dual[T] { return fp.Dual[T]{GetDual: in.gen(r)} },
		norm: func(d fp.Dual[T]) string { return "Dual(" + in.norm(d.GetDual) + ")" },
		refC: func(a, b fp.Dual[T]) string { return "Dual(" + in.refC(b.GetDual, a.GetDual) + ")" },
		blame: func(a, b fp.Dual[T]) string {
			if in.wrong(b.GetDual, a.GetDual) {
				return in.blame(b.GetDual, a.GetDual)
			}
			return site
		},
	}
	if pkg == "monoid" {
		out = out.withM(func() fp.Monoid[fp.Dual[T]] { return monoid.Dual(in.mkM()) })
		out.refE = func() string { return "Dual(" + in.refE() + ")" }
		out.blameE = func() string {
			if in.wrongE() {
				return in.blameE()
			}
			return site
		}
	} else {
		out = out.withS(func() fp.Semigroup[fp.Dual[T]] { return semigroup.Dual(in.mkS()) })
	}
	return out
}

// Eval: combines the values of two suspended computations.
func evalInst[T any](pkg string, in inst[T]) inst[lazy.Eval[T]] {
	site := pkg + ".Eval"
	out := inst[lazy.Eval[T]]{name: site + "(" + in.name + ")", site: site, combs: merge(site, in.combs), assoc: in.assoc, orderShows: in.orderShows,
		gen: func(r *rand.Rand) lazy.Eval[T] {
			v := in.gen(r)
			switch r.IntN(3) {
			case 0:
				return lazy.Done(v)
			case 1:
				return lazy.Call(func() T { return v })
			}
			return lazy.TailCall(func() lazy.Eval[T] { return lazy.Done(v) })
		},
		norm: func(e lazy.Eval[T]) string { return "Eval(" + in.norm(e.Get()) + ")" },
		refC: func(a, b lazy.Eval[T]) string { return "Eval(" + in.refC(a.Get(), b.Get()) + ")" },
		blame: func(a, b lazy.Eval[T]) string {
			if in.wrong(a.Get(), b.Get()) {
				return in.blame(a.Get(), b.Get())
			}
			return site
		},
	}
	if pkg == "monoid" {
		out = out.withM(func() fp.Monoid[lazy.Eval[T]] { return monoid.Eval(in.mkM()) })
		out.refE = func() string { return "Eval(" + in.refE() + ")" }
		out.blameE = func() string {
			if in.wrongE() {
				return in.blameE()
			}
			return site
		}
	} else {
		out = out.withS(func() fp.Semigroup[lazy.Eval[T]] { return semigroup.Eval(in.mkS()) })
	}
	return out
}

// Ptr: nil is neutral, two non-nil pointers combine their targets into a new target.
func ptrInst[T any](pkg string, in inst[T]) inst[*T] {
	site := pkg + ".Ptr"
	norm := func(p *T) string {
		if p == nil {
			return "nil"
		}
		return "&" + in.norm(*p)
	}
	out := inst[*T]{name: site + "(" + in.name + ")", site: site, combs: merge(site, in.combs), assoc: in.assoc, orderShows: in.orderShows, cheap: in.cheap,
		gen: func(r *rand.Rand) *T {
			if r.IntN(4) == 0 {
				return nil
			}
			v := in.gen(r)
			return &v
		},
		norm: norm,
		refC: func(a, b *T) string {
			switch {
			case a != nil && b != nil:
				return "&" + in.refC(*a, *b)
			case a != nil:
				return norm(a)
			}
			return norm(b)
		},
		blame: func(a, b *T) string {
			if a != nil && b != nil && in.wrong(*a, *b) {
				return in.blame(*a, *b)
			}
			return site
		},
	}
	if pkg == "monoid" {
		out = out.withM(func() fp.Monoid[*T] { return monoid.Ptr(lazy.Done(in.mkM())) })
		out.refE = func() string { return "nil" }
		out.blameE = func() string { return site }
	} else {
		out = out.withS(func() fp.Semigroup[*T] { return semigroup.Ptr(lazy.Done(in.mkS())) })
	}
	return out
}

// IMap transports an instance along a bijection; here T <-> boxed[T].
type boxed[T any] struct{ V T }

func imapInst[T any](pkg string, in inst[T]) inst[boxed[T]] {
	site := pkg + ".IMap"
	box := func(v T) boxed[T] { return boxed[T]{v} }
	unbox := func(b boxed[T]) T { return b.V }
	out := inst[boxed[T]]{name: site + "(" + in.name + ")", site: site, combs: merge(site, in.combs), assoc: in.assoc, orderShows: in.orderShows, cheap: in.cheap,
		gen:  func(r *rand.Rand) boxed[T] { return box(in.gen(r)) },
		norm: func(b boxed[T]) string { return "Boxed(" + in.norm(b.V) + ")" },
		refC: func(a, b boxed[T]) string { return "Boxed(" + in.refC(a.V, b.V) + ")" },
		blame: func(a, b boxed[T]) string {
			if in.wrong(a.V, b.V) {
				return in.blame(a.V, b.V)
			}
			return site
		},
	}
	if pkg == "monoid" {
		out = out.withM(func() fp.Monoid[boxed[T]] { return monoid.IMap(in.mkM(), box, unbox) })
		out.refE = func() string { return "Boxed(" + in.refE() + ")" }
		out.blameE = func() string {
			if in.wrongE() {
				return in.blameE()
			}
			return site
		}
	} else {
		out = out.withS(func() fp.Semigroup[boxed[T]] { return semigroup.IMap(in.mkS(), box, unbox) })
	}
	return out
}

func hconsInst[H any, T hlist.HList](ih inst[H], it inst[T]) inst[hlist.Cons[H, T]] {
	site := "monoid.HCons"
	type C = hlist.Cons[H, T]
	out := inst[C]{name: site + "(" + ih.name + ", " + it.name + ")", site: site, combs: merge(site, ih.combs, it.combs), assoc: ih.assoc && it.assoc,
		orderShows: ih.orderShows || it.orderShows, cheap: ih.cheap && it.cheap,
		gen:  func(r *rand.Rand) C { return hlist.Concat(ih.gen(r), it.gen(r)) },
		norm: func(c C) string { return ih.norm(hlist.Head(c)) + " :: " + it.norm(hlist.Tail(c)) },
		refC: func(a, b C) string {
			return ih.refC(hlist.Head(a), hlist.Head(b)) + " :: " + it.refC(hlist.Tail(a), hlist.Tail(b))
		},
		refE: func() string { return ih.refE() + " :: " + it.refE() },
		blame: func(a, b C) string {
			if ih.wrong(hlist.Head(a), hlist.Head(b)) {
				return ih.blame(hlist.Head(a), hlist.Head(b))
			}
			if it.wrong(hlist.Tail(a), hlist.Tail(b)) {
				return it.blame(hlist.Tail(a), hlist.Tail(b))
			}
			return site
		},
		blameE: func() string {
			if ih.wrongE() {
				return ih.blameE()
			}
			if it.wrongE() {
				return it.blameE()
			}
			return site
		},
	}
	return out.withM(func() fp.Monoid[C] { return monoid.HCons(ih.mkM(), it.mkM()) })
}

// ---- the table ----------------------------------------------------------------------------

type local struct{ c map[string]int64 }

func (l *local) add(k string, n int64) { l.c[k] += n }

type entry struct {
	name  string
	site  string
	combs []string
	run   func(w *vrt.W, i int, r *rand.Rand, loc *local)
}

var (
	lawTable []*dyn  // every instance expression (law cases and history cases)
	seqTable []entry // lawful monoids used for Reduce / FoldMap
)

func addLaw[T any](in inst[T]) inst[T] {
	for _, d := range lawTable {
		if d.name == in.name {
			panic("instance expression registered twice: " + in.name)
		}
	}
	lawTable = append(lawTable, erase(in))
	return in
}

func addSeq[T any](in inst[T]) {
	if in.mo == nil || !in.assoc {
		panic("Reduce needs a lawful monoid: " + in.name)
	}
	width := erase(in).width
	seqTable = append(seqTable, entry{in.name, in.site, in.combs, func(w *vrt.W, i int, r *rand.Rand, loc *local) { seqCase(w, i, r, loc, in, width) }})
	foldTable = append(foldTable, entry{in.name, in.site, in.combs, func(w *vrt.W, i int, r *rand.Rand, loc *local) { foldCase(w, i, r, loc, in) }})
}

// foldTable: the same monoids, run as fold histories (folds.go)
var foldTable []entry

// the leaf instances referred to by the generated per-arity tables
var (
	iString     = strConcat("monoid.String", "monoid.String", constM(monoid.String))
	iSumInt     = intSum("monoid.Sum", monoid.Sum[int], "int")
	iSumInt8    = intSum("monoid.Sum", monoid.Sum[int8], "int8")
	iSumUint16  = intSum("monoid.Sum", monoid.Sum[uint16], "uint16")
	iSumString  = strConcat("monoid.Sum", "monoid.Sum[string]", monoid.Sum[string])
	iProdInt    = intProduct("monoid.Product", monoid.Product[int], "int")
	iProdInt8   = intProduct("monoid.Product", monoid.Product[int8], "int8")
	iProdUint32 = intProduct("monoid.Product", monoid.Product[uint32], "uint32")
	iAny        = boolInst("monoid.Any", monoid.Any, nil, func(a, b bool) bool { return a || b }, false)
	iAll        = boolInst("monoid.All", monoid.All, nil, func(a, b bool) bool { return a && b }, true)
	iUnit       = unitInst()
	iHNil       = hnilInst()
	iMergeSeq   = mergeSeqInst()
	iMergeSlice = mergeSliceInst()
	iMergeGoMap = mergeGoMapInst()
	iMergeMap   = mergeMapInst()
	iMergeSet   = mergeSetInst()
	iEndo       = endoInst("monoid.Endo", monoid.Endo[int], nil)
)

func semi[T any](site, name string, mk func() fp.Semigroup[T], like inst[T]) inst[T] {
	like.name, like.site, like.refE = name, site, nil
	return leaf(like.withS(mk))
}

func init() {
	// --- package monoid and fp: leaves
	for _, in := range []inst[string]{iString, iSumString, strConcat("fp.Sum", "fp.Sum[string]", fp.Sum[string]),
		strConcat("monoid.New", "monoid.New(zero, +)", func() fp.Monoid[string] {
			return monoid.New(func() string { return "" }, func(a, b string) string { return a + b })
		})} {
		addLaw(in)
	}
	addLaw(iSumInt)
	addLaw(iSumInt8)
	addLaw(iSumUint16)
	addLaw(intSum("monoid.Sum", monoid.Sum[int64], "int64"))
	addLaw(intSum("fp.Sum", fp.Sum[int], "int"))
	addLaw(intSum("fp.Sum", fp.Sum[uint8], "uint8"))
	addLaw(iProdInt)
	addLaw(iProdInt8)
	addLaw(iProdUint32)
	addLaw(intProduct("monoid.Product", monoid.Product[int64], "int64"))
	addLaw(intProduct("fp.Product", fp.Product[int], "int"))
	addLaw(intProduct("fp.Product", fp.Product[int16], "int16"))
	addLaw(floatInst("monoid.Sum", "monoid.Sum[float64]", monoid.Sum[float64], func(a, b float64) float64 { return a + b }, "0"))
	addLaw(floatInst("monoid.Product", "monoid.Product[float64]", monoid.Product[float64], func(a, b float64) float64 { return a * b }, "1"))
	addLaw(floatInst("fp.Sum", "fp.Sum[float64]", fp.Sum[float64], func(a, b float64) float64 { return a + b }, "0"))
	addLaw(floatInst("fp.Product", "fp.Product[float64]", fp.Product[float64], func(a, b float64) float64 { return a * b }, "1"))
	addLaw(iAny)
	addLaw(iAll)
	addLaw(iUnit)
	addLaw(iHNil)
	addLaw(iMergeSeq)
	addLaw(iMergeSlice)
	addLaw(iMergeGoMap)
	addLaw(iMergeMap)
	addLaw(iMergeSet)
	addLaw(iEndo)
	// maps / sets whose hasher has its own key equivalence (own violation keys, see foldMapInst)
	addLaw(foldMapInst())
	addLaw(foldSetInst())

	// --- package monoid: combinators, one level and nested
	addLaw(mOptionInst(iString))
	addLaw(mOptionInst(iSumInt8))
	addLaw(mOptionInst(iMergeSeq))
	addLaw(mOptionInst(mOptionInst(iAll)))
	addLaw(mTryInst(iString))
	addLaw(mTryInst(iProdInt))
	addLaw(mTryInst(mOptionInst(iMergeGoMap)))
	addLaw(dualInst("monoid", iString))
	addLaw(dualInst("monoid", iMergeSeq))
	addLaw(dualInst("monoid", iEndo))
	addLaw(dualInst("monoid", dualInst("monoid", iString)))
	addLaw(dualInst("monoid", iMergeGoMap))
	addLaw(evalInst("monoid", iString))
	addLaw(evalInst("monoid", iSumInt))
	addLaw(evalInst("monoid", mOptionInst(iMergeSlice)))
	addLaw(ptrInst("monoid", iString))
	addLaw(ptrInst("monoid", iProdInt8))
	addLaw(ptrInst("monoid", ptrInst("monoid", iMergeSeq)))
	addLaw(imapInst("monoid", iString))
	addLaw(imapInst("monoid", iSumUint16))
	addLaw(imapInst("monoid", dualInst("monoid", iMergeSlice)))
	addLaw(mOptionInst(dualInst("monoid", iString)))
	addLaw(mOptionInst(iEndo))
	addLaw(mOptionInst(iMergeMap))
	addLaw(mTryInst(iMergeSet))
	addLaw(hconsInst(iString, iHNil))
	addLaw(hconsInst(iSumInt, hconsInst(iString, iHNil)))
	addLaw(hconsInst(iAll, hconsInst(iMergeSeq, hconsInst(iProdInt8, hconsInst(iAny, iHNil)))))
	addLaw(hconsInst(mOptionInst(iString), hconsInst(dualInst("monoid", iString), hconsInst(iEndo, iHNil))))
	addLaw(mOptionInst(hconsInst(iString, hconsInst(iSumInt, iHNil))))
	addLaw(floatTuple())

	// --- every wrapper over every inner instance whose Empty() is nil or zero-like (nil Seq /
	// slice / pointer, zero-value fp.Map / fp.Set, empty Go map, "", false, Unit): a wrapper
	// that inspects the inner Empty (nil test, zero test) instead of just carrying it shows here
	iPtrString := ptrInst("monoid", iString)
	addLaw(mOptionInst(iMergeSlice))
	addLaw(mOptionInst(iMergeSet))
	addLaw(mOptionInst(iMergeGoMap))
	addLaw(mOptionInst(iPtrString))
	addLaw(mOptionInst(ptrInst("monoid", iMergeSeq)))
	addLaw(mOptionInst(iAny))
	addLaw(mOptionInst(iUnit))
	addLaw(mOptionInst(iSumInt))
	addLaw(mTryInst(iMergeSeq))
	addLaw(mTryInst(iMergeSlice))
	addLaw(mTryInst(iMergeMap))
	addLaw(mTryInst(iMergeGoMap))
	addLaw(mTryInst(iPtrString))
	addLaw(ptrInst("monoid", iMergeSeq))
	addLaw(ptrInst("monoid", iMergeSlice))
	addLaw(ptrInst("monoid", iMergeMap))
	addLaw(ptrInst("monoid", iMergeSet))
	addLaw(ptrInst("monoid", iMergeGoMap))
	addLaw(ptrInst("monoid", iPtrString))
	addLaw(evalInst("monoid", iMergeSeq))
	addLaw(evalInst("monoid", iMergeSlice))
	addLaw(evalInst("monoid", iMergeMap))
	addLaw(evalInst("monoid", iMergeSet))
	addLaw(evalInst("monoid", iMergeGoMap))
	addLaw(evalInst("monoid", iPtrString))
	addLaw(dualInst("monoid", iMergeSlice))
	addLaw(dualInst("monoid", iMergeMap))
	addLaw(dualInst("monoid", iMergeSet))
	addLaw(dualInst("monoid", iPtrString))
	addLaw(imapInst("monoid", iMergeSeq))
	addLaw(imapInst("monoid", iMergeSlice))
	addLaw(imapInst("monoid", iMergeMap))
	addLaw(imapInst("monoid", iMergeSet))
	addLaw(imapInst("monoid", iMergeGoMap))
	addLaw(imapInst("monoid", iPtrString))
	// ... and over inner instances whose Empty() is NOT the zero value (1, true): a wrapper that
	// puts a zero value where the inner Empty belongs shows here
	addLaw(dualInst("monoid", iProdInt))
	addLaw(evalInst("monoid", iAll))
	addLaw(imapInst("monoid", iProdInt8))
	// the semigroup wrappers over the same container instances (a Monoid is a Semigroup)
	addLaw(sOptionInst(iMergeSeq))
	addLaw(sOptionInst(iMergeMap))
	addLaw(ptrInst("semigroup", iMergeGoMap))
	addLaw(dualInst("semigroup", iMergeSeq))
	addLaw(evalInst("semigroup", iMergeSlice))
	addLaw(imapInst("semigroup", iMergeSet))

	// --- package semigroup
	addLaw(semi("semigroup.Sum", "semigroup.Sum[int]", semigroup.Sum[int], iSumInt))
	addLaw(semi("semigroup.Sum", "semigroup.Sum[int8]", semigroup.Sum[int8], iSumInt8))
	addLaw(semi("semigroup.Sum", "semigroup.Sum[string]", semigroup.Sum[string], iSumString))
	addLaw(semi("semigroup.Product", "semigroup.Product[int]", func() fp.Semigroup[int] { return semigroup.Product[int](0, 0) }, iProdInt))
	addLaw(semi("semigroup.Product", "semigroup.Product[int8]", func() fp.Semigroup[int8] { return semigroup.Product[int8](0, 0) }, iProdInt8))
	sgString := addLaw(semi("semigroup.New", "semigroup.New(+ on string)", func() fp.Semigroup[string] {
		return semigroup.New(func(a, b string) string { return a + b })
	}, iString))
	sgAny := addLaw(semi("semigroup.Any", "semigroup.Any", constS(semigroup.Any), iAny))
	sgAll := addLaw(semi("semigroup.All", "semigroup.All", constS(semigroup.All), iAll))
	sgEndo := addLaw(endoInst("semigroup.Endo", nil, semigroup.Endo[int]))
	sgSumInt := semi("semigroup.Sum", "semigroup.Sum[int]", semigroup.Sum[int], iSumInt)
	addLaw(dualInst("semigroup", sgString))
	addLaw(dualInst("semigroup", sgEndo))
	addLaw(evalInst("semigroup", sgString))
	addLaw(evalInst("semigroup", sgAll))
	addLaw(imapInst("semigroup", sgString))
	addLaw(imapInst("semigroup", sgSumInt))
	addLaw(ptrInst("semigroup", sgString))
	addLaw(ptrInst("semigroup", sgAny))
	addLaw(sOptionInst(sgString))
	addLaw(sOptionInst(sgSumInt))
	addLaw(sOptionInst(dualInst("semigroup", sgString)))
	addLaw(sOptionInst(sOptionInst(sgAll)))
	addLaw(floatSemi())

	// --- every tuple arity (generated)
	tupleInstances()

	// --- monoids for Reduce / FoldMap: lawful, most of them non-commutative
	addSeq(iString)
	addSeq(iMergeSeq)
	addSeq(iEndo)
	addSeq(iMergeGoMap)
	addSeq(iMergeSlice)
	addSeq(dualInst("monoid", iString))
	addSeq(mOptionInst(iString))
	addSeq(mTryInst(iMergeSeq))
	addSeq(tuple2Inst(iString, iSumInt))
	addSeq(tuple3Inst(iMergeSeq, iAll, dualInst("monoid", iString)))
	addSeq(hconsInst(iString, hconsInst(iProdInt, iHNil)))
	addSeq(evalInst("monoid", iString))
	addSeq(ptrInst("monoid", iString))
	addSeq(imapInst("monoid", iMergeSeq))
	addSeq(iSumInt)
	addSeq(iProdInt8)
	addSeq(iAll)
	addSeq(iAny)
	addSeq(iMergeMap)
	addSeq(iMergeSet)
	addSeq(iSumString)
	addSeq(dualInst("monoid", iMergeMap))
	addSeq(ptrInst("monoid", iMergeSlice))
}

func floatTuple() inst[fp.Tuple2[float64, string]] {
	return tuple2Inst(floatInst("monoid.Sum", "monoid.Sum[float64]", monoid.Sum[float64], func(a, b float64) float64 { return a + b }, "0"), iString)
}

func floatSemi() inst[float64] {
	f := floatInst("semigroup.Sum", "semigroup.Sum[float64]", monoid.Sum[float64], func(a, b float64) float64 { return a + b }, "0")
	f.refE = nil
	return f.withS(semigroup.Sum[float64])
}

// ---- main ---------------------------------------------------------------------------------

// requiredSites: every instance / combinator named by the property must be exercised.
func requiredSites() []string {
	out := []string{
		"monoid.String", "monoid.Sum", "monoid.Product", "monoid.Any", "monoid.All", "monoid.Option", "monoid.Try",
		"monoid.MergeSeq", "monoid.MergeSlice", "monoid.MergeMap", "monoid.MergeSet", "monoid.MergeGoMap", "monoid.Endo",
		"monoid.MergeMap(custom-Eqv hasher)", "monoid.MergeSet(custom-Eqv hasher)", "monoid.Dual", "monoid.Eval", "monoid.Ptr", "monoid.Unit", "monoid.HCons", "monoid.HNil", "monoid.IMap", "monoid.New",
		"fp.Sum", "fp.Product",
		"semigroup.New", "semigroup.Sum", "semigroup.Product", "semigroup.Endo", "semigroup.Dual", "semigroup.Eval",
		"semigroup.Any", "semigroup.All", "semigroup.IMap", "semigroup.Ptr", "semigroup.Option",
		"seq.Reduce", "iterator.Reduce", "list.Reduce", "seq.FoldMap", "list.FoldMap",
	}
	for n := 2; n <= 21; n++ {
		out = append(out, "monoid.Tuple"+strconv.Itoa(n))
	}
	return out
}

func main() {
	perBatch := func(tier string) int {
		if tier == "thorough" {
			return 16000
		}
		return 5000
	}
	// batch layout: [classic | fold histories (folds.go) | distinguishable failures (tryerr.go)];
	// the new families are appended so that the PRNG streams of the classic batches did not move
	layout := func(tier string) (classic, folds, tryerr, foldCases, tryCases int) {
		if tier == "thorough" {
			return 128, 32, 16, 500, 4000
		}
		return 32, 8, 4, 250, 2000
	}
	vrt.Main(vrt.Config{
		Property: "C11",
		Batches: func(tier string) int {
			c, f, t, _, _ := layout(tier)
			return c + f + t
		},
		Cases: func(tier string, b int) int {
			c, f, _, fc, tc := layout(tier)
			switch {
			case b < c:
				return perBatch(tier)
			case b < c+f:
				return fc
			}
			return tc
		},
		Run: func(w *vrt.W) {
			loc := &local{c: map[string]int64{}}
			pb := perBatch(w.Tier)
			classic, foldB, _, foldCases, tryCases := layout(w.Tier)
			for i := w.From; i < w.To; i++ {
				r := w.Rand(i)
				if w.Batch >= classic+foldB {
					g := (w.Batch-classic-foldB)*tryCases + i
					tryErrTable[g%len(tryErrTable)](w, i, r, loc)
					continue
				}
				if w.Batch >= classic {
					g := (w.Batch-classic)*foldCases + i
					foldTable[g%len(foldTable)].run(w, i, r, loc)
					continue
				}
				g := w.Batch*pb + i
				switch slot := g % 8; slot {
				case 7:
					e := seqTable[(g/8)%len(seqTable)]
					e.run(w, i, r, loc)
				case 3:
					histCase(w, i, r, loc, lawTable[(g/8)%len(lawTable)])
				default:
					if slot > 3 {
						slot--
					}
					lawCase(w, i, r, loc, lawTable[((g/8)*6+slot)%len(lawTable)])
				}
			}
			ks := make([]string, 0, len(loc.c))
			for k := range loc.c {
				ks = append(ks, k)
			}
			sort.Strings(ks)
			for _, k := range ks {
				w.Add(k, loc.c[k])
			}
			if gcBarrierTimeouts > 0 {
				w.Add("folds.barrier_timeouts", gcBarrierTimeouts)
			}
		},
		Rule: "Of every 8 cases 6 are law cases, 1 a history case, 1 a sequence case; instances are taken round-robin from a table of instance expressions (all leaves of package monoid/semigroup/fp at several widths, every combinator alone and nested, every wrapper Option/Try/Ptr/Eval/Dual/IMap over every container instance and over inner instances whose Empty is nil/zero-like and over some whose Empty is not the zero value, every Tuple arity 2..21 with three component patterns). Law case: a PRNG triple (a,b,c) (operands are the identity with probability 1/8 each, b=a with 1/10; integers include arbitrary bit patterns so overflow occurs; maps/sets draw keys from a 5..8 element universe so they overlap; Endo values are affine/constant/shift/permutation functions compared on 16 points; fp.Map/fp.Set compared by iterated content; nil ≡ empty); in 1 of 5 law cases every container-valued leaf (String, MergeSeq/Slice/GoMap/Map/Set, also inside wrappers/tuples/hlists) of the three operands is drawn with an exact size from the shapes tiny(1..5)/large/tiny, large/tiny/large, equal large, tiny/tiny/large, large/large/tiny, independent, large ∈ {15,16,17,31,32,33,63,64,65,100,128,129,257,1000} (bounded by 1300 entries per operand over all leaves), keys/elements of all three from one universe of 1.25×max so that a key of a small operand lies in a large one with p≈0.8, values drawn independently so that bias on shared keys shows. Checked: Combine(x,y) renders as the plain-Go reference of the named behaviour for the four pairs (a,b),(b,c),(ab,c),(a,bc), evaluated in one of three orders so that a result is also the left/right operand of the very next Combine; Combine(Combine(a,b),c) = Combine(a,Combine(b,c)) (not for float instances); Empty() as named; Combine(Empty,x)=x=Combine(x,Empty) for x in {a,c,Combine(a,b)}; the Empty() value used as operand and the next Empty() still render as named; arguments unchanged; all four results re-read after all later Combines. History case: the instance expression is built twice by new constructor calls (#0,#1) and the table's long-lived instance is #2; 3..6 inputs (1 in 3 cases with tiny/large sizes as above) and the Empty() of each instance are kept; 6..20 PRNG steps Combine kept values on a PRNG instance (mostly the previous one): latest result as left operand, as right operand, the previous left operand once more, a result with itself, a kept Empty() value on either side, two earlier results, any two kept values; results are kept as returned. Before a step the operands are re-rendered and must equal the reference rendering recorded when they were made, the expectation is the plain-Go reference on them, after the step the operands are re-rendered, at a PRNG midpoint and at the end every kept value is, and at the end every kept and a new Empty() of every instance must be a two-sided identity of a kept value. Sequence case: a PRNG sequence (length 0,1,2, 3..32, a boundary length from {15,16,17,31,32,33,63,64,65,100,127,128,129,255,256,257,1000}, 40..240, 300..1000, thorough 300..1800) over one of the lawful monoids of the table, most of them non-commutative; elements as drawn by the ordinary generators, or (1 in 4) 'growing': 1..4 entries each over a universe of 40..340 keys so that the accumulator grows through 16/32/64/128/256 entries, or (1 in 4, length ≤ 24) 'lopsided': tiny and large elements mixed; seq.Reduce, iterator.Reduce (FromSeq / Of / MakeIterator sources), list.Reduce (FromSeq / Of / cons-built lists), seq.FoldMap and list.FoldMap must render like the plain loop acc = Combine(acc, x) from Empty(), and the plain loop run again afterwards gives the same. distinct_nontrivial counts distinct fingerprints of (instance, a, b, c) with no operand equal to the identity and not a=b=c, plus (monoid, sequence) with ≥ 3 elements whose reversed fold differs from the fold (the order of combination shows in the result), plus (instance, inputs, script) of histories in which results were fed back both as left and as right operands. Appended batch families (the classic PRNG streams are unchanged): FOLD HISTORIES over the same monoids (length 0..1, 2..15 or a boundary length up to 100): one to three phases in PRNG order; a panic phase runs one fold (list.Reduce/FoldMap 5 in 8) over a PRNG source in which Combine, f or the instrumented element source (fp.MakeIterator, iter.Seq below iterator.Pull, list.Generate) panics at a PRNG call, recovered by the harness, and then immediately, same goroutine, no forced collection in between, 6..9 ordinary folds with the library's own instance: all five implementations and the plain Combine loop in PRNG order plus repeats, over the same and over a second short sequence; a source phase builds one PRNG source for each of the five implementations (half of the draws pull-based: iterator.Pull over slices.Values / an own iter.Seq / indices mapped by f, iterator.Pull(..).ToSeq(), seq.Collect, list.Collect over a pull iterator, list.Map over it; others FromSeq/Of/FromSlice/FromList/MakeIterator/Apply chains/list.Generate/sub-slices; Go-map backed FromMapKey/FromMapValue when the monoid is commutative or there is at most one element) plus 3..5 folds over Go-map backed sources of a 2..130 entry map[int]int (iterator.FromMap/FromMapKey/FromMapValue, fp.IteratorOfGoMap, mutable.MapOf(..).Keys(), mutable.SetOf(..).Iterator(), list.FromMap/FromMapKey/FromMapValue; Sum of keys/values or MergeGoMap of singleton maps, compared order-insensitively), THEN runs a collection barrier (two runtime.GC, each followed by waiting for a sentinel finalizer, runtime.Gosched), then consumes them one after the other, half of them with another barrier from inside Combine / f / the source at a PRNG call in the middle; every result must equal the plain left fold of the reference elements. DISTINGUISHABLE FAILURES: 9 instance expressions over monoid.Try(monoid.String) (Try, Dual(Try), Option(Try), IMap(Try), Dual(IMap(Try)), IMap(Dual(Try)), Dual(Dual(Try)), Dual(Option(Try)), Option(Dual(Try))), sequences of 0..65 elements in which one element in 2/3/5/12 is a failure carrying one of 2..5 error values of the case (distinct pointers, half of them with the same message, some comparable non-pointer values), None elements for the Option instances; Combine on neighbouring pairs, associativity on neighbouring triples, the plain Combine loop and the five Reduce/FoldMap implementations (PRNG slice / pull / list sources, handed the library's own instance value) are compared with a plain-Go model (None absorbs, else the left operand's failure, else the right one's, else concatenation; operands flipped under an odd number of Dual) with the surviving error compared by identity. distinct_nontrivial also counts fold histories of ≥ 2 elements with a recovered panic or a pull-based source consumed across a collection (fingerprint: monoid, elements, script) and failure sequences whose first and last failure carry different errors and contain no None.",
		Assumptions: []string{
			"floating-point Sum/Product are checked for named behaviour and identity only (associativity does not hold for floats and is not demanded)",
			"an instance is an object whose Combine/Empty are functions of the VALUES of their operands: results may alias operands (Combine(a,Empty) may return a itself) but no call may change what an operand, an earlier result or an Empty() value renders as; two instances of one expression are interchangeable, also within one history",
			"functions (Endo) are compared extensionally on a fixed 16-point domain",
			"fp.Map / fp.Set operands are built with hash.String / hash.Number, with a case-insensitive hasher (own instance entries, compared modulo that equivalence) or are the zero value; all operands of one triple use the same hasher",
			"monoid.Try in law, history and sequence cases: any failure counts as the absorbing element, which error survives is not compared there. The distinguishable-failure cases compare it: monoid.Try(m).Combine is try.Map2(a, b, m.Combine) and keeps the failure of its LEFT operand (a left fold: the first failure of the sequence), Dual flips that (last failure), Option's None absorbs on either side, IMap transports; surviving errors are compared by == (pointer identity for the harness's pointer-typed errors)",
			"a panic raised by a user callback (f, Combine, the element source) inside a fold and recovered by the caller is an ordinary event of a process: folds that run afterwards must still equal the plain left fold; the garbage collector may run (and finalizers may be run) between any two steps, also between building an iterator/list and consuming it and in the middle of a fold; a Go map is enumerated in arbitrary order, so sources backed by a map of more than one entry are only compared where the order cannot show (commutative monoid, sum of keys, union of singleton maps with distinct keys)",
			"monoid.Future is not covered here (future combinators are the subject of C06)",
			"Reduce/FoldMap are compared with the left fold only for lawful monoids (list.Reduce/FoldMap associate to the right, which is the same value exactly when the monoid is lawful)",
		},
		Floors: func(tier string) map[string]int64 {
			f := map[string]int64{"triples.nontrivial": 50000, "sequences.order_sensitive": 5000, "sequences.longer_than_300": 100, "sequences.empty": 50,
				"checks.associativity": 100000, "checks.identity": 100000, "triples.semigroup_only": 10000,
				// sizes
				"triples.sized": 10000, "triples.sized.small_left_large_right": 4000, "triples.sized.large_left_small_right": 4000, "triples.sized.equal_large": 2000,
				"triples.sized.operand_size.tiny": 10000, "triples.sized.operand_size.15-31": 5000, "triples.sized.operand_size.32-63": 4000, "triples.sized.operand_size.64-127": 4000,
				"triples.sized.operand_size.128-256": 2500, "triples.sized.operand_size.257": 400, "triples.sized.operand_size.1000": 150,
				"sequences.boundary_length": 2000, "sequences.elements_growing": 2500, "sequences.elements_lopsided": 1500, "sequences.refolded_afterwards": 5000,
				// result persistence and instance state
				"checks.result_reread": 300000, "checks.empty_after_use": 120000,
				"histories": 15000, "histories.nontrivial": 15000, "histories.steps": 150000, "histories.sized": 3000,
				"histories.result_as_left_operand": 100000, "histories.result_as_right_operand": 100000,
				"histories.latest_result_as_left_operand_of_same_instance": 50000, "histories.latest_result_as_right_operand_of_same_instance": 40000,
				"histories.result_combined_with_itself": 25000, "histories.kept_empty_as_operand": 30000, "histories.same_left_operand_twice_in_a_row": 15000,
				"histories.steps_on_second_instance": 60000, "histories.steps_on_table_instance": 30000, "histories.result_of_other_instance_as_operand": 60000,
				"histories.kept_values_reread": 1000000, "histories.identity_checks_after_use": 100000}
			for _, n := range boundaryLengths {
				f["sequences.boundary_length."+strconv.Itoa(n)] = 60
			}
			for _, s := range requiredSites() {
				f["hit."+s] = 500
			}
			for _, d := range lawTable {
				f["inst."+d.name] = 100
				f["histinst."+d.name] = 60
				if d.width > 0 {
					f["sizedinst."+d.name] = 50
				}
			}
			for _, e := range seqTable {
				f["seqinst."+e.name] = 100
			}
			if tier == "thorough" {
				for k := range f {
					f[k] *= 10
				}
			}
			// fold histories and distinguishable failures (appended batch families; thorough runs 8x the cases)
			g := map[string]int64{"foldcases": 1500, "foldcases.nontrivial": 1200, "foldcases.with_recovered_panic": 1000, "foldcases.with_sources_and_collections": 1000,
				"folds.recovered_panic": 1200, "folds.recovered_panic.in_Combine": 600, "folds.recovered_panic.in_f": 150, "folds.recovered_panic.in_source": 200,
				"folds.recovered_panic.list.Reduce": 250, "folds.recovered_panic.list.FoldMap": 300, "folds.after_panic": 8000,
				"folds.barrier_between_construction_and_consumption": 1000, "folds.barrier_in_the_middle_of_consumption": 3000,
				"folds.pull_based_source": 2500, "folds.over_sources": 5000, "folds.over_go_map_sources": 3000,
				"foldsrc.iterator.Reduce over iterator.Pull(slices.Values)": 100, "foldsrc.iterator.Reduce over iterator.Pull(iter.Seq)": 100,
				"foldsrc.iterator.Reduce over iterator.Map(iterator.Pull(indices))": 100, "foldsrc.list.Reduce over list.Collect(iterator.Pull)": 150,
				"foldsrc.list.FoldMap over list.Collect(iterator.Pull(indices))": 200, "foldsrc.seq.Reduce over iterator.Pull(..).ToSeq()": 200,
				"foldsrc.iterator.Reduce over mutable.MapOf(go map).Keys()": 200, "foldsrc.iterator.Reduce over mutable.SetOf(keys).Iterator()": 200,
				"foldsrc.iterator.Reduce over iterator.FromMapKey(go map)": 200, "foldsrc.iterator.Reduce over iterator.Map(iterator.FromMap(go map), singleton map)": 200,
				"foldsrc.list.FoldMap over list.FromMap(go map)": 200, "foldsrc.list.Reduce over list.FromMapKey(go map)": 200,
				"tryerr.cases": 6000, "tryerr.first_and_last_failure_differ": 1500, "tryerr.pairs_of_two_distinct_failures": 1500,
				"tryerr.sequences_with_two_distinguishable_failures": 2500, "tryerr.triples": 20000}
			for _, site := range implSite {
				g["folds.after_panic."+site] = 1000
				g["tryerr.folds."+site] = 6000
			}
			for _, e := range foldTable {
				g["foldinst."+e.name] = 50
			}
			for _, n := range tryErrNames {
				g["tryerrinst."+n] = 500
			}
			for k, v := range g {
				if tier == "thorough" {
					v *= 6
				}
				f[k] = v
			}
			return f
		},
		Finish: func(tier string, m *vrt.Merged, cov map[string]any) {
			cov["instance_expressions"] = len(lawTable)
			cov["reduce_monoids"] = len(seqTable)
			cov["fold_history_monoids"] = len(foldTable)
			cov["distinguishable_failure_instances"] = tryErrNames
			hit, hist, sized, sizedHit := 0, 0, 0, 0
			for _, d := range lawTable {
				if m.Counters["inst."+d.name] > 0 {
					hit++
				}
				if m.Counters["histinst."+d.name] > 0 {
					hist++
				}
				if d.width > 0 {
					sized++
					if m.Counters["sizedinst."+d.name] > 0 {
						sizedHit++
					}
				}
			}
			cov["instance_expressions_exercised"] = hit
			cov["instance_expressions_with_histories"] = hist
			cov["instance_expressions_with_container_leaves"] = sized
			cov["instance_expressions_with_sized_operands"] = sizedHit
		},
	})
}
