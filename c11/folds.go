// Fold histories: Reduce / FoldMap as calls in the life of a process.
//
// A fold case runs one to three phases over one PRNG sequence xs of a lawful monoid of the
// sequence table:
//
//   - panic phase: one fold whose Combine / f / element source panics at a PRNG position (the
//     harness recovers its own panic value), and then IMMEDIATELY, on the same goroutine and
//     without a forced collection in between, ordinary folds with the library's own instance:
//     all five Reduce/FoldMap implementations in PRNG order over xs and over a second short
//     sequence, plus the plain Combine loop.  They must equal the plain left fold
//     (key <site>/wrong-after-recovered-panic).
//   - source phase: the five implementations are fed from every iterator / list / seq
//     constructor, pull-based ones included (iterator.Pull over iter.Seq, Go-map backed ones for
//     commutative monoids or one element, list.Collect over a pull iterator, list.Generate …).
//     ALL sources are built first, then a collection barrier runs (two runtime.GC, finalizers
//     drained, runtime.Gosched), then they are consumed one after the other, with another barrier
//     from inside Combine / f / the source at a PRNG position in the middle of the consumption.
//     The result must equal the fold of the elements (key <site>/not-left-fold/<source>).
//     A non-generic side check folds Go-map backed sources of int keys the same way and compares
//     order-insensitively (sum of keys, union of singleton maps).
package main

import (
	"fmt"
	"iter"
	"math/rand/v2"
	"runtime"
	"slices"
	"sort"
	"strconv"
	"time"

	"verif/vrt"

	"github.com/csgura/fp"
	"github.com/csgura/fp/iterator"
	"github.com/csgura/fp/list"
	"github.com/csgura/fp/monoid"
	"github.com/csgura/fp/mutable"
	"github.com/csgura/fp/option"
	"github.com/csgura/fp/seq"
)

// ---- collection barrier ---------------------------------------------------------------------

type gcSentinel struct {
	p   *int
	pad [4]int
}

//go:noinline
func armSentinel(ch chan struct{}) {
	s := &gcSentinel{}
	s.p = &s.pad[0]
	runtime.SetFinalizer(s, func(*gcSentinel) { close(ch) })
}

var gcBarrierTimeouts int64

// gcBarrier runs two collections and waits after each until the finalizer goroutine has run a
// finalizer armed just before it: after the second wait every finalizer queued by the first
// collection has run.  The timeout only keeps a worker from hanging should the runtime ever
// not run the sentinel's finalizer; it is counted and has no part in any verdict.
func gcBarrier() {
	for k := 0; k < 2; k++ {
		ch := make(chan struct{})
		armSentinel(ch)
		runtime.GC()
		runtime.Gosched()
		select {
		case <-ch:
		case <-time.After(2 * time.Second):
			gcBarrierTimeouts++
		}
	}
	runtime.Gosched()
}

// ---- hooks ----------------------------------------------------------------------------------

type harnessPanic struct{}

type hookPoint struct{ n, panicAt, gcAt int }

type hooks struct {
	comb, f, src hookPoint
	gcs          int
}

func newHooks() *hooks {
	return &hooks{comb: hookPoint{0, -1, -1}, f: hookPoint{0, -1, -1}, src: hookPoint{0, -1, -1}}
}

func (h *hooks) hitComb() {
	if h != nil {
		h.hit(&h.comb)
	}
}

func (h *hooks) hitF() {
	if h != nil {
		h.hit(&h.f)
	}
}

func (h *hooks) hitSrc() {
	if h != nil {
		h.hit(&h.src)
	}
}

func (h *hooks) hit(p *hookPoint) {
	k := p.n
	p.n++
	if k == p.panicAt {
		panic(harnessPanic{})
	}
	if k == p.gcAt {
		gcBarrier()
		h.gcs++
	}
}

func (h *hooks) describe() string {
	if h == nil {
		return "no hooks"
	}
	s := ""
	for _, p := range []struct {
		name string
		hp   hookPoint
	}{{"Combine", h.comb}, {"f", h.f}, {"source", h.src}} {
		if p.hp.panicAt >= 0 {
			s += fmt.Sprintf(" panic in %s call #%d;", p.name, p.hp.panicAt)
		}
		if p.hp.gcAt >= 0 {
			s += fmt.Sprintf(" collection barrier in %s call #%d;", p.name, p.hp.gcAt)
		}
	}
	if s == "" {
		return "no hooks"
	}
	return s
}

type hookM[T any] struct {
	m fp.Monoid[T]
	h *hooks
}

func (x hookM[T]) Empty() T { return x.m.Empty() }
func (x hookM[T]) Combine(a, b T) T {
	x.h.hitComb()
	return x.m.Combine(a, b)
}

// recovered runs f and reports whether it ended in the harness's own panic value; any other
// panic goes on to w.Guard.
func recovered(f func()) (hp bool) {
	defer func() {
		if p := recover(); p != nil {
			if _, ok := p.(harnessPanic); ok {
				hp = true
				return
			}
			panic(p)
		}
	}()
	f()
	return false
}

// ---- sources --------------------------------------------------------------------------------

const (
	implSeqReduce = iota
	implIterReduce
	implListReduce
	implSeqFoldMap
	implListFoldMap
	implCount
)

var implSite = [implCount]string{"seq.Reduce", "iterator.Reduce", "list.Reduce", "seq.FoldMap", "list.FoldMap"}

// number of sources per implementation, and which of them are pull based / instrumented (the
// element source itself calls hooks.src)
var (
	implSources  = [implCount]int{4, 10, 8, 2, 5}
	pullSources  = [implCount][]int{{2, 3}, {3, 4, 7, 8, 9}, {3, 6, 7}, {1}, {1, 3}}
	instrSources = [implCount][]int{{}, {2, 4}, {5}, {}, {2}}
)

// commutative monoids of the sequence table: Go-map backed sources (arbitrary order) are used
// with them at any length, with all others for at most one element
var commutative = map[string]bool{"monoid.Sum[int]": true, "monoid.Product[int8]": true, "monoid.All": true, "monoid.Any": true, "monoid.MergeSet[int]": true}

func countingSeq[T any](xs []T, h *hooks, b *vrt.Budget) iter.Seq[T] {
	return func(yield func(T) bool) {
		for _, x := range xs {
			b.Tick()
			h.hitSrc()
			if !yield(x) {
				return
			}
		}
	}
}

func indices(n int) []int {
	idx := make([]int, n)
	for k := range idx {
		idx[k] = k
	}
	return idx
}

// prepFold builds source src of implementation impl over xs and returns the pending fold; m is
// the monoid handed to the library (the library's own instance, or hookM around it).
func prepFold[T any](impl, src int, xs []T, m fp.Monoid[T], h *hooks, b *vrt.Budget) (func() T, string) {
	n := len(xs)
	at := func(k int) T { b.Tick(); h.hitF(); return xs[k] }
	keyMap := func() map[int]struct{} {
		mk := make(map[int]struct{}, n)
		for k := range xs {
			mk[k] = struct{}{}
		}
		return mk
	}
	valMap := func() map[int]T {
		mv := make(map[int]T, n)
		for k, x := range xs {
			mv[k] = x
		}
		return mv
	}
	gen := func(k int) fp.Option[T] {
		b.Tick()
		h.hitSrc()
		if k < n {
			return option.Some(xs[k])
		}
		return option.None[T]()
	}
	genIdx := func(k int) fp.Option[int] {
		b.Tick()
		h.hitSrc()
		if k < n {
			return option.Some(k)
		}
		return option.None[int]()
	}
	switch impl {
	case implSeqReduce:
		switch src {
		case 0:
			return func() T { return seq.Reduce(fp.Seq[T](xs), m) }, "slice"
		case 1:
			big := make([]T, n+7)
			copy(big[3:], xs)
			sub := big[3 : 3+n]
			return func() T { return seq.Reduce(fp.Seq[T](sub), m) }, "sub-slice with spare capacity"
		case 2:
			it := iterator.Pull(slices.Values(xs))
			return func() T { return seq.Reduce(fp.Seq[T](it.ToSeq()), m) }, "iterator.Pull(..).ToSeq()"
		default:
			it := iterator.Pull(slices.Values(xs))
			return func() T { return seq.Reduce(seq.Collect(it), m) }, "seq.Collect(iterator.Pull)"
		}
	case implIterReduce:
		var it fp.Iterator[T]
		name := ""
		switch src {
		case 0:
			it, name = iterator.FromSeq(fp.Seq[T](xs)), "iterator.FromSeq"
		case 1:
			it, name = iterator.Of(xs...), "iterator.Of"
		case 2:
			pos := 0
			it, name = fp.MakeIterator(func() bool { b.Tick(); return pos < n }, func() T { b.Tick(); h.hitSrc(); pos++; return xs[pos-1] }), "fp.MakeIterator"
		case 3:
			it, name = iterator.Pull(slices.Values(xs)), "iterator.Pull(slices.Values)"
		case 4:
			it, name = iterator.Pull(countingSeq(xs, h, b)), "iterator.Pull(iter.Seq)"
		case 5:
			it, name = iterator.FromList(list.Of(xs...)), "iterator.FromList"
		case 6:
			it, name = iterator.FromSlice(xs), "iterator.FromSlice"
		case 7:
			it, name = iterator.Map(iterator.Pull(slices.Values(indices(n))), at), "iterator.Map(iterator.Pull(indices))"
		case 8:
			it, name = iterator.Map(iterator.FromMapKey(keyMap()), at), "iterator.Map(iterator.FromMapKey)"
		default:
			it, name = iterator.FromMapValue(valMap()), "iterator.FromMapValue"
		}
		return func() T { return iterator.Reduce(it, m) }, name
	case implListReduce:
		var l fp.List[T]
		name := ""
		switch src {
		case 0:
			l, name = list.FromSeq(fp.Seq[T](xs)), "list.FromSeq"
		case 1:
			l, name = list.Of(xs...), "list.Of"
		case 2:
			l, name = list.Empty[T](), "list.Apply chain"
			for k := n - 1; k >= 0; k-- {
				l = list.Apply(xs[k], l)
			}
		case 3:
			l, name = list.Collect(iterator.Pull(slices.Values(xs))), "list.Collect(iterator.Pull)"
		case 4:
			l, name = list.Collect(iterator.FromSeq(fp.Seq[T](xs))), "list.Collect(iterator.FromSeq)"
		case 5:
			l, name = list.Generate(gen), "list.Generate"
		case 6:
			l, name = list.Map(list.Collect(iterator.Pull(slices.Values(indices(n)))), at), "list.Map(list.Collect(iterator.Pull(indices)))"
		default:
			l, name = list.FromMapValue(valMap()), "list.FromMapValue"
		}
		return func() T { return list.Reduce(l, m) }, name
	case implSeqFoldMap:
		if src == 0 {
			idx := indices(n)
			return func() T { return seq.FoldMap(fp.Seq[int](idx), m, at) }, "slice"
		}
		it := iterator.Pull(slices.Values(indices(n)))
		return func() T { return seq.FoldMap(fp.Seq[int](it.ToSeq()), m, at) }, "iterator.Pull(indices).ToSeq()"
	default:
		var l fp.List[int]
		name := ""
		switch src {
		case 0:
			l, name = list.FromSeq(fp.Seq[int](indices(n))), "list.FromSeq"
		case 1:
			l, name = list.Collect(iterator.Pull(slices.Values(indices(n)))), "list.Collect(iterator.Pull(indices))"
		case 2:
			l, name = list.Generate(genIdx), "list.Generate"
		case 3:
			l, name = list.FromMapKey(keyMap()), "list.FromMapKey"
		default:
			l, name = list.Of(indices(n)...), "list.Of"
		}
		return func() T { return list.FoldMap(l, m, at) }, name
	}
}

// mapBacked: the source enumerates a Go map (arbitrary order)
func mapBacked(impl, src int) bool {
	switch impl {
	case implIterReduce:
		return src == 8 || src == 9
	case implListReduce:
		return src == 7
	case implListFoldMap:
		return src == 3
	}
	return false
}

// pickSource: half of the time a pull-based source, else any; map-backed ones only when the
// order of the elements cannot show.
func pickSource(r *rand.Rand, impl int, anyOrder bool, wantInstr bool) int {
	for {
		var s int
		switch {
		case wantInstr && len(instrSources[impl]) > 0:
			s = instrSources[impl][r.IntN(len(instrSources[impl]))]
		case r.IntN(2) == 0:
			s = pullSources[impl][r.IntN(len(pullSources[impl]))]
		default:
			s = r.IntN(implSources[impl])
		}
		if mapBacked(impl, s) && !anyOrder {
			continue
		}
		return s
	}
}

func isPull(impl, src int) bool { return slices.Contains(pullSources[impl], src) }

// ---- the case -------------------------------------------------------------------------------

var foldLengths = []int{2, 3, 4, 5, 7, 8, 9, 15, 16, 17, 31, 32, 33, 63, 64, 65, 100}

func foldCase[T any](w *vrt.W, i int, r *rand.Rand, loc *local, in inst[T]) {
	w.Begin(i, "Reduce")
	n := 0
	switch k := r.IntN(16); {
	case k == 0:
		n = r.IntN(2)
	case k < 10:
		n = 2 + r.IntN(14)
	default:
		n = foldLengths[r.IntN(len(foldLengths))]
	}
	if !in.cheap && n > 33 {
		n = 33
	}
	m := in.mo
	xs := make([]T, n)
	for k := range xs {
		xs[k] = in.gen(r)
		if r.IntN(16) == 0 {
			xs[k] = m.Empty()
		}
	}
	ys := make([]T, 1+r.IntN(4))
	for k := range ys {
		ys[k] = in.gen(r)
	}
	comm := commutative[in.name]
	norms := func(zs []T) []string {
		out := make([]string, 0, 12)
		for k, x := range zs {
			if k >= 12 {
				out = append(out, fmt.Sprintf("… %d more", len(zs)-12))
				break
			}
			out = append(out, short(in.norm(x)))
		}
		return out
	}
	var script []string
	witness := func() any {
		return map[string]any{"monoid": in.name, "length": n, "elements": norms(xs), "second_sequence": norms(ys), "script": script}
	}
	fold := func(zs []T) string {
		acc := m.Empty()
		for _, x := range zs {
			acc = m.Combine(acc, x)
		}
		return in.norm(acc)
	}
	budget := func(k int) *vrt.Budget {
		return vrt.NewBudget(int64(32*k+128), "source / callback calls of one fold over "+strconv.Itoa(k)+" elements")
	}
	var want, wantY string
	panicPhases, sourcePhases, pullFolds, midGC := 0, 0, 0, 0

	panicPhase := func() {
		panicPhases++
		// the fold that panics: list folds most of the time
		impl := []int{implListReduce, implListFoldMap, implListReduce, implListFoldMap, implIterReduce, implSeqReduce, implSeqFoldMap, implListFoldMap}[r.IntN(8)]
		origin := "Combine"
		switch r.IntN(3) {
		case 0:
			if impl == implSeqFoldMap || impl == implListFoldMap {
				origin = "f"
			}
		case 1:
			if len(instrSources[impl]) > 0 {
				origin = "source"
			}
		}
		src := pickSource(r, impl, comm || n <= 1, origin == "source")
		h := newHooks()
		pos := 0
		if n > 0 {
			pos = r.IntN(n)
		}
		switch origin {
		case "Combine":
			h.comb.panicAt = pos
		case "f":
			h.f.panicAt = pos
		default:
			h.src.panicAt = pos
		}
		name := ""
		w.Site(implSite[impl])
		hm := m // the library's own instance unless Combine itself is to panic
		if origin == "Combine" {
			hm = hookM[T]{m, h}
		}
		hp := recovered(func() {
			run, nm := prepFold(impl, src, xs, hm, h, budget(n))
			name = nm
			run()
		})
		panicDesc := fmt.Sprintf("%s over %s:%s panicked=%v", implSite[impl], name, h.describe(), hp)
		script = append(script, panicDesc)
		loc.add("folds.panic_runs", 1)
		if hp {
			loc.add("folds.recovered_panic", 1)
			loc.add("folds.recovered_panic.in_"+origin, 1)
			loc.add("folds.recovered_panic."+implSite[impl], 1)
		}
		// ... and immediately afterwards ordinary folds with the library's own instance
		order := r.Perm(implCount + 1)
		extra := r.IntN(4)
		for k := 0; k < len(order)+extra; k++ {
			impl2 := 0
			if k < len(order) {
				impl2 = order[k]
			} else {
				impl2 = []int{implListReduce, implListFoldMap, implIterReduce}[r.IntN(3)]
			}
			zs, wz := xs, want
			if r.IntN(2) == 0 {
				zs, wz = ys, wantY
			}
			site := in.site
			got := ""
			if impl2 == implCount {
				w.Site(in.site)
				got = fold(zs)
				script = append(script, "plain Combine loop")
			} else {
				site = implSite[impl2]
				w.Site(site)
				src2 := r.IntN(implSources[impl2])
				if mapBacked(impl2, src2) && !(comm || len(zs) <= 1) {
					src2 = 0
				}
				run, nm := prepFold(impl2, src2, zs, m, nil, budget(len(zs)))
				got = in.norm(run())
				script = append(script, site+" over "+nm)
				loc.add("folds.after_panic."+site, 1)
				loc.add("hit."+site, 1)
			}
			loc.add("folds.after_panic", 1)
			if got != wz {
				w.Violation(i, site+"/wrong-after-recovered-panic", fmt.Sprintf("%s with %s over %d elements = %s, plain left fold of Combine from Empty = %s\nelements %v\nit ran right after a fold whose callback panicked and was recovered by the caller: %s", site, in.name, len(zs), short(got), short(wz), norms(zs), panicDesc), witness())
			}
		}
	}

	sourcePhase := func() {
		sourcePhases++
		type pending struct {
			impl int
			name string
			h    *hooks
			run  func() T
		}
		var ps []pending
		for _, impl := range r.Perm(implCount) {
			src := pickSource(r, impl, comm || n <= 1, false)
			h := newHooks()
			if n > 0 && r.IntN(2) == 0 {
				pos := r.IntN(n)
				switch k := r.IntN(4); {
				case k == 0 && (impl == implSeqFoldMap || impl == implListFoldMap || (impl == implIterReduce && (src == 7 || src == 8)) || (impl == implListReduce && src == 6)):
					h.f.gcAt = pos
				case k == 1 && slices.Contains(instrSources[impl], src):
					h.src.gcAt = pos
				default:
					h.comb.gcAt = pos
				}
			}
			w.Site(implSite[impl])
			hm := m
			if h.comb.gcAt >= 0 {
				hm = hookM[T]{m, h}
			}
			run, name := prepFold(impl, src, xs, hm, h, budget(n))
			ps = append(ps, pending{impl, name, h, run})
			if isPull(impl, src) {
				pullFolds++
				loc.add("folds.pull_based_source", 1)
			}
			loc.add("foldsrc."+implSite[impl]+" over "+name, 1)
		}
		side := prepMapSide(w, i, r, loc, witness)
		script = append(script, "all sources built; collection barrier")
		gcBarrier()
		loc.add("folds.barrier_between_construction_and_consumption", 1)
		for _, p := range ps {
			site := implSite[p.impl]
			w.Site(site)
			got := in.norm(p.run())
			script = append(script, fmt.Sprintf("%s over %s:%s", site, p.name, p.h.describe()))
			loc.add("folds.over_sources", 1)
			loc.add("hit."+site, 1)
			if p.h.gcs > 0 {
				midGC++
				loc.add("folds.barrier_in_the_middle_of_consumption", 1)
			}
			if got != want {
				w.Violation(i, site+"/not-left-fold/"+p.name, fmt.Sprintf("%s over %d elements from %s with %s = %s, plain left fold of Combine from Empty = %s\nelements %v\nthe source was built, then two collections ran (finalizers drained), then it was consumed;%s", site, n, p.name, in.name, short(got), short(want), norms(xs), p.h.describe()), witness())
			}
		}
		side()
	}

	w.Guard(i, witness, func() {
		want, wantY = fold(xs), fold(ys)
		switch r.IntN(6) {
		case 0:
			panicPhase()
		case 1:
			sourcePhase()
		case 2:
			panicPhase()
			sourcePhase()
		case 3:
			sourcePhase()
			panicPhase()
		case 4:
			panicPhase()
			panicPhase()
			sourcePhase()
		default:
			panicPhase()
			sourcePhase()
			panicPhase()
		}
		// the plain fold is still what it was
		w.Site("Reduce")
		if g := fold(xs); g != want {
			w.Violation(i, "Reduce/plain-fold-not-repeatable", fmt.Sprintf("the plain left fold over the same %d elements with %s gave %s before and %s after the fold history", n, in.name, short(want), short(g)), witness())
		}
	})
	w.Done(i)
	loc.add("foldcases", 1)
	loc.add("foldinst."+in.name, 1)
	if panicPhases > 0 {
		loc.add("foldcases.with_recovered_panic", 1)
	}
	if sourcePhases > 0 {
		loc.add("foldcases.with_sources_and_collections", 1)
	}
	// non-trivial: at least two elements, and a callback panicked or a pull-based source was
	// consumed across a collection
	if n >= 2 && (panicPhases > 0 || pullFolds > 0) {
		loc.add("foldcases.nontrivial", 1)
		hs := "fold|" + in.name
		for _, x := range xs {
			hs += "|" + in.norm(x)
			if len(hs) > 2000 {
				break
			}
		}
		for _, s := range script {
			hs += "|" + s
		}
		w.DistinctHash(vrt.Hash64(hs))
		if w.WantSample() && n <= 6 && r.IntN(40) == 0 {
			w.Sample(witness())
		}
	}
}

// ---- Go-map backed sources of int keys (non-generic side check) ------------------------------

type sideFold struct {
	site, name string
	h          *hooks
	run        func() string
	want       string
}

func fmtIntMap(m map[int]int) string {
	ks := make([]int, 0, len(m))
	for k := range m {
		ks = append(ks, k)
	}
	sort.Ints(ks)
	s := ""
	for _, k := range ks {
		s += strconv.Itoa(k) + "=" + strconv.Itoa(m[k]) + " "
	}
	return s
}

// prepMapSide builds folds over sources that enumerate a Go map; the returned function
// consumes and checks them.  Sum of ints and the union of singleton maps with distinct keys do
// not depend on the order of enumeration.
func prepMapSide(w *vrt.W, i int, r *rand.Rand, loc *local, witness func() any) func() {
	n := 2 + r.IntN(12)
	if r.IntN(4) == 0 {
		n = []int{16, 17, 33, 64, 65, 130}[r.IntN(6)]
	}
	m := make(map[int]int, n)
	keys := make([]int, 0, n)
	sumK, sumV := 0, 0
	for len(m) < n {
		k, v := r.IntN(100000), 1+r.IntN(1000)
		if _, dup := m[k]; dup {
			continue
		}
		m[k] = v
		keys = append(keys, k)
		sumK += k
		sumV += v
	}
	wantMap := fmtIntMap(m)
	single := func(t fp.Tuple2[int, int]) map[int]int { return map[int]int{t.I1: t.I2} }
	second := func(t fp.Tuple2[int, int]) int { return t.I2 }
	mkH := func() *hooks {
		h := newHooks()
		if r.IntN(2) == 0 {
			h.comb.gcAt = r.IntN(n)
		}
		return h
	}
	sum := func(h *hooks) fp.Monoid[int] { return hookM[int]{monoid.Sum[int](), h} }
	union := func(h *hooks) fp.Monoid[map[int]int] { return hookM[map[int]int]{monoid.MergeGoMap[int, int](), h} }
	var fs []sideFold
	for _, k := range r.Perm(10)[:3+r.IntN(3)] {
		h := mkH()
		switch k {
		case 0:
			it := iterator.FromMap(m)
			fs = append(fs, sideFold{"iterator.Reduce", "iterator.Map(iterator.FromMap(go map), singleton map)", h, func() string { return fmtIntMap(iterator.Reduce(iterator.Map(it, single), union(h))) }, wantMap})
		case 1:
			it := iterator.FromMapKey(m)
			fs = append(fs, sideFold{"iterator.Reduce", "iterator.FromMapKey(go map)", h, func() string { return strconv.Itoa(iterator.Reduce(it, sum(h))) }, strconv.Itoa(sumK)})
		case 2:
			it := iterator.FromMapValue(m)
			fs = append(fs, sideFold{"iterator.Reduce", "iterator.FromMapValue(go map)", h, func() string { return strconv.Itoa(iterator.Reduce(it, sum(h))) }, strconv.Itoa(sumV)})
		case 3:
			it := mutable.MapOf(m).Keys()
			fs = append(fs, sideFold{"iterator.Reduce", "mutable.MapOf(go map).Keys()", h, func() string { return strconv.Itoa(iterator.Reduce(it, sum(h))) }, strconv.Itoa(sumK)})
		case 4:
			it := mutable.SetOf(keys...).Iterator()
			fs = append(fs, sideFold{"iterator.Reduce", "mutable.SetOf(keys).Iterator()", h, func() string { return strconv.Itoa(iterator.Reduce(it, sum(h))) }, strconv.Itoa(sumK)})
		case 5:
			it := fp.IteratorOfGoMap(m)
			fs = append(fs, sideFold{"iterator.Reduce", "iterator.Map(fp.IteratorOfGoMap, value)", h, func() string { return strconv.Itoa(iterator.Reduce(iterator.Map(it, second), sum(h))) }, strconv.Itoa(sumV)})
		case 6:
			l := list.FromMap(m)
			fs = append(fs, sideFold{"list.FoldMap", "list.FromMap(go map)", h, func() string { return fmtIntMap(list.FoldMap(l, union(h), single)) }, wantMap})
		case 7:
			l := list.FromMapKey(m)
			fs = append(fs, sideFold{"list.Reduce", "list.FromMapKey(go map)", h, func() string { return strconv.Itoa(list.Reduce(l, sum(h))) }, strconv.Itoa(sumK)})
		case 8:
			l := list.FromMapValue(m)
			fs = append(fs, sideFold{"list.Reduce", "list.FromMapValue(go map)", h, func() string { return strconv.Itoa(list.Reduce(l, sum(h))) }, strconv.Itoa(sumV)})
		default:
			it := iterator.FromMap(m)
			fs = append(fs, sideFold{"seq.FoldMap", "iterator.FromMap(go map).ToSeq()", h, func() string {
				return fmtIntMap(seq.FoldMap(fp.Seq[fp.Tuple2[int, int]](it.ToSeq()), union(h), single))
			}, wantMap})
		}
	}
	return func() {
		for _, f := range fs {
			w.Site(f.site)
			got := f.run()
			loc.add("folds.over_go_map_sources", 1)
			loc.add("foldsrc."+f.site+" over "+f.name, 1)
			loc.add("hit."+f.site, 1)
			if f.h.gcs > 0 {
				loc.add("folds.barrier_in_the_middle_of_consumption", 1)
			}
			if got != f.want {
				w.Violation(i, f.site+"/not-left-fold/"+f.name, fmt.Sprintf("%s over %s of a %d-entry Go map (compared order-insensitively) = %s, expected %s\nthe source was built, then two collections ran (finalizers drained), then it was consumed;%s", f.site, f.name, n, short(got), short(f.want), f.h.describe()), map[string]any{"case": witness(), "go_map_entries": n})
			}
		}
	}
}
