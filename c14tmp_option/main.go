// C14 — arity-indexed families compute their defining equation at every arity.
//
// The call sites live in the generated files zz_*.go (generator: ./gen, text/template; run
// `go run ./c14/gen` from /verif to regenerate — the check itself never generates). Every
// site is a generic function over type parameters A1..An; it is instantiated twice in
// zz_index*.go: with the pairwise distinct types T1..Tn ("must compile": every library
// member is instantiated at n distinct types, and the explicit instantiation of the
// observers forces each result position to have exactly the expected type) and with the
// single type S at every position, where only the position-tagged *values* tell the
// arguments apart (reordering / duplication / dropping become observable at run time).
// The expected result next to each call is written out by the generator (argument lists in
// source order); it never goes through an arity-indexed library function.
package main

import (
	"fmt"
	"sort"
	"strings"

	"verif/vrt"

	"github.com/csgura/fp"
)

// ---- value types ------------------------------------------------------------------------

// val is the constraint of every argument type: a string-kinded type (so that the harness
// can tag / read values) that also satisfies fp.Named (needed by the Labelled families).
type val interface {
	~string
	Name() string
}

// S is the common type of the "one type, position-distinct values" instantiation.
type S string

func (S) Name() string { return "S" }

// Res / Res2 are result types, distinct from every argument type.
type Res string
type Res2 string

// ---- per-case context -------------------------------------------------------------------

type compRec struct {
	k    int
	x, y string
	one  bool // unary observation (Hash / Clone): only x is meaningful
}

type cx struct {
	w       *vrt.W
	idx     int
	variant string
	v, u    [maxPos + 1]string // v[k]: value at position k; u[k]: second operand (eq/ord/hash/monoid)

	family, member string
	n              int

	calls    [][]string
	wantVec  []string
	haveWant bool
	comps    []compRec
	tasks    []func()
	checks   []string
	failed   bool
}

const maxPos = 22

var cur *cx // the case being executed (single goroutine); used by the future spawn hook

func (c *cx) enter(family, member string, n int) {
	c.family, c.member, c.n = family, member, n
	c.w.Hit(family)
	c.w.Add("pair."+member, 1)
	c.w.Add("sites."+c.variant, 1)
	if n >= 2 {
		c.w.Distinct(member)
	}
}

func (c *cx) witness() any {
	n := c.n
	if n < 1 {
		n = 1
	}
	if n > maxPos {
		n = maxPos
	}
	return map[string]any{"member": c.member, "instantiation": c.variant, "values": c.v[1 : n+1], "second_operand": c.u[1 : n+1]}
}

func (c *cx) fail(what, detail string) {
	c.failed = true
	c.w.Violation(c.idx, c.member+"/"+what, fmt.Sprintf("%s [%s instantiation]: %s", c.member, c.variant, detail), c.witness())
}

func (c *cx) note(s string) {
	if len(c.checks) < 12 {
		c.checks = append(c.checks, s)
	}
}

func fmtCall(args []string) string { return "f(" + strings.Join(args, "|") + ")" }

// call is the body of every recording function argument f: it records the argument vector
// it received and returns an injective rendering of it.
func (c *cx) call(args ...string) Res {
	c.calls = append(c.calls, append([]string(nil), args...))
	return Res(fmtCall(args))
}

// want declares the argument vector f must receive (written out by the generator in
// source order) and returns the rendering f produces for exactly that vector.
func (c *cx) want(args ...string) string {
	c.wantVec = append([]string(nil), args...)
	c.haveWant = true
	return fmtCall(args)
}

func sameVec(a, b []string) bool {
	if len(a) != len(b) {
		return false
	}
	for i := range a {
		if a[i] != b[i] {
			return false
		}
	}
	return true
}

// called checks the recorded calls of f: at least one, each with exactly the wanted vector.
func (c *cx) called() {
	if !c.haveWant {
		return
	}
	if len(c.calls) == 0 {
		c.fail("f-not-called", fmt.Sprintf("the function argument was never invoked; expected a call with %v", c.wantVec))
		return
	}
	for _, cl := range c.calls {
		if !sameVec(cl, c.wantVec) {
			c.fail("f-arguments", fmt.Sprintf("the function argument received %v, defining equation passes %v", cl, c.wantVec))
			return
		}
	}
}

// res compares the observed result with the expected one and then checks f's calls.
func (c *cx) res(got, want string) {
	c.note("result " + got)
	if got != want {
		c.fail("result", fmt.Sprintf("result %q, defining equation gives %q", got, want))
	}
	c.called()
}

func (c *cx) eqs(what, got, want string) {
	c.note(what + " " + got)
	if got != want {
		c.fail(what, fmt.Sprintf("%s = %q, defining equation gives %q", what, got, want))
	}
}

func (c *cx) eqb(what string, got, want bool) {
	c.note(fmt.Sprintf("%s %v", what, got))
	if got != want {
		c.fail(what, fmt.Sprintf("%s = %v, defining equation gives %v", what, got, want))
	}
}

func (c *cx) vec(what string, got []string, want ...string) {
	c.note(fmt.Sprintf("%s %v", what, got))
	if !sameVec(got, want) {
		c.fail(what, fmt.Sprintf("%s = %v, defining equation gives %v", what, got, want))
	}
}

// step is the body of the k-th function of a composition / merge.
func (c *cx) step(k int, x string) string { return fmt.Sprintf("f%d(%s)", k, x) }

// prev checks the value a Chain builder hands to the callback of step k (the previous argument).
func (c *cx) prev(k int, got, want string) {
	if got != want {
		c.fail("callback-head", fmt.Sprintf("callback of step %d received %q, the previous argument is %q", k, got, want))
	}
}

// ---- type-class component instances (record where each component value is routed) ------

func (c *cx) comp2(k int, x, y string) { c.comps = append(c.comps, compRec{k: k, x: x, y: y}) }
func (c *cx) comp1(k int, x string)    { c.comps = append(c.comps, compRec{k: k, x: x, one: true}) }

type recEq[A val] struct {
	c *cx
	k int
}

func (r recEq[A]) Eqv(x, y A) bool {
	r.c.comp2(r.k, string(x), string(y))
	return string(x) == string(y)
}

func recOrd[A val](c *cx, k int) fp.Ord[A] {
	return fp.LessFunc[A](func(x, y A) bool {
		c.comp2(k, string(x), string(y))
		return string(x) < string(y)
	})
}

type recHash[A val] struct {
	c *cx
	k int
}

func (r recHash[A]) Eqv(x, y A) bool {
	r.c.comp2(r.k, string(x), string(y))
	return string(x) == string(y)
}
func (r recHash[A]) Hash(x A) uint32 {
	r.c.comp1(r.k, string(x))
	return uint32(vrt.Hash64(fmt.Sprintf("%d#%s", r.k, string(x))))
}

type recMon[A val] struct {
	c *cx
	k int
}

func (r recMon[A]) Empty() A { return A(fmt.Sprintf("e%d", r.k)) }
func (r recMon[A]) Combine(x, y A) A {
	return A(fmt.Sprintf("c%d(%s,%s)", r.k, string(x), string(y)))
}

type recClone[A val] struct {
	c *cx
	k int
}

func (r recClone[A]) Clone(x A) A {
	r.c.comp1(r.k, string(x))
	return A(fmt.Sprintf("k%d(%s)", r.k, string(x)))
}

// expected component results, by position
func (c *cx) emp(k int) string { return fmt.Sprintf("e%d", k) }
func (c *cx) cmb(k int) string { return fmt.Sprintf("c%d(%s,%s)", k, c.v[k], c.u[k]) }
func (c *cx) cln(k int) string { return fmt.Sprintf("k%d(%s)", k, c.v[k]) }

// allEq / lexLess: the reference for Eq / Ord of an n-tuple, written as plain loops.
func allEq(a, b []string) bool {
	for i := range a {
		if a[i] != b[i] {
			return false
		}
	}
	return true
}

func lexLess(a, b []string) bool {
	for i := range a {
		if a[i] < b[i] {
			return true
		}
		if a[i] > b[i] {
			return false
		}
	}
	return false
}

func sign(i int) int {
	switch {
	case i < 0:
		return -1
	case i > 0:
		return 1
	}
	return 0
}

// routed checks every recorded component observation: instance k may only ever see the
// values of position k (of either operand).
func (c *cx) routed() {
	for _, r := range c.comps {
		okx := r.x == c.v[r.k] || r.x == c.u[r.k]
		oky := r.one || r.y == c.v[r.k] || r.y == c.u[r.k]
		if !okx || !oky {
			if r.one {
				c.fail("component-routing", fmt.Sprintf("the instance passed at position %d was applied to %q; position %d holds %q / %q", r.k, r.x, r.k, c.v[r.k], c.u[r.k]))
			} else {
				c.fail("component-routing", fmt.Sprintf("the instance passed at position %d was applied to (%q, %q); position %d holds %q / %q", r.k, r.x, r.y, r.k, c.v[r.k], c.u[r.k]))
			}
			return
		}
	}
}

// sawAll checks that every one of the n component instances was consulted (nothing dropped).
func (c *cx) sawAll(what string, n int) {
	seen := make([]bool, n+1)
	for _, r := range c.comps {
		if r.one && r.k >= 1 && r.k <= n {
			seen[r.k] = true
		}
	}
	for k := 1; k <= n; k++ {
		if !seen[k] {
			c.fail(what+"-drops-component", fmt.Sprintf("%s never consulted the instance of position %d", what, k))
			return
		}
	}
}

func (c *cx) resetComps() { c.comps = c.comps[:0] }

// ---- observers of the monads ------------------------------------------------------------

func optS(o fp.Option[Res]) string {
	if o.IsDefined() {
		return "Some(" + string(o.Get()) + ")"
	}
	return "None"
}

func tryS(t fp.Try[Res]) string {
	if t.IsSuccess() {
		return "Success(" + string(t.Get()) + ")"
	}
	return fmt.Sprintf("Failure(%v)", t.Failed().Get())
}

// drain runs every task the default executors handed to the spawn hook, in FIFO order, until
// none is left (tasks may schedule further tasks).
func (c *cx) drain() {
	b := vrt.NewBudget(1_000_000, "future tasks scheduled by one call")
	for len(c.tasks) > 0 {
		b.Tick()
		t := c.tasks[0]
		c.tasks = c.tasks[1:]
		t()
	}
}

func (c *cx) futS(f fp.Future[Res]) string {
	c.drain()
	if !f.IsCompleted() {
		return "NotCompleted"
	}
	return tryS(f.Value())
}

// ---- site table -------------------------------------------------------------------------

type site struct {
	family, member string
	n              int // number of argument positions
	distinct, same func(*cx)
}

var sites []site

func reg(family, member string, n int, distinct, same func(*cx)) {
	sites = append(sites, site{family, member, n, distinct, same})
}

const nBatches = 16

func batchSites(b int) []int {
	var out []int
	for i := range sites {
		if i%nBatches == b {
			out = append(out, i)
		}
	}
	return out
}

func assignments(tier string) int {
	if tier == "thorough" {
		return 256
	}
	return 16
}

func runCase(w *vrt.W, mine []int, i int) {
	J := assignments(w.Tier)
	st := &sites[mine[i/(2*J)]]
	variant := (i / J) % 2
	j := i % J
	r := w.Rand(i)
	c := &cx{w: w, idx: i, variant: "distinct-types"}
	if variant == 1 {
		c.variant = "same-type"
	}
	n := st.n
	if n < 1 {
		n = 1
	}
	// value assignment: position-tagged, so pairwise distinct by construction
	mode := 0
	p := 1 + r.IntN(n)
	if j > 0 {
		mode = r.IntN(5)
	}
	for k := 1; k <= maxPos; k++ {
		if j == 0 {
			c.v[k] = fmt.Sprintf("a%d", k)
		} else {
			c.v[k] = fmt.Sprintf("a%d_%04x", k, r.Uint32()&0xffff)
		}
		differ := false
		switch mode {
		case 1:
			differ = k == p
		case 2:
			differ = r.IntN(2) == 0
		case 3:
			differ = r.IntN(8) == 0
		case 4:
			differ = k >= p
		}
		c.u[k] = c.v[k]
		if differ {
			if r.IntN(2) == 0 {
				c.u[k] = c.v[k] + "+" // greater
			} else {
				c.u[k] = c.v[k][:len(c.v[k])-1] // a proper prefix: smaller
			}
		}
	}
	cur = c
	w.Begin(i, st.member)
	w.Guard(i, c.witness, func() {
		if variant == 0 {
			st.distinct(c)
		} else {
			st.same(c)
		}
	})
	w.Done(i)
	cur = nil
	if c.member != st.member {
		c.member = st.member
		c.fail("site-table", "the generated site registered itself under another name: harness defect")
	}
	if j == 0 && variant == 1 && w.WantSample() && st.n >= 3 && r.IntN(4) == 0 {
		w.Sample(map[string]any{"member": st.member, "positions": st.n, "instantiation": c.variant, "values": c.v[1 : st.n+1],
			"f_received": c.calls, "observed": c.checks})
	}
}

func familyNames() []string {
	seen := map[string]bool{}
	var out []string
	for _, s := range sites {
		if !seen[s.family] {
			seen[s.family] = true
			out = append(out, s.family)
		}
	}
	sort.Strings(out)
	return out
}

func nontrivialMembers() int {
	seen := map[string]bool{}
	for _, s := range sites {
		if s.n >= 2 {
			seen[s.member] = true
		}
	}
	return len(seen)
}

func main() {
	vrt.Main(vrt.Config{
		Property: "C14",
		Batches:  func(string) int { return nBatches },
		Cases: func(tier string, b int) int {
			return len(batchSites(b)) * 2 * assignments(tier)
		},
		Run: func(w *vrt.W) {
			fp.VerifSetSpawn(func(task func()) {
				if cur != nil {
					cur.tasks = append(cur.tasks, task)
				} else {
					task()
				}
			})
			mine := batchSites(w.Batch)
			for i := w.From; i < w.To; i++ {
				runCase(w, mine, i)
			}
		},
		Exhaustive: func(string) bool { return true },
		Rule: "index set = every generated call site, i.e. every (family, arity) member the library exports for the families of C14 (list: coverage.pairs_executed; the generator ./c14/gen enumerates the arity ranges genfp.MaxFunc / MaxProduct / MaxCompose give: 0/1/2..9 function families, 1/2..21 product families, 2..5 fp.Compose). case = (call site, instantiation, value assignment): instantiation is 'distinct-types' (A1..An := T1..Tn, pairwise distinct named types) or 'same-type' (every Ai := S); value assignment j=0 is the plain tagging a1..an, j>0 draws a PRNG suffix per position (values stay position-tagged, hence pairwise distinct) plus, for the Eq/Ord/Hash/Monoid families, a second operand that differs from the first at none / one / a random subset / a suffix of the positions. The expected value next to each call is written out by the generator; the function argument f records the argument vector it received (every call must carry exactly the wanted vector, at least one call). The arity dimension is enumerated completely (exhaustive refers to this finite index set, not to the values). distinct_nontrivial = number of distinct members with at least 2 argument positions whose call site ran (each site registers itself when it executes).",
		Assumptions: []string{
			"values are sampled (16 assignments per site and instantiation in quick, 256 in thorough); only the (family, arity) index set is exhaustive",
			"futures are observed after running every task the default executors scheduled (spawn hook fp.VerifSetSpawn, FIFO); inputs are already-completed futures",
			"hlist.Head/Tail/Concat/Empty, fp.Some/Success, future.Successful, Option/Try/Future accessors, fp.LessFunc and struct literals of fp.TupleN/LabelledN are trusted observers/constructors (none is arity-generated except the struct types themselves)",
			"Hash of a tuple is only required to consult every component instance with its own component and to agree with Eqv; the mixing formula is not fixed by the oracle",
			"by parametricity the distinct-types instantiation cannot reorder at run time; it is kept because it is the instantiation in which the generated library text must type-check position by position",
		},
		Floors: func(tier string) map[string]int64 {
			fl := map[string]int64{"distinct": int64(nontrivialMembers()), "sites.distinct-types": int64(len(sites)), "sites.same-type": int64(len(sites))}
			for _, f := range familyNames() {
				fl["hit."+f] = 1
			}
			return fl
		},
		Finish: func(tier string, m *vrt.Merged, cov map[string]any) {
			executed := map[string][]string{}
			nexec, ngen := 0, 0
			missing := []string{}
			seen := map[string]bool{}
			for _, s := range sites {
				if seen[s.member] {
					continue
				}
				seen[s.member] = true
				ngen++
				if m.Counters["pair."+s.member] > 0 {
					executed[s.family] = append(executed[s.family], fmt.Sprintf("%s/%d", s.member, s.n))
					nexec++
				} else {
					missing = append(missing, s.member)
				}
			}
			if cs, ok := cov["counters"].(map[string]int64); ok {
				for k := range cs {
					if strings.HasPrefix(k, "pair.") {
						delete(cs, k)
					}
				}
			}
			cov["pairs_executed"] = executed
			cov["pairs_executed_count"] = nexec
			cov["pairs_generated_count"] = ngen
			cov["call_sites_generated"] = len(sites)
			cov["pairs_missing"] = missing
			cov["families"] = familyNames()
			cov["assignments_per_site_and_instantiation"] = assignments(tier)
			if len(missing) > 0 {
				cov["exhaustive"] = false
			}
		},
	})
}
