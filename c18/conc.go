// Concurrent use of ONE Clone instance value.
//
// An instance is a value that many goroutines may hold (a package-level `var cloneX = …`, the
// instance inside a derived struct instance). A conc case takes one table expression — its
// instance was built once, when the table was initialised — and 4..32 goroutines that are
// released together by a barrier; each clones its OWN private values through that one instance,
// with PRNG runtime.Gosched() yields between the calls. Everything random (values, yields) is
// drawn from the case PRNG before the goroutines start. After the join:
//   - every clone equals the snapshot of its own original (the sequential reference, taken
//     single-threaded beforehand);
//   - no storage is reachable from two different clones, or from a clone and any original
//     (snap.SharedAmong over all of them);
//   - no call panicked.
// A failure is re-examined by a sequential control (the same values rebuilt from the same
// seeds, cloned one after the other by the same instance): clean control =>
// clone.<combinator>/concurrent-use-differs, otherwise the sequential key (…/not-equal,
// …/shared-storage, …/panic) is reported. Half of the conc batches run in the -race build: a
// DATA RACE with a frame inside csgura/fp is reported by vrt as race/<location>.
package main

import (
	"fmt"
	"math/rand/v2"
	"reflect"
	"runtime"
	"strings"
	"sync"

	"verif/c18/tbl"
	"verif/snap"
	"verif/vrt"
)

type concValue struct {
	orig  reflect.Value
	snapO string
	reach *snap.Reach
	clone reflect.Value
	done  bool
}

type concFinding struct {
	kind   string // "panic", "not-equal", "shared-storage"
	comb   string
	detail string
}

// concBuild draws the private values of every goroutine (deterministic in the seeds).
func concBuild(e *tbl.Expr, seeds [][2]uint64, per int) [][]concValue {
	out := make([][]concValue, len(seeds))
	for g, sd := range seeds {
		vg := newVgen(rand.New(rand.NewPCG(sd[0], sd[1])))
		vg.budget = 40
		out[g] = make([]concValue, per)
		for k := range out[g] {
			o := reflect.New(e.Typ).Elem()
			vg.fill(o)
			out[g][k] = concValue{orig: o, snapO: snap.Snapshot(o), reach: snap.Reachable(o)}
		}
	}
	return out
}

// concJudge inspects the clones after all goroutines are done.
func concJudge(e *tbl.Expr, vals [][]concValue, panics []string) *concFinding {
	for g, p := range panics {
		if p != "" {
			return &concFinding{"panic", e.Tree.Comb(), fmt.Sprintf("goroutine %d: Clone panicked: %s", g, p)}
		}
	}
	var reaches []*snap.Reach
	var names []string
	for g := range vals {
		for k := range vals[g] {
			v := &vals[g][k]
			if !v.done {
				continue
			}
			if sc := snap.Snapshot(v.clone); sc != v.snapO {
				p, _ := diffPath(v.orig, v.clone, "")
				return &concFinding{"not-equal", blameDiff(e, p), fmt.Sprintf("goroutine %d, value %d: the clone differs from its own original at path %q\norig  %s\nclone %s", g, k, p, trunc(v.snapO, 500), trunc(sc, 500))}
			}
			// what Snapshot(orig) says now is part of the reference too: the original is untouched
			if so := snap.Snapshot(v.orig); so != v.snapO {
				return &concFinding{"not-equal", e.Tree.Comb(), fmt.Sprintf("goroutine %d, value %d: the ORIGINAL changed while it was cloned\nbefore %s\nafter  %s", g, k, trunc(v.snapO, 500), trunc(so, 500))}
			}
			reaches = append(reaches, v.reach, snap.Reachable(v.clone))
			names = append(names, fmt.Sprintf("original %d of goroutine %d", k, g), fmt.Sprintf("clone %d of goroutine %d", k, g))
		}
	}
	// members 2v = original, 2v+1 = clone; originals are private by construction
	shared := snap.SharedAmong(reaches, func(i, j int) bool { return i%2 == 0 && j%2 == 0 })
	if len(shared) == 0 {
		return nil
	}
	s := shared[0]
	// the clone-side path names the node that had to allocate the shared piece
	path := s.PathB
	if s.J%2 == 0 {
		path = s.PathA
	}
	comb := e.Tree.Comb()
	if _, alloc := e.Tree.NodeAt(path); alloc != nil {
		comb = alloc.Comb()
	}
	ds := make([]string, len(shared))
	for k, x := range shared {
		ds[k] = fmt.Sprintf("%s %s reachable from %s at %s and from %s at %s", x.Kind, x.Type, names[x.I], x.PathA, names[x.J], x.PathB)
	}
	return &concFinding{"shared-storage", comb, strings.Join(ds, "; ")}
}

func runConcCase(w *vrt.W, i int, loc *local) {
	r := w.Rand(i)
	e := table[r.IntN(len(table))]
	G := 4 + r.IntN(29)
	per := 1 + r.IntN(4)
	if G*per > 64 {
		per = 64 / G
	}
	seeds := make([][2]uint64, G)
	for g := range seeds {
		seeds[g] = [2]uint64{r.Uint64(), r.Uint64()}
	}
	yields := make([][]bool, G)
	for g := range yields {
		yields[g] = make([]bool, per+1)
		for k := range yields[g] {
			yields[g][k] = r.IntN(2) == 0
		}
	}
	site := "clone." + e.Tree.Comb()
	w.Begin(i, site)
	witness := func() any {
		return map[string]any{"expr": e.Name, "type": e.Typ.String(), "goroutines": G, "values_per_goroutine": per,
			"note": "values are rebuilt from the case PRNG; the interleaving is the scheduler's"}
	}
	w.Guard(i, witness, func() {
		vals := concBuild(e, seeds, per)
		panics := make([]string, G)
		start := make(chan struct{})
		var wg sync.WaitGroup
		for g := 0; g < G; g++ {
			wg.Add(1)
			go func(g int) {
				defer wg.Done()
				defer func() {
					if p := recover(); p != nil {
						panics[g] = fmt.Sprint(p)
					}
				}()
				mine := vals[g]
				<-start
				for k := range mine {
					if yields[g][k] {
						runtime.Gosched()
					}
					mine[k].clone = e.Clone(mine[k].orig)
					mine[k].done = true
				}
				if yields[g][len(mine)] {
					runtime.Gosched()
				}
			}(g)
		}
		close(start)
		wg.Wait()
		loc.add("conc.clones", int64(G*per))
		f := concJudge(e, vals, panics)
		if f == nil {
			return
		}
		// sequential control: the same values, the same instance, one call after the other
		cvals := concBuild(e, seeds, per)
		cpanics := make([]string, G)
		for g := range cvals {
			func() {
				defer func() {
					if p := recover(); p != nil {
						cpanics[g] = fmt.Sprint(p)
					}
				}()
				for k := range cvals[g] {
					cvals[g][k].clone = e.Clone(cvals[g][k].orig)
					cvals[g][k].done = true
				}
			}()
		}
		if cf := concJudge(e, cvals, cpanics); cf != nil {
			if cf.kind == "shared-storage" {
				// a sequential defect: name the combinator the way the classic cases do
				for g := range cvals {
					for k := range cvals[g] {
						if v := &cvals[g][k]; v.done {
							if sh := snap.Shared(v.reach, snap.Reachable(v.clone)); len(sh) > 0 {
								cf.comb, _ = blameShared(e, sh)
							}
						}
					}
				}
			}
			w.Violation(i, "clone."+cf.comb+"/"+cf.kind, "(found by a conc case; the sequential control fails as well)\n"+cf.detail+"\nexpr "+e.Name, witness())
			return
		}
		w.Violation(i, "clone."+f.comb+"/concurrent-use-differs",
			fmt.Sprintf("%d goroutines cloned their own values through ONE instance value at the same time (%s):\n%s\nexpr %s\n(the same values cloned one after the other by the same instance are equal to their originals and share nothing)", G, f.kind, f.detail, e.Name), witness())
	})
	w.Done(i)
	loc.add("conc.cases", 1)
	loc.add("conc.goroutines", int64(G))
	w.Max("conc.max_goroutines", int64(G))
	if G >= 16 {
		loc.add("conc.cases_with_16_or_more_goroutines", 1)
	}
	for _, l := range e.Labels {
		loc.add("conc.hit."+l, 1)
	}
}

var _ = vrt.Hash64
