// Package tbl holds what the generated expression tables of C18 (packages c18/ex0..exN,
// written by c18/gen) need: the harness struct types the Generic instances are built over,
// the run-time image of an instance expression, and the registry the tables fill at init.
// The tables are split over several packages only so that the Go compiler builds them in
// parallel.
package tbl

import (
	"reflect"
	"sort"
	"strconv"
	"strings"

	"github.com/csgura/fp"
	"github.com/csgura/fp/hlist"
)

// ---- harness types used by the generated expressions -------------------------------------

type Point struct{ X, Y int }

type Box[T any] struct{ V T }

type Pair[A, B any] struct {
	A A
	B B
}

type Rec3[A, B, C any] struct {
	A A
	B B
	C C
}

// Bag is a named slice type (fp.GenericKindNewType: the representation is the old type).
type Bag[T any] []T

// Dict is a named map type (NewType; representation map[K]V): its key instance is a component
// like any other.
type Dict[K comparable, V any] map[K]V

// Arr2 is a named array type; the representation is the pair of its elements. With a
// comparable element type it is an array usable as a map key.
type Arr2[T any] [2]T

func DictGeneric[K comparable, V any]() fp.Generic[Dict[K, V], map[K]V] {
	return fp.Generic[Dict[K, V], map[K]V]{
		Type: "tbl.Dict", Kind: fp.GenericKindNewType,
		To:   func(d Dict[K, V]) map[K]V { return d },
		From: func(m map[K]V) Dict[K, V] { return m },
	}
}

func Arr2Generic[T any]() fp.Generic[Arr2[T], fp.Tuple2[T, T]] {
	return fp.Generic[Arr2[T], fp.Tuple2[T, T]]{
		Type: "tbl.Arr2", Kind: fp.GenericKindStruct,
		To:   func(a Arr2[T]) fp.Tuple2[T, T] { return fp.Tuple2[T, T]{I1: a[0], I2: a[1]} },
		From: func(t fp.Tuple2[T, T]) Arr2[T] { return Arr2[T]{t.I1, t.I2} },
	}
}

func BoxGeneric[T any]() fp.Generic[Box[T], hlist.Cons[T, hlist.Nil]] {
	return fp.Generic[Box[T], hlist.Cons[T, hlist.Nil]]{
		Type: "tbl.Box", Kind: fp.GenericKindStruct,
		To:   func(b Box[T]) hlist.Cons[T, hlist.Nil] { return hlist.Concat(b.V, hlist.Empty()) },
		From: func(h hlist.Cons[T, hlist.Nil]) Box[T] { return Box[T]{V: hlist.Head(h)} },
	}
}

func PairGeneric[A, B any]() fp.Generic[Pair[A, B], fp.Tuple2[A, B]] {
	return fp.Generic[Pair[A, B], fp.Tuple2[A, B]]{
		Type: "tbl.Pair", Kind: fp.GenericKindStruct,
		To:   func(p Pair[A, B]) fp.Tuple2[A, B] { return fp.Tuple2[A, B]{I1: p.A, I2: p.B} },
		From: func(t fp.Tuple2[A, B]) Pair[A, B] { return Pair[A, B]{A: t.I1, B: t.I2} },
	}
}

func Rec3Generic[A, B, C any]() fp.Generic[Rec3[A, B, C], hlist.Cons[A, hlist.Cons[B, hlist.Cons[C, hlist.Nil]]]] {
	type repr = hlist.Cons[A, hlist.Cons[B, hlist.Cons[C, hlist.Nil]]]
	return fp.Generic[Rec3[A, B, C], repr]{
		Type: "tbl.Rec3", Kind: fp.GenericKindStruct,
		To: func(r Rec3[A, B, C]) repr {
			return hlist.Concat(r.A, hlist.Concat(r.B, hlist.Concat(r.C, hlist.Empty())))
		},
		From: func(h repr) Rec3[A, B, C] {
			t1 := hlist.Tail(h)
			t2 := hlist.Tail(t1)
			return Rec3[A, B, C]{A: hlist.Head(h), B: hlist.Head(t1), C: hlist.Head(t2)}
		},
	}
}

func BagGeneric[T any]() fp.Generic[Bag[T], []T] {
	return fp.Generic[Bag[T], []T]{
		Type: "tbl.Bag", Kind: fp.GenericKindNewType,
		To:   func(b Bag[T]) []T { return b },
		From: func(s []T) Bag[T] { return s },
	}
}

// ---- expression table ----------------------------------------------------------------------

// Node is the run-time image of an instance expression (used for hit counters and for naming
// the combinator a violation is attributed to).
type Node struct {
	Label  string // Given:int, HNil, Ptr, Slice, Seq, GoMap, Option, Tuple7, HCons, Generic:Box …
	Kids   []*Node
	Parent *Node
}

// N builds a node (the generated tables call it).
func N(label string, kids ...*Node) *Node {
	n := &Node{Label: label, Kids: kids}
	for _, k := range kids {
		k.Parent = n
	}
	return n
}

// Comb is the name of the library combinator of the node: Given, HNil, Ptr, …, Tuple7, Generic.
func (n *Node) Comb() string {
	if i := strings.IndexByte(n.Label, ':'); i >= 0 {
		return n.Label[:i]
	}
	return n.Label
}

func (n *Node) IsLeaf() bool { c := n.Comb(); return c == "Given" || c == "HNil" }

// step follows one access-path token (syntax of snap.Region.Path) from the value cloned by n
// into the component cloned by the returned node.
func (n *Node) step(tok string) *Node {
	kid := func(m *Node, i int) *Node {
		if m != nil && i < len(m.Kids) {
			return m.Kids[i]
		}
		return n
	}
	switch c := n.Comb(); {
	case c == "Ptr":
		if tok == "*" {
			return kid(n, 0)
		}
	case c == "Slice" || c == "Seq":
		if strings.HasPrefix(tok, "[") && tok != "[]" {
			return kid(n, 0)
		}
	case c == "GoMap":
		if tok == "{key}" {
			return kid(n, 0)
		}
		if strings.HasPrefix(tok, "{") && tok != "{}" {
			return kid(n, 1)
		}
	case c == "Option":
		if tok == ".v" {
			return kid(n, 0)
		}
	case strings.HasPrefix(c, "Tuple"):
		if strings.HasPrefix(tok, ".I") {
			if k, err := strconv.Atoi(tok[2:]); err == nil {
				return kid(n, k-1)
			}
		}
	case c == "HCons":
		if tok == ".head" {
			return kid(n, 0)
		}
		if tok == ".tail" {
			return kid(n, 1)
		}
	case c == "Generic":
		repr := kid(n, 0)
		switch n.Label {
		case "Generic:Box":
			if tok == ".V" {
				return kid(repr, 0)
			}
		case "Generic:Pair":
			if tok == ".A" {
				return kid(repr, 0)
			}
			if tok == ".B" {
				return kid(repr, 1)
			}
		case "Generic:Rec3":
			switch tok {
			case ".A":
				return kid(repr, 0)
			case ".B":
				return kid(kid(repr, 1), 0)
			case ".C":
				return kid(kid(kid(repr, 1), 1), 0)
			}
		case "Generic:Bag":
			if strings.HasPrefix(tok, "[") && tok != "[]" {
				return kid(repr, 0)
			}
		case "Generic:Dict":
			if tok == "{key}" {
				return kid(repr, 0)
			}
			if strings.HasPrefix(tok, "{") && tok != "{}" {
				return kid(repr, 1)
			}
		case "Generic:Arr2":
			if tok == "[0]" {
				return kid(repr, 0)
			}
			if tok == "[1]" {
				return kid(repr, 1)
			}
		}
	}
	return n
}

// Tokens splits an access path (".I2[3]*", "{"k"}*[]", …) into its steps.
func Tokens(p string) []string {
	var out []string
	for i := 0; i < len(p); {
		j := i + 1
		switch p[i] {
		case '*':
		case '[':
			for j < len(p) && p[j-1] != ']' {
				j++
			}
		case '{':
			for j < len(p) && p[j-1] != '}' {
				j++
			}
		default: // ".name"
			for j < len(p) && p[j] != '.' && p[j] != '*' && p[j] != '[' && p[j] != '{' {
				j++
			}
		}
		out = append(out, p[i:j])
		i = j
	}
	return out
}

// NodeAt returns the node that clones the sub-value at the path, and the node that had to
// allocate the storage the path ends in ("*" target: the Ptr; "[]": the Slice/Seq; "{}": the
// GoMap), if the path ends in storage.
func (n *Node) NodeAt(path string) (at, alloc *Node) {
	cur := n
	for _, t := range Tokens(path) {
		switch t {
		case "*":
			alloc = cur
		case "[]", "{}":
			alloc = cur
			if (cur.Label == "Generic:Bag" || cur.Label == "Generic:Dict") && len(cur.Kids) > 0 {
				alloc = cur.Kids[0]
			}
		}
		cur = cur.step(t)
	}
	return cur, alloc
}

// Expr is one compiled-in instance expression.
type Expr struct {
	Name    string
	Depth   int // combinator nesting depth (Given = 0; an hlist counts as one product)
	Tree    *Node
	Typ     reflect.Type
	Clone   func(v reflect.Value) reflect.Value // v addressable, of type Typ; result addressable
	Labels  []string                            // distinct combinators in the expression
	Pairs   []string                            // distinct parent>child combinator pairs
	SubGens []string                            // Given:int … / Generic:Box … labels
	// MutPos: the component positions that hold a component needing a deep copy (one that
	// contains Ptr/Slice/Seq/GoMap), as "<combinator>.<index>" – GoMap.0 is the KEY instance,
	// HCons.0/.1 head/tail, Tuple7.3 the fourth component; the positions of the representation
	// of a Generic are named "Generic:Pair/Tuple2.0" ….
	MutPos []string
	// KeyInsts: the root combinators of the GoMap key instances that need a deep copy
	// ("Ptr", "Tuple2", "Option", "Generic", "HCons"), and the depths (number of combinators
	// above the map) at which such maps occur.
	KeyInsts  []string
	KeyDepths []int
}

func containsAlloc(n *Node) bool {
	switch n.Comb() {
	case "Ptr", "Slice", "Seq", "GoMap":
		return true
	}
	for _, k := range n.Kids {
		if containsAlloc(k) {
			return true
		}
	}
	return false
}

// Exprs is filled by the init functions of the generated packages.
var Exprs []*Expr

// Mk registers the instance inst of the expression called name.
func Mk[T any](name string, depth int, tree *Node, inst fp.Clone[T]) {
	e := &Expr{Name: name, Depth: depth, Tree: tree, Typ: reflect.TypeFor[T]()}
	e.Clone = func(v reflect.Value) reflect.Value {
		c := inst.Clone(*(v.Addr().Interface().(*T)))
		return reflect.ValueOf(&c).Elem()
	}
	ls, ps, sg, mp, ki := map[string]bool{}, map[string]bool{}, map[string]bool{}, map[string]bool{}, map[string]bool{}
	kd := map[int]bool{}
	var rec func(n *Node, d int)
	rec = func(n *Node, d int) {
		ls[n.Comb()] = true
		if n.Label != n.Comb() {
			sg[n.Label] = true
		}
		name := n.Comb()
		if n.Parent != nil && n.Parent.Comb() == "Generic" {
			name = n.Parent.Label + "/" + n.Comb()
		}
		for i, k := range n.Kids {
			ps[n.Comb()+">"+k.Comb()] = true
			if containsAlloc(k) {
				mp[name+"."+strconv.Itoa(i)] = true
				if n.Comb() == "GoMap" && i == 0 {
					ki[k.Comb()] = true
					kd[d] = true
				}
			}
			rec(k, d+1)
		}
	}
	rec(tree, 0)
	e.Labels, e.Pairs, e.SubGens, e.MutPos, e.KeyInsts = keys(ls), keys(ps), keys(sg), keys(mp), keys(ki)
	for d := range kd {
		e.KeyDepths = append(e.KeyDepths, d)
	}
	sort.Ints(e.KeyDepths)
	Exprs = append(Exprs, e)
}

func keys(m map[string]bool) []string {
	out := make([]string, 0, len(m))
	for k := range m {
		out = append(out, k)
	}
	sort.Strings(out)
	return out
}

// Sorted returns the table in a canonical order (by name), independent of package
// initialisation order.
func Sorted() []*Expr {
	out := append([]*Expr(nil), Exprs...)
	sort.Slice(out, func(i, j int) bool { return out[i].Name < out[j].Name })
	return out
}
