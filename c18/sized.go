// Sized cases: containers at the lengths around which implementations switch strategy.
//
// The classic cases build maps of 1..3 entries and slices of 1..4 elements. Here one container
// of the value — the first map / map with a storage-carrying key / []T / fp.Seq[T] that the
// depth-first value builder meets in the expression's type — gets exactly n elements, n from
// sizedLens, everything on the way to it non-nil so that it is reached; the elements are built
// like any other component (pointers, nested containers, aliasing), with a small budget each.
// The oracles are the unchanged three (snapshot equality, disjoint storage, scramble).
// NaN map keys are not generated: no key type of the table holds a float (a NaN key cannot be
// looked up or overwritten, so the scramble oracle could not model it).
package main

import (
	"math/rand/v2"
	"reflect"
	"strings"

	"verif/c18/tbl"
	"verif/vrt"
)

var sizedLens = []int{0, 1, 7, 8, 9, 15, 16, 17, 31, 32, 33, 63, 64, 65, 100, 128, 129, 257, 1000}

var sizedKinds = []string{"map", "map_with_storage_in_keys", "slice", "seq"}

func isSeqType(t reflect.Type) bool {
	return t.Kind() == reflect.Slice && t.PkgPath() == "github.com/csgura/fp" && strings.HasPrefix(t.Name(), "Seq[")
}

// hasStorage: values of the type hold pointers, slices or maps.
func hasStorage(t reflect.Type) bool {
	switch t.Kind() {
	case reflect.Pointer, reflect.Slice, reflect.Map:
		return true
	case reflect.Array:
		return hasStorage(t.Elem())
	case reflect.Struct:
		for i := 0; i < t.NumField(); i++ {
			if hasStorage(t.Field(i).Type) {
				return true
			}
		}
	}
	return false
}

func sizedMatch(kind string) func(reflect.Type) bool {
	switch kind {
	case "map":
		return func(t reflect.Type) bool { return t.Kind() == reflect.Map }
	case "map_with_storage_in_keys":
		return func(t reflect.Type) bool { return t.Kind() == reflect.Map && hasStorage(t.Key()) }
	case "slice":
		return func(t reflect.Type) bool { return t.Kind() == reflect.Slice && !isSeqType(t) }
	}
	return isSeqType
}

// typeContains: a value of type t can contain a container the predicate matches.
func typeContains(t reflect.Type, match func(reflect.Type) bool) bool {
	switch t.Kind() {
	case reflect.Slice, reflect.Map:
		if match(t) {
			return true
		}
		if t.Kind() == reflect.Map && typeContains(t.Key(), match) {
			return true
		}
		return typeContains(t.Elem(), match)
	case reflect.Pointer, reflect.Array:
		return typeContains(t.Elem(), match)
	case reflect.Struct:
		for i := 0; i < t.NumField(); i++ {
			if typeContains(t.Field(i).Type, match) {
				return true
			}
		}
	}
	return false
}

// sizedCands[kind] = the table expressions whose type contains such a container.
var sizedCands = func() map[string][]*tbl.Expr {
	out := map[string][]*tbl.Expr{}
	for _, k := range sizedKinds {
		m := sizedMatch(k)
		for _, e := range table {
			if typeContains(e.Typ, m) {
				out[k] = append(out[k], e)
			}
		}
	}
	return out
}()

func sizedPerBatch(tier string) int {
	if tier == "thorough" {
		return 4 * len(sizedKinds) * len(sizedLens) * 5
	}
	return len(sizedKinds) * len(sizedLens) * 10
}

func runSizedCase(w *vrt.W, i int, loc *local, sizedBatch int) {
	g := sizedBatch*sizedPerBatch(w.Tier) + i
	kind := sizedKinds[g%len(sizedKinds)]
	n := sizedLens[(g/len(sizedKinds))%len(sizedLens)]
	r := w.Rand(i)
	cands := sizedCands[kind]
	e := cands[r.IntN(len(cands))]
	vg := newVgen(r)
	vg.budget = 400
	vg.hint = &sizeHint{kind: kind, match: sizedMatch(kind), size: n}
	runValueCase(w, i, loc, e, vg)
	loc.add("sized.cases", 1)
}

var _ = rand.New
