// C18 — Clone instances produce equal copies that share no mutable storage.
//
// The table of instance expressions (exprs_gen.go, written by ./gen) is compiled in; a case
// is (expression, PRNG value).  Values are built reflectively with nil / empty cases and
// internal aliasing; the oracles are (1) snapshot equality with nil ≡ empty, (2) disjointness
// of the storage reachable from original and clone (snap.Reachable / snap.Shared) and (3) the
// behavioural one: scramble everything reachable from one, the other's snapshot must not move.
package main

import (
	"fmt"
	"math"
	"math/rand/v2"
	"reflect"
	"sort"
	"strconv"
	"strings"
	"sync"

	"verif/c18/tbl"
	"verif/snap"
	"verif/vrt"
)

// ---- value generation ---------------------------------------------------------------------

type vgen struct {
	r      *rand.Rand
	ptrs   map[reflect.Type][]reflect.Value // by pointer type
	slices map[reflect.Type][]reflect.Value // by element type (shared by []T, fp.Seq[T], Bag[T])
	maps   map[reflect.Type][]reflect.Value // by map type
	budget int
	// what was deliberately built
	aliasPtr, aliasSlice, aliasMap, subSlice, ptrIntoSlice int
	// sized cases: the first container (in depth-first order) that the hint matches gets
	// exactly hint.size elements / entries; until it is reached nothing on the way is nil or
	// empty, so that it IS reached
	hint *sizeHint
}

type sizeHint struct {
	kind  string
	match func(t reflect.Type) bool
	size  int
	used  bool
	got   int // elements / entries the container really has
}

// forcing: a sized container is still to come.
func (g *vgen) forcing() bool { return g.hint != nil && !g.hint.used }

// elemBudget bounds what hangs below ONE element of a sized container.
const elemBudget = 4

func (g *vgen) bigSlice(v reflect.Value) {
	t, h := v.Type(), g.hint
	h.used = true
	n := h.size
	cp := n
	if g.r.IntN(3) == 0 {
		cp += 1 + g.r.IntN(3)
	}
	s := reflect.MakeSlice(t, n, cp)
	saved := g.budget
	for i := 0; i < n; i++ {
		g.budget = elemBudget
		g.fill(s.Index(i))
	}
	g.budget = saved
	h.got = n
	v.Set(s)
	if n > 0 {
		g.slices[t.Elem()] = append(g.slices[t.Elem()], s)
	}
}

func (g *vgen) bigMap(v reflect.Value) {
	t, h := v.Type(), g.hint
	h.used = true
	n := h.size
	m := reflect.MakeMap(t)
	saved := g.budget
	for tries := 0; m.Len() < n && tries < 30*n+100; tries++ {
		g.budget = elemBudget
		k := reflect.New(t.Key()).Elem()
		g.fillKey(k)
		e := reflect.New(t.Elem()).Elem()
		g.fill(e)
		m.SetMapIndex(k, e)
	}
	g.budget = saved
	h.got = m.Len()
	v.Set(m)
	g.maps[t] = append(g.maps[t], m)
}

// fillKey is fill for the key of a sized map: integers are drawn from a range wide enough for
// a thousand distinct keys (fill's own range is -1000..1000).
func (g *vgen) fillKey(k reflect.Value) {
	switch k.Kind() {
	case reflect.Int, reflect.Int64:
		k.SetInt(int64(g.r.IntN(2_000_001) - 1_000_000))
	case reflect.String:
		k.SetString(g.str() + strconv.Itoa(g.r.IntN(100000)))
	default:
		g.fill(k)
	}
}

func newVgen(r *rand.Rand) *vgen {
	return &vgen{r: r, ptrs: map[reflect.Type][]reflect.Value{}, slices: map[reflect.Type][]reflect.Value{}, maps: map[reflect.Type][]reflect.Value{}, budget: 120}
}

var letters = "abcdefghijklmnopqrstuvwxyz0123456789"

func (g *vgen) str() string {
	n := g.r.IntN(6)
	b := make([]byte, n)
	for i := range b {
		b[i] = letters[g.r.IntN(len(letters))]
	}
	return string(b)
}

func isOption(t reflect.Type) bool {
	return t.Kind() == reflect.Struct && t.PkgPath() == "github.com/csgura/fp" && strings.HasPrefix(t.Name(), "Option[") &&
		t.NumField() == 2 && t.Field(0).Name == "present" && t.Field(0).Type.Kind() == reflect.Bool
}

// fill stores a random value into the settable, zero-valued location v.
func (g *vgen) fill(v reflect.Value) {
	r := g.r
	t := v.Type()
	switch v.Kind() {
	case reflect.Bool:
		v.SetBool(r.IntN(2) == 0)
	case reflect.Int, reflect.Int8, reflect.Int16, reflect.Int32, reflect.Int64:
		switch r.IntN(10) {
		case 0:
			v.SetInt(0)
		case 1:
			v.SetInt(math.MaxInt64) // truncated to the kind's width by SetInt
		default:
			v.SetInt(int64(r.IntN(2001) - 1000))
		}
	case reflect.Uint, reflect.Uint8, reflect.Uint16, reflect.Uint32, reflect.Uint64:
		v.SetUint(uint64(r.IntN(256)))
	case reflect.Float32, reflect.Float64:
		switch r.IntN(12) {
		case 0:
			v.SetFloat(math.NaN())
		case 1:
			v.SetFloat(math.Inf(-1))
		case 2:
			v.SetFloat(math.Copysign(0, -1))
		default:
			v.SetFloat(float64(r.IntN(2001)-1000) / 8)
		}
	case reflect.String:
		v.SetString(g.str())
	case reflect.Pointer:
		c := r.IntN(100)
		pool := g.ptrs[t]
		sl := g.slices[t.Elem()]
		if g.forcing() {
			c = 99 // a fresh target: the sized container may lie below
		}
		switch {
		case c < 12 || g.budget <= 0:
			return // nil
		case c < 34 && len(pool) > 0:
			v.Set(pool[r.IntN(len(pool))])
			g.aliasPtr++
			return
		case c < 44 && len(sl) > 0:
			s := sl[r.IntN(len(sl))]
			if s.Len() > 0 {
				pv := s.Index(r.IntN(s.Len())).Addr()
				v.Set(pv)
				g.ptrIntoSlice++
				g.ptrs[t] = append(g.ptrs[t], pv)
				return
			}
		}
		g.budget--
		p := reflect.New(t.Elem())
		g.fill(p.Elem())
		v.Set(p)
		g.ptrs[t] = append(g.ptrs[t], p)
	case reflect.Slice:
		c := r.IntN(100)
		pool := g.slices[t.Elem()]
		if g.forcing() {
			if g.hint.match(t) {
				g.bigSlice(v)
				return
			}
			c = 99
		}
		switch {
		case c < 9 || g.budget <= 0:
			return // nil
		case c < 15:
			v.Set(reflect.MakeSlice(t, 0, 0)) // empty, non-nil, no storage
			return
		case c < 20:
			v.Set(reflect.MakeSlice(t, 0, 1+r.IntN(3))) // empty with a backing array
			return
		case c < 34 && len(pool) > 0:
			v.Set(pool[r.IntN(len(pool))].Convert(t))
			g.aliasSlice++
			return
		case c < 44 && len(pool) > 0:
			s := pool[r.IntN(len(pool))]
			if s.Len() >= 2 {
				lo := r.IntN(s.Len() - 1)
				hi := lo + 1 + r.IntN(s.Len()-lo)
				v.Set(s.Slice(lo, hi).Convert(t))
				g.subSlice++
				return
			}
		}
		g.budget--
		n := 1 + r.IntN(4)
		cp := n
		if r.IntN(3) == 0 {
			cp += 1 + r.IntN(3)
		}
		s := reflect.MakeSlice(t, n, cp)
		for i := 0; i < n; i++ {
			g.fill(s.Index(i))
		}
		v.Set(s)
		g.slices[t.Elem()] = append(g.slices[t.Elem()], s)
	case reflect.Map:
		c := r.IntN(100)
		pool := g.maps[t]
		if g.forcing() {
			if g.hint.match(t) {
				g.bigMap(v)
				return
			}
			c = 99
		}
		switch {
		case c < 10 || g.budget <= 0:
			return // nil
		case c < 18:
			v.Set(reflect.MakeMap(t))
			return
		case c < 36 && len(pool) > 0:
			v.Set(pool[r.IntN(len(pool))])
			g.aliasMap++
			return
		}
		g.budget--
		m := reflect.MakeMap(t)
		n := 1 + r.IntN(3)
		for i := 0; i < n; i++ {
			k := reflect.New(t.Key()).Elem()
			g.fill(k)
			e := reflect.New(t.Elem()).Elem()
			g.fill(e)
			m.SetMapIndex(k, e)
		}
		v.Set(m)
		g.maps[t] = append(g.maps[t], m)
	case reflect.Array:
		for i := 0; i < v.Len(); i++ {
			g.fill(v.Index(i))
		}
	case reflect.Struct:
		if isOption(t) {
			if r.IntN(10) < 3 && !g.forcing() {
				return // None
			}
			snap.Field(v, 0).SetBool(true)
			g.fill(snap.Field(v, 1))
			return
		}
		for i := 0; i < v.NumField(); i++ {
			g.fill(snap.Field(v, i))
		}
	}
}

// ---- blame --------------------------------------------------------------------------------

var (
	probeOnce   sync.Once
	probeBroken map[string]bool
)

func allocates(c string) bool { return c == "Ptr" || c == "Slice" || c == "Seq" || c == "GoMap" }

func containsAlloc(n *tbl.Node) bool {
	if allocates(n.Comb()) {
		return true
	}
	for _, k := range n.Kids {
		if containsAlloc(k) {
			return true
		}
	}
	return false
}

func treeSize(n *tbl.Node) int {
	s := 1
	for _, k := range n.Kids {
		s += treeSize(k)
	}
	return s
}

// sharesOn reports whether expression e shares storage between original and clone on any of
// a few fixed pseudo-random values (a panic counts as broken).
func sharesOn(e *tbl.Expr) (broken bool) {
	defer func() {
		if recover() != nil {
			broken = true
		}
	}()
	for seed := uint64(1); seed <= 12; seed++ {
		vg := newVgen(rand.New(rand.NewPCG(seed, 18)))
		orig := reflect.New(e.Typ).Elem()
		vg.fill(orig)
		cl := e.Clone(orig)
		if len(snap.Shared(snap.Reachable(orig), snap.Reachable(cl))) > 0 {
			return true
		}
	}
	return false
}

// deepUse: the node has a component that needs a deep copy (its combinator is used "in
// depth"); otherwise only the node's own allocation matters.
func deepUse(n *tbl.Node) bool {
	for _, k := range n.Kids {
		if containsAlloc(k) {
			return true
		}
	}
	return false
}

// probes decides, once per worker and only after a violation was seen, which combinators
// are broken on their own, bottom-up over the expression table:
//  1. an allocator (Ptr, Slice, Seq, GoMap) is simple-broken if it shares storage over plain
//     values (Ptr(int), Slice(string), …);
//  2. a combinator X is deep-broken if a table expression rooted at X, all of whose
//     components need a deep copy, shares storage although everything below X in it has
//     already been found sound (allocators in simple use: step 1; combinators in deep use:
//     an earlier round of this step; X itself may recur).  A combinator whose probes are all
//     clean is sound.  Rounds are repeated until nothing changes.
func probes() map[string]bool {
	probeOnce.Do(func() {
		probeBroken = map[string]bool{}
		byRoot := map[string][]*tbl.Expr{}
		for _, e := range table {
			byRoot[e.Tree.Comb()] = append(byRoot[e.Tree.Comb()], e)
		}
		for _, es := range byRoot {
			sort.SliceStable(es, func(i, j int) bool { return treeSize(es[i].Tree) < treeSize(es[j].Tree) })
		}
		simpleBroken := map[string]bool{}
		for _, c := range []string{"Ptr", "Slice", "Seq", "GoMap"} {
			n := 0
			for _, e := range byRoot[c] {
				if deepUse(e.Tree) {
					continue
				}
				if n++; n > 6 {
					break
				}
				if sharesOn(e) {
					simpleBroken[c] = true
					break
				}
			}
		}
		deepOK, deepBroken := map[string]bool{}, map[string]bool{}
		var sound func(n *tbl.Node, root string) bool
		sound = func(n *tbl.Node, root string) bool {
			c := n.Comb()
			if deepUse(n) {
				if !deepOK[c] && c != root {
					return false
				}
			}
			if allocates(c) && simpleBroken[c] {
				return false
			}
			for _, k := range n.Kids {
				if !sound(k, root) {
					return false
				}
			}
			return true
		}
		order := append([]string{"Ptr", "Slice", "Seq", "GoMap", "Option", "HCons", "Generic"}, combinators[9:]...)
		for changed := true; changed; {
			changed = false
			for _, c := range order {
				if deepOK[c] || deepBroken[c] || simpleBroken[c] {
					continue
				}
				ran := 0
				for _, e := range byRoot[c] {
					all := len(e.Tree.Kids) > 0
					below := true
					for ki, k := range e.Tree.Kids {
						if !(c == "GoMap" && ki == 0) && !(c == "HCons" && k.Comb() == "HNil") {
							all = all && containsAlloc(k)
						}
						below = below && sound(k, c)
					}
					if !all || !below {
						continue
					}
					if ran++; ran > 200 {
						break
					}
					if sharesOn(e) {
						deepBroken[c] = true
						break
					}
				}
				if ran > 0 {
					changed = true
					if !deepBroken[c] {
						deepOK[c] = true
					}
				}
			}
		}
		for c := range simpleBroken {
			probeBroken[c] = true
		}
		for c := range deepBroken {
			probeBroken[c] = true
		}
	})
	return probeBroken
}

// blameShared names the combinator responsible for the shared storage: of all shared pieces
// the shallowest one in the clone is taken (what lies below shared storage is shared as a
// consequence); on the path from the root to the node that had to allocate it, the deepest
// combinator that is broken on its own (see probes) is blamed, else the allocator's parent
// (which did not apply it), else the allocator.
func blameShared(e *tbl.Expr, shared []snap.SharedItem) (string, snap.SharedItem) {
	best := shared[0]
	for _, s := range shared[1:] {
		if len(tbl.Tokens(s.PathB)) < len(tbl.Tokens(best.PathB)) {
			best = s
		}
	}
	_, alloc := e.Tree.NodeAt(best.PathB)
	if alloc == nil {
		return e.Tree.Comb(), best
	}
	broken := probes()
	for n := alloc; n != nil; n = n.Parent {
		if broken[n.Comb()] {
			return n.Comb(), best
		}
	}
	// storage behind a map key that no probe explains: the map did not apply its key instance
	toks := tbl.Tokens(best.PathB)
	for k := len(toks) - 1; k >= 0; k-- {
		if toks[k] != "{key}" {
			continue
		}
		if at, _ := e.Tree.NodeAt(strings.Join(toks[:k], "")); at != nil && (at.Comb() == "GoMap" || at.Label == "Generic:Dict") {
			return "GoMap", best
		}
	}
	if alloc.Parent != nil {
		return alloc.Parent.Comb(), best
	}
	return alloc.Comb(), best
}

func blameDiff(e *tbl.Expr, path string) string {
	at, _ := e.Tree.NodeAt(path)
	if at.IsLeaf() && at.Parent != nil {
		return at.Parent.Comb()
	}
	return at.Comb()
}

// diffPath finds the first place where the structures differ (nil ≡ empty).
func diffPath(a, b reflect.Value, path string) (string, bool) {
	if a.Kind() != b.Kind() {
		return path, true
	}
	switch a.Kind() {
	case reflect.Pointer:
		if a.IsNil() != b.IsNil() {
			return path, true
		}
		if a.IsNil() {
			return "", false
		}
		return diffPath(a.Elem(), b.Elem(), path+"*")
	case reflect.Slice:
		if a.Len() != b.Len() {
			return path, true
		}
		for i := 0; i < a.Len(); i++ {
			if p, d := diffPath(a.Index(i), b.Index(i), path+"["+strconv.Itoa(i)+"]"); d {
				return p, true
			}
		}
	case reflect.Array:
		a, b = snap.Addressable(a), snap.Addressable(b)
		for i := 0; i < a.Len(); i++ {
			if p, d := diffPath(a.Index(i), b.Index(i), path+"["+strconv.Itoa(i)+"]"); d {
				return p, true
			}
		}
	case reflect.Map:
		if a.Len() != b.Len() {
			return path, true
		}
		it := a.MapRange()
		for it.Next() {
			bv := b.MapIndex(it.Key())
			if !bv.IsValid() {
				return path, true
			}
			if p, d := diffPath(it.Value(), bv, path+"{v}"); d {
				return p, true
			}
		}
	case reflect.Struct:
		a, b = snap.Addressable(a), snap.Addressable(b)
		for i := 0; i < a.NumField(); i++ {
			if p, d := diffPath(snap.Field(a, i), snap.Field(b, i), path+"."+a.Type().Field(i).Name); d {
				return p, true
			}
		}
	default:
		if snap.Snapshot(a) != snap.Snapshot(b) {
			return path, true
		}
	}
	return "", false
}

// ---- a case -------------------------------------------------------------------------------

func trunc(s string, n int) string {
	if len(s) > n {
		return s[:n] + "…"
	}
	return s
}

type local struct{ c map[string]int64 }

func (l *local) add(k string, n int64) { l.c[k] += n }

func runCase(w *vrt.W, i int, loc *local, perBatch int) {
	g := w.Batch*perBatch + i
	e := table[g%len(table)]
	runValueCase(w, i, loc, e, newVgen(w.Rand(i)))
}

// runValueCase: one value of expression e, drawn by vg, through the three oracles.
func runValueCase(w *vrt.W, i int, loc *local, e *tbl.Expr, vg *vgen) {
	site := "clone." + e.Tree.Comb()
	w.Begin(i, site)
	orig := reflect.New(e.Typ).Elem()
	vg.fill(orig)
	if strings.HasPrefix(e.Name, "fork") {
		// an instance value that other table expressions were derived from / that was derived
		// from one (package exf): "fork<group>.<nn>/<role>@<level>:<expression>"
		loc.add("fork.values", 1)
		if a, c := strings.IndexByte(e.Name, '@'), strings.IndexByte(e.Name, ':'); a > 0 && c > a {
			loc.add("fork.values_of_an_instance_derived_in_"+e.Name[a+1:c]+"_steps", 1)
		}
	}
	if h := vg.hint; h != nil {
		switch {
		case !h.used:
			loc.add("sized.container_not_reached", 1)
		case h.got != h.size:
			loc.add("sized.inexact", 1) // key universe too small for that many entries
		default:
			loc.add("sized."+h.kind+"."+strconv.Itoa(h.size), 1)
			loc.add("sized.values", 1)
		}
	}
	snapO := snap.Snapshot(orig)
	reachO := snap.Reachable(orig)
	witness := func() any {
		return map[string]any{"expr": e.Name, "type": e.Typ.String(), "value": trunc(snapO, 1500),
			"aliasing": fmt.Sprintf("storage reached twice=%d overlapping regions=%d", reachO.Aliased, reachO.Overlaps)}
	}
	var cl reflect.Value
	ok := w.Guard(i, witness, func() { cl = e.Clone(orig) })
	if ok {
		failed := false
		// (1) structural equality
		if sc := snap.Snapshot(cl); sc != snapO {
			failed = true
			p, _ := diffPath(orig, cl, "")
			w.Violation(i, "clone."+blameDiff(e, p)+"/not-equal",
				fmt.Sprintf("clone differs from the original at path %q\nexpr  %s\norig  %s\nclone %s", p, e.Name, trunc(snapO, 600), trunc(sc, 600)), witness())
		}
		// (2) disjoint storage
		reachC := snap.Reachable(cl)
		loc.add("addresses_compared", int64(reachO.Count()+reachC.Count()))
		shared := snap.Shared(reachO, reachC)
		if len(shared) > 0 {
			failed = true
			ds := make([]string, len(shared))
			for k, s := range shared {
				ds[k] = s.String()
			}
			who, first := blameShared(e, shared)
			w.Violation(i, "clone."+who+"/shared-storage",
				fmt.Sprintf("original (a) and clone (b) share mutable storage; shallowest: %s\nall: %s\nexpr  %s\nvalue %s", first, strings.Join(ds, "; "), e.Name, trunc(snapO, 600)), witness())
		}
		// (3) behavioural: mutate everything reachable from the clone; the original must not
		// change; then the other way round
		if !failed {
			n, nk := snap.ScrambleKeys(cl)
			loc.add("scramble.locations_written", int64(n))
			loc.add("scramble.locations_written_behind_map_keys", int64(nk))
			if s2 := snap.Snapshot(orig); s2 != snapO {
				failed = true
				w.Violation(i, site+"/mutation-visible", fmt.Sprintf("overwriting what is reachable from the clone changed the original although no shared address was found\nexpr %s\nbefore %s\nafter  %s", e.Name, trunc(snapO, 600), trunc(s2, 600)), witness())
			}
			snapC := snap.Snapshot(cl)
			if n > 0 && snapC == snapO {
				w.Note("harness: Scramble wrote " + strconv.Itoa(n) + " locations of the clone but its snapshot did not change: " + e.Name)
				loc.add("scramble.ineffective", 1)
			}
			m, mk := snap.ScrambleKeys(orig)
			loc.add("scramble.locations_written", int64(m))
			loc.add("scramble.locations_written_behind_map_keys", int64(mk))
			if s3 := snap.Snapshot(cl); s3 != snapC && !failed {
				w.Violation(i, site+"/mutation-visible", fmt.Sprintf("overwriting what is reachable from the original changed the clone although no shared address was found\nexpr %s\nbefore %s\nafter  %s", e.Name, trunc(snapC, 600), trunc(s3, 600)), witness())
			}
			loc.add("scramble.rounds", 2)
		}
	}
	w.Done(i)

	// observations
	loc.add("values", 1)
	for _, l := range e.Labels {
		loc.add("hit."+l, 1)
	}
	for _, l := range e.SubGens {
		loc.add("sub."+l, 1)
	}
	for _, p := range e.Pairs {
		loc.add("pair."+p, 1)
	}
	for _, p := range e.MutPos {
		loc.add("mutpos."+p, 1)
	}
	for _, k := range e.KeyInsts {
		loc.add("keyinst."+k, 1)
	}
	for _, d := range e.KeyDepths {
		if d > 4 {
			d = 4
		}
		loc.add("keyinst_depth."+strconv.Itoa(d), 1)
	}
	if reachO.KeyStorage > 0 {
		loc.add("values.with_storage_behind_map_keys", 1)
		loc.add("key_storage_pieces", int64(reachO.KeyStorage))
	}
	loc.add("expr_depth."+strconv.Itoa(e.Depth), 1)
	d := reachO.Depth
	if d > 6 {
		d = 6
	}
	loc.add("value_indirection."+strconv.Itoa(d), 1)
	w.Max("max_indirection", int64(reachO.Depth))
	w.Max("max_storage_pieces", int64(reachO.Count()))
	flag := func(name string, n int) {
		if n > 0 {
			loc.add("values."+name, 1)
		}
	}
	flag("with_nil_ptr", reachO.NilPtr)
	flag("with_nil_slice", reachO.NilSlice)
	flag("with_empty_slice", reachO.EmptySlice)
	flag("with_nil_map", reachO.NilMap)
	flag("with_empty_map", reachO.EmptyMap)
	flag("with_zero_sized_target", reachO.ZeroSized)
	flag("aliased_same_storage_twice", reachO.Aliased)
	flag("aliased_overlapping_regions", reachO.Overlaps)
	flag("aliased", reachO.Aliased+reachO.Overlaps)
	flag("built.alias_ptr", vg.aliasPtr)
	flag("built.alias_slice", vg.aliasSlice)
	flag("built.alias_map", vg.aliasMap)
	flag("built.sub_slice", vg.subSlice)
	flag("built.ptr_into_slice", vg.ptrIntoSlice)
	if reachO.Depth >= 2 {
		loc.add("values.indirection_ge2", 1)
		w.DistinctHash(vrt.Hash64(e.Name + "|" + snapO))
		if w.WantSample() && reachO.Aliased > 0 && len(snapO) < 400 {
			w.Sample(witness())
		}
	}
}

var table = tbl.Sorted()

var combinators = func() []string {
	out := []string{"Given", "HNil", "Ptr", "Slice", "Seq", "GoMap", "Option", "HCons", "Generic"}
	for n := 2; n <= 21; n++ {
		out = append(out, "Tuple"+strconv.Itoa(n))
	}
	return out
}()

// mutablePositions lists every component position of the expression grammar, written out
// independently of the table: the floors demand that each was exercised with a component
// that needs a deep copy.
func mutablePositions() []string {
	out := []string{"Ptr.0", "Slice.0", "Seq.0", "Option.0", "GoMap.0", "GoMap.1", "HCons.0", "HCons.1",
		"Generic:Box/HCons.0", "Generic:Pair/Tuple2.0", "Generic:Pair/Tuple2.1", "Generic:Rec3/HCons.0", "Generic:Rec3/HCons.1",
		"Generic:Bag/Slice.0", "Generic:Dict/GoMap.0", "Generic:Dict/GoMap.1", "Generic:Arr2/Tuple2.0", "Generic:Arr2/Tuple2.1", "Generic.0"}
	for n := 2; n <= 21; n++ {
		for i := 0; i < n; i++ {
			out = append(out, "Tuple"+strconv.Itoa(n)+"."+strconv.Itoa(i))
		}
	}
	return out
}

func main() {
	perBatch := func(tier string) int {
		if tier == "thorough" {
			return 40000
		}
		return 8000
	}
	// batch layout: [classic | sized | conc (first half in the -race build)]; new families are
	// appended so that the PRNG streams of the classic batches stay where they were
	classic := func(tier string) int {
		if tier == "thorough" {
			return 256
		}
		return 32
	}
	sized := func(tier string) int {
		if tier == "thorough" {
			return 16
		}
		return 4
	}
	conc := func(tier string) int {
		if tier == "thorough" {
			return 8
		}
		return 4
	}
	vrt.Main(vrt.Config{
		Property:    "C18",
		WorkerProcs: 8,
		Batches:     func(tier string) int { return classic(tier) + sized(tier) + conc(tier) },
		Cases: func(tier string, b int) int {
			switch {
			case b < classic(tier):
				return perBatch(tier)
			case b < classic(tier)+sized(tier):
				return sizedPerBatch(tier)
			}
			if tier == "thorough" {
				return 400
			}
			return 150
		},
		RaceBatch: func(tier string, b int) bool {
			c := b - classic(tier) - sized(tier)
			return c >= 0 && c < conc(tier)/2
		},
		Run: func(w *vrt.W) {
			loc := &local{c: map[string]int64{}}
			pb := perBatch(w.Tier)
			for i := w.From; i < w.To; i++ {
				switch b := w.Batch - classic(w.Tier); {
				case b < 0:
					runCase(w, i, loc, pb)
				case b < sized(w.Tier):
					runSizedCase(w, i, loc, b)
				default:
					runConcCase(w, i, loc)
				}
			}
			ks := make([]string, 0, len(loc.c))
			for k := range loc.c {
				ks = append(ks, k)
			}
			sort.Strings(ks)
			for _, k := range ks {
				w.Add(k, loc.c[k])
			}
			w.Add("expressions_in_table", 0)
		},
		Rule: "case = (instance expression, value). The expressions are a compiled-in table (c18/exprs_gen.go, written by c18/gen): all leaves, every combinator directly over every combinator, all triples of Ptr/Slice/Seq/GoMap/Option, every Tuple arity 2..21 with a mutable component in every position (also under Ptr and in a Slice), hlists of length 1..8, Generic over struct/newtype/array/named-map representations with every field position mutable, GoMap KEY instances that must deep-copy (pointer keys incl. pointer to struct / pointer to pointer, pointers nested in Tuple2/Tuple3/Option/hlist keys, struct and array keys through Generic) at map depths 0..4, as map values and below every other combinator, and PRNG expressions of combinator depth ≤ 5 (a third of their maps with such a key instance); case g uses expression g mod table size, so every expression gets the same number of values. The value is built reflectively from the case PRNG: nil / empty (with and without backing array) / short slices and maps, nil pointers, None, NaN/-0, and internal aliasing (the same pointer, slice or map used twice, overlapping sub-slices of one array, pointers into a slice's array). Oracles: snapshot equality with nil ≡ empty; no overlap between the memory ranges of pointer targets / slice arrays (cap>0) and no common Go map reachable from original and clone (zero-sized targets are skipped); overwriting every location reachable from the clone — including the pointer targets behind map keys — leaves the original's snapshot unchanged and vice versa. Map keys are walked like every other component (path token {key}); mutpos.<combinator>.<i> counts the values of expressions in which component position i holds something that needs a deep copy (GoMap.0 = the key instance), with a floor for every position of the grammar. distinct_nontrivial counts distinct (expression, value snapshot) pairs whose value really has ≥ 2 levels of indirection (pointer hops / descents into non-empty slices or maps on one path), measured by the walker on the generated value. The table also holds 120 expressions of package exf in which ONE sub-instance value is handed to several combinators (chains of 1..9 successive derivations over six bases, three more derivations of every chain member, the same value twice in one product): they are used like every other expression, in every batch. Two more batch families follow the classic ones. SIZED batches: the first map / map whose key type holds storage / []T / fp.Seq that the depth-first value builder meets in the expression's type gets exactly 0,1,7,8,9,15,16,17,31,32,33,63,64,65,100,128,129,257,1000 elements (nothing on the way to it is nil or empty, every element is built like any other component with a budget of four allocations; expression drawn by the PRNG among those whose type contains such a container); same three oracles. CONC batches (half of them in the -race build, DATA RACEs with a frame inside csgura/fp are violations race/<location>): 4..32 goroutines released together clone their own private values (drawn beforehand from the case PRNG) through ONE table instance, with PRNG runtime.Gosched() yields; afterwards every clone must equal the snapshot of its own original, no original may have changed, and no storage may be reachable from two different clones or from a clone and any original; a failure that the sequential control (same values, same instance) does not show is keyed clone.<combinator>/concurrent-use-differs.",
		Assumptions: []string{
			"Given is only used on value types (no pointers, slices or maps inside): it is the identity by design",
			"instance expressions are a fixed compiled-in sample of the expression language (Go cannot instantiate generics at run time); the tiers differ in the number of values per expression",
			"string data is immutable and is not counted as shared storage; zero-sized pointer targets have no storage",
			"the fp.Generic To/From functions supplied by the harness are plain field copies",
			"NaN map keys are not generated (no key type of the table holds a float): a NaN key can be neither looked up nor overwritten, so the reference could not model it",
			"a Clone instance is a value that may be used by any number of goroutines at once, each on its own values (instances are package-level variables in derived code)",
			"a map key cannot be overwritten in place: the behavioural oracle writes through the pointers inside keys and leaves the key values themselves alone; two distinct pointer keys with equal targets are two entries on both sides (snapshot entries are sorted by rendered key, then value)",
		},
		Floors: func(tier string) map[string]int64 {
			f := map[string]int64{
				"values.indirection_ge2": 50000, "values.aliased": 10000, "values.with_nil_ptr": 5000, "values.with_nil_slice": 5000,
				"values.with_empty_slice": 5000, "values.with_nil_map": 5000, "values.with_empty_map": 5000, "values.with_zero_sized_target": 1000,
				"values.built.alias_ptr": 2000, "values.built.alias_slice": 2000, "values.built.alias_map": 2000, "values.built.sub_slice": 2000,
				"values.built.ptr_into_slice": 1000, "addresses_compared": 500000, "scramble.rounds": 250000, "distinct": 50000,
				"expr_depth.5": 5000, "expr_depth.4": 5000, "value_indirection.4": 1000, "value_indirection.5": 500,
				// map keys as storage: values whose maps really hold pointer targets behind their keys,
				// locations the scramble oracle wrote through key pointers, key instances by root
				// combinator and by the depth of the map in the expression
				"values.with_storage_behind_map_keys": 20000, "key_storage_pieces": 40000, "scramble.locations_written_behind_map_keys": 40000,
				"keyinst.Ptr": 5000, "keyinst.Tuple2": 3000, "keyinst.Tuple3": 400, "keyinst.Option": 2000, "keyinst.Generic": 3000, "keyinst.HCons": 1000,
				"keyinst_depth.0": 5000, "keyinst_depth.1": 5000, "keyinst_depth.2": 3000, "keyinst_depth.3": 1000, "keyinst_depth.4": 400,
			}
			for _, c := range combinators {
				f["hit."+c] = 400
			}
			// every component position of every combinator is exercised with a component that needs
			// a deep copy (GoMap.0 = the key instance, HCons.0/.1 = head/tail, …)
			for _, p := range mutablePositions() {
				f["mutpos."+p] = 200
			}
			if tier == "thorough" {
				for k := range f {
					f[k] *= 10
				}
			}
			// sized containers: every kind at every length (exactly that many elements / entries)
			for _, k := range sizedKinds {
				for _, n := range sizedLens {
					f["sized."+k+"."+strconv.Itoa(n)] = 5
				}
			}
			// instance values shared by several table expressions (package exf), 0..10 derivations deep
			f["fork.values"] = 15000
			for k := 0; k <= 10; k++ {
				f["fork.values_of_an_instance_derived_in_"+strconv.Itoa(k)+"_steps"] = 200
			}
			// one instance value used by many goroutines at once
			f["conc.cases"] = 500
			f["conc.clones"] = 10000
			f["conc.cases_with_16_or_more_goroutines"] = 150
			for _, c := range []string{"Ptr", "Slice", "Seq", "GoMap", "Option", "HCons", "Generic", "Tuple2", "Tuple3"} {
				f["conc.hit."+c] = 20
			}
			return f
		},
		Finish: func(tier string, m *vrt.Merged, cov map[string]any) {
			cov["expressions_in_table"] = len(table)
			cov["sized_container_lengths"] = sizedLens
			sc := map[string]int{}
			for k, es := range sizedCands {
				sc[k] = len(es)
			}
			cov["expressions_with_a_container_of_kind"] = sc
			if cs, ok := cov["counters"].(map[string]int64); ok {
				least := map[string]int64{}
				for _, k := range sizedKinds {
					least[k] = -1
					for _, n := range sizedLens {
						key := "sized." + k + "." + strconv.Itoa(n)
						if v := m.Counters[key]; least[k] < 0 || v < least[k] {
							least[k] = v
						}
						delete(cs, key) // 76 counters: summarised
					}
				}
				cov["sized_values_per_length_at_least"] = least
			}
			byDepth := map[string]int{}
			for _, e := range table {
				byDepth[strconv.Itoa(e.Depth)]++
			}
			cov["expressions_by_depth"] = byDepth
			pairs := 0
			for k := range m.Counters {
				if strings.HasPrefix(k, "pair.") {
					pairs++
				}
			}
			cov["parent_child_combinator_pairs_observed"] = pairs
			// component positions exercised with a component that needs a deep copy: summary instead
			// of one counter per tuple position
			want := mutablePositions()
			missing := []string{}
			minName, minVal := "", int64(-1)
			for _, p := range want {
				v := m.Counters["mutpos."+p]
				if v == 0 {
					missing = append(missing, p)
				}
				if minVal < 0 || v < minVal {
					minName, minVal = p, v
				}
			}
			if cs, ok := cov["counters"].(map[string]int64); ok {
				for k := range cs {
					if strings.HasPrefix(k, "mutpos.Tuple") {
						delete(cs, k) // 230 tuple positions: summarised below
					}
				}
			}
			withKeys := 0
			for _, e := range table {
				if len(e.KeyInsts) > 0 {
					withKeys++
				}
			}
			cov["expressions_with_a_deep_copying_map_key_instance"] = withKeys
			cov["component_positions_with_mutable_component"] = map[string]any{
				"positions_required": len(want), "positions_missing": missing, "least_exercised": minName, "least_exercised_values": minVal,
				"tuple_positions_required": 230,
			}
			if m.Cases > 0 {
				cov["values_per_expression"] = float64(int(float64(m.Cases)/float64(len(table))*10)) / 10
			}
		},
	})
}
