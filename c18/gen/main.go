// Generator for /verif/c18/exprs_gen.go: the table of Clone instance expressions (Go source,
// because Go generics cannot be instantiated at run time).  Deterministic: a fixed PRNG seed,
// no time, no map iteration.  Run from /verif:
//
//	go run ./c18/gen        (writes c18/ex0..ex11/exprs_gen.go and c18/tables_gen.go)
//
// Expression grammar (combinator nesting depth ≤ 5, Given = depth 0):
//
//	E ::= Given[V] | HNil | Ptr(E) | Slice(E) | Seq(E) | GoMap(K, E) | Option(E)
//	    | Tuple2..21(E,…) | HCons(E, HCons(…, HNil)) | Generic(Box|Pair|Rec3, repr E)
//	V ::= int | string | bool | float64 | uint8 | Point | [3]int | fp.Unit
//	K ::= Given[int] | Given[string] | Given[Point] | Tuple2(Given[int], Given[string])
//	    | KM                       (key instances that must deep-copy: the key type holds storage)
//	KM ::= Ptr(Given[int|string|Point]) | Ptr(Ptr(Given[int])) | Ptr(Tuple2(Given[int], Ptr(Given[int])))
//	    | Tuple2(Given[string], Ptr(..)) | Tuple2(Ptr(..), Given[int]) | Tuple3(Ptr, Given, Ptr)
//	    | Option(Ptr(..)) | Tuple2(Given[int], Option(Ptr(..))) | Option(Tuple2(Given[string], Ptr(..)))
//	    | Generic(Pair[string,*int]) (struct key) | Generic(Box[*int]) | Generic(Arr2[*int]) (array key)
//	    | HCons(Ptr(..), HNil) | HCons(Given[string], HCons(Ptr(..), HNil))
//
// plus Generic(Dict[K,V], repr GoMap(K, E)) (named map type) and Generic(Arr2[T], repr Tuple2(E, E)).
package main

import (
	"fmt"
	"go/format"
	"math/rand/v2"
	"os"
	"sort"
	"strings"
)

type node struct {
	kind  string // Given, HNil, Ptr, Slice, Seq, GoMap, Option, TupleN, HCons, Generic
	label string // Given:int, Tuple7, Generic:Box …
	typ   string // Go type of the cloned value
	expr  string // Go expression of type fp.Clone[typ]
	kids  []*node
	depth int
}

func given(t string) *node {
	return &node{kind: "Given", label: "Given:" + t, typ: t, expr: "clone.Given[" + t + "]()"}
}

func hnil() *node {
	return &node{kind: "HNil", label: "HNil", typ: "hlist.Nil", expr: "clone.HNil"}
}

func maxDepth(ns ...*node) int {
	d := 0
	for _, n := range ns {
		if n.depth > d {
			d = n.depth
		}
	}
	return d
}

func ptr(x *node) *node {
	return &node{kind: "Ptr", label: "Ptr", typ: "*" + x.typ, kids: []*node{x}, depth: x.depth + 1,
		expr: fmt.Sprintf("clone.Ptr[%s](lazy.Done[fp.Clone[%s]](%s))", x.typ, x.typ, x.expr)}
}
func slice(x *node) *node {
	return &node{kind: "Slice", label: "Slice", typ: "[]" + x.typ, kids: []*node{x}, depth: x.depth + 1,
		expr: fmt.Sprintf("clone.Slice[%s](%s)", x.typ, x.expr)}
}
func seq(x *node) *node {
	return &node{kind: "Seq", label: "Seq", typ: "fp.Seq[" + x.typ + "]", kids: []*node{x}, depth: x.depth + 1,
		expr: fmt.Sprintf("clone.Seq[%s](%s)", x.typ, x.expr)}
}
func gomap(k, x *node) *node {
	return &node{kind: "GoMap", label: "GoMap", typ: "map[" + k.typ + "]" + x.typ, kids: []*node{k, x}, depth: maxDepth(k, x) + 1,
		expr: fmt.Sprintf("clone.GoMap[%s, %s](%s, %s)", k.typ, x.typ, k.expr, x.expr)}
}
func option(x *node) *node {
	return &node{kind: "Option", label: "Option", typ: "fp.Option[" + x.typ + "]", kids: []*node{x}, depth: x.depth + 1,
		expr: fmt.Sprintf("clone.Option[%s](%s)", x.typ, x.expr)}
}
func typs(xs []*node) string {
	s := make([]string, len(xs))
	for i, x := range xs {
		s[i] = x.typ
	}
	return strings.Join(s, ", ")
}
func exprs(xs []*node) string {
	s := make([]string, len(xs))
	for i, x := range xs {
		s[i] = x.expr
	}
	return strings.Join(s, ", ")
}
func tuple(xs ...*node) *node {
	n := len(xs)
	return &node{kind: "Tuple", label: fmt.Sprintf("Tuple%d", n), typ: fmt.Sprintf("fp.Tuple%d[%s]", n, typs(xs)), kids: xs, depth: maxDepth(xs...) + 1,
		expr: fmt.Sprintf("clone.Tuple%d[%s](%s)", n, typs(xs), exprs(xs))}
}
func hcons(h, t *node) *node {
	return &node{kind: "HCons", label: "HCons", typ: "hlist.Cons[" + h.typ + ", " + t.typ + "]", kids: []*node{h, t}, depth: maxDepth(h, t) + 1,
		expr: fmt.Sprintf("clone.HCons[%s, %s](%s, %s)", h.typ, t.typ, h.expr, t.expr)}
}
func hlistOf(xs ...*node) *node {
	t := hnil()
	for i := len(xs) - 1; i >= 0; i-- {
		t = hcons(xs[i], t)
		// an hlist is one product: its depth is that of a tuple of the same components
		t.depth = maxDepth(xs[i:]...) + 1
	}
	return t
}

// Generic over the harness structs Box[T] (repr HCons[T,HNil]), Pair[A,B] (repr Tuple2[A,B]),
// Rec3[A,B,C] (repr HCons[A,HCons[B,HCons[C,HNil]]]).
func genericBox(x *node) *node {
	r := hlistOf(x)
	return &node{kind: "Generic", label: "Generic:Box", typ: "tbl.Box[" + x.typ + "]", kids: []*node{r}, depth: r.depth + 1,
		expr: fmt.Sprintf("clone.Generic[tbl.Box[%s], %s](tbl.BoxGeneric[%s](), %s)", x.typ, r.typ, x.typ, r.expr)}
}
func genericPair(a, b *node) *node {
	r := tuple(a, b)
	return &node{kind: "Generic", label: "Generic:Pair", typ: "tbl.Pair[" + a.typ + ", " + b.typ + "]", kids: []*node{r}, depth: r.depth + 1,
		expr: fmt.Sprintf("clone.Generic[tbl.Pair[%s, %s], %s](tbl.PairGeneric[%s, %s](), %s)", a.typ, b.typ, r.typ, a.typ, b.typ, r.expr)}
}
func genericRec3(a, b, c *node) *node {
	r := hlistOf(a, b, c)
	ts := typs([]*node{a, b, c})
	return &node{kind: "Generic", label: "Generic:Rec3", typ: "tbl.Rec3[" + ts + "]", kids: []*node{r}, depth: r.depth + 1,
		expr: fmt.Sprintf("clone.Generic[tbl.Rec3[%s], %s](tbl.Rec3Generic[%s](), %s)", ts, r.typ, ts, r.expr)}
}

func genericBag(x *node) *node {
	r := slice(x)
	return &node{kind: "Generic", label: "Generic:Bag", typ: "tbl.Bag[" + x.typ + "]", kids: []*node{r}, depth: r.depth + 1,
		expr: fmt.Sprintf("clone.Generic[tbl.Bag[%s], %s](tbl.BagGeneric[%s](), %s)", x.typ, r.typ, x.typ, r.expr)}
}

func genericDict(k, x *node) *node {
	r := gomap(k, x)
	return &node{kind: "Generic", label: "Generic:Dict", typ: "tbl.Dict[" + k.typ + ", " + x.typ + "]", kids: []*node{r}, depth: r.depth + 1,
		expr: fmt.Sprintf("clone.Generic[tbl.Dict[%s, %s], %s](tbl.DictGeneric[%s, %s](), %s)", k.typ, x.typ, r.typ, k.typ, x.typ, r.expr)}
}

func genericArr2(x *node) *node {
	r := tuple(x, x)
	return &node{kind: "Generic", label: "Generic:Arr2", typ: "tbl.Arr2[" + x.typ + "]", kids: []*node{r}, depth: r.depth + 1,
		expr: fmt.Sprintf("clone.Generic[tbl.Arr2[%s], %s](tbl.Arr2Generic[%s](), %s)", x.typ, r.typ, x.typ, r.expr)}
}

// mutableKeys: key instances whose key type holds mutable storage (comparable types that are
// or contain pointers), so that clone.GoMap's KEY instance has to deep-copy: pointer keys,
// pointer-to-struct keys, pointers nested in tuple / option / hlist keys, struct and array keys
// (through Generic), pointer to pointer, pointer to a struct that holds a pointer.
var mutableKeys = []func() *node{
	func() *node { return ptr(given("int")) },
	func() *node { return tuple(given("string"), ptr(given("int"))) },
	func() *node { return ptr(given("tbl.Point")) },
	func() *node { return option(ptr(given("int"))) },
	func() *node { return genericPair(given("string"), ptr(given("int"))) },
	func() *node { return genericArr2(ptr(given("int"))) },
	func() *node { return ptr(given("string")) },
	func() *node { return tuple(ptr(given("int")), given("int")) },
	func() *node { return hlistOf(ptr(given("int"))) },
	func() *node { return ptr(ptr(given("int"))) },
	func() *node { return tuple(given("int"), option(ptr(given("string")))) },
	func() *node { return genericBox(ptr(given("int"))) },
	func() *node { return hlistOf(given("string"), ptr(given("int"))) },
	func() *node { return ptr(tuple(given("int"), ptr(given("int")))) },
	func() *node { return tuple(ptr(given("int")), given("string"), ptr(given("string"))) },
	func() *node { return option(tuple(given("string"), ptr(given("int")))) },
}

var valueTypes = []string{"int", "string", "bool", "float64", "uint8", "tbl.Point", "[3]int", "fp.Unit"}

// keyInst: a key instance for a map that may use combinator depth d in total (the map itself
// counts one); about a third of the maps get a key instance that has to deep-copy.
func keyInst(r *rand.Rand, d int) *node {
	if r.IntN(3) == 0 {
		for tries := 0; tries < 8; tries++ {
			k := mutableKeys[r.IntN(len(mutableKeys))]()
			if k.depth <= d-1 {
				return k
			}
		}
	}
	switch r.IntN(6) {
	case 0, 1:
		return given("int")
	case 2, 3:
		return given("string")
	case 4:
		return given("tbl.Point")
	}
	return tuple(given("int"), given("string"))
}

func leaf(r *rand.Rand) *node {
	if r.IntN(12) == 0 {
		return hnil()
	}
	// int and string most often: they make aliasing pools meet
	switch r.IntN(4) {
	case 0:
		return given("int")
	case 1:
		return given("string")
	}
	return given(valueTypes[r.IntN(len(valueTypes))])
}

// random expression of combinator depth exactly ≤ d (tends to use the budget)
func random(r *rand.Rand, d int) *node {
	if d <= 0 {
		return leaf(r)
	}
	sub := func() *node {
		// mostly spend the whole remaining budget on one spine, siblings get less
		return random(r, d-1)
	}
	shallow := func() *node { return random(r, r.IntN(d)) }
	switch c := r.IntN(100); {
	case c < 18:
		return ptr(sub())
	case c < 32:
		return slice(sub())
	case c < 44:
		return seq(sub())
	case c < 58:
		return gomap(keyInst(r, d), sub())
	case c < 68:
		return option(sub())
	case c < 80:
		n := 2 + r.IntN(3)
		if r.IntN(8) == 0 {
			n = 5 + r.IntN(3)
		}
		xs := make([]*node, n)
		spine := r.IntN(n)
		for i := range xs {
			if i == spine {
				xs[i] = sub()
			} else if n > 5 {
				xs[i] = random(r, min(d-1, r.IntN(2)))
			} else {
				xs[i] = shallow2(r, d-1)
			}
		}
		return tuple(xs...)
	case c < 90:
		n := 1 + r.IntN(4)
		xs := make([]*node, n)
		spine := r.IntN(n)
		for i := range xs {
			if i == spine {
				xs[i] = sub()
			} else {
				xs[i] = shallow2(r, d-1)
			}
		}
		return hlistOf(xs...)
	default:
		switch r.IntN(4) {
		case 0:
			return genericBox(sub())
		case 1:
			return genericPair(sub(), shallow2(r, d-1))
		case 2:
			return genericBag(sub())
		}
		_ = shallow
		return genericRec3(shallow2(r, d-1), sub(), shallow2(r, d-1))
	}
}

func shallow2(r *rand.Rand, d int) *node {
	if d <= 0 {
		return leaf(r)
	}
	return random(r, r.IntN(d+1))
}

// the mutable component types cycled through tuple / hlist positions so that every position
// holds something that must be deep-copied
func mutableComp(i int) *node {
	switch i % 12 {
	case 8:
		return gomap(ptr(given("int")), given("int")) // storage only behind the keys
	case 9:
		return genericBox(ptr(given("int")))
	case 10:
		return hlistOf(ptr(given("int")))
	case 11:
		return gomap(tuple(given("string"), ptr(given("int"))), slice(given("int")))
	case 0:
		return ptr(given("int"))
	case 1:
		return slice(given("int"))
	case 2:
		return gomap(given("string"), given("int"))
	case 3:
		return seq(given("string"))
	case 4:
		return option(ptr(given("string")))
	case 5:
		return ptr(slice(given("int")))
	case 6:
		return slice(ptr(given("int")))
	}
	return gomap(given("int"), ptr(given("int")))
}

func size(n *node) int {
	s := 1
	for _, k := range n.kids {
		s += size(k)
	}
	return s
}

func tree(n *node) string {
	if len(n.kids) == 0 {
		return fmt.Sprintf("tbl.N(%q)", n.label)
	}
	ks := make([]string, len(n.kids))
	for i, k := range n.kids {
		ks[i] = tree(k)
	}
	return fmt.Sprintf("tbl.N(%q, %s)", n.label, strings.Join(ks, ", "))
}

func name(n *node) string {
	if len(n.kids) == 0 {
		return strings.TrimPrefix(strings.TrimPrefix(n.label, "Given:"), "tbl.")
	}
	ks := make([]string, len(n.kids))
	for i, k := range n.kids {
		ks[i] = name(k)
	}
	return n.label + "(" + strings.Join(ks, ",") + ")"
}

func main() {
	r := rand.New(rand.NewPCG(18, 2024))
	var all []*node
	seen := map[string]bool{}
	add := func(n *node) {
		if n.depth > 5 || seen[n.expr] {
			return
		}
		seen[n.expr] = true
		all = append(all, n)
	}

	// 1. leaves on their own
	for _, t := range valueTypes {
		add(given(t))
	}
	add(hnil())

	// 2. every parent directly over every child (pairs), over two leaf types
	unary := []func(*node) *node{
		ptr, slice, seq,
		func(x *node) *node { return gomap(given("string"), x) },
		func(x *node) *node { return gomap(given("int"), x) },
		option,
		func(x *node) *node { return tuple(given("int"), x) },
		func(x *node) *node { return tuple(x, given("string")) },
		func(x *node) *node { return hlistOf(x) },
		func(x *node) *node { return hlistOf(given("bool"), x) },
		genericBox,
		genericBag,
		func(x *node) *node { return genericPair(given("int"), x) },
		func(x *node) *node { return genericRec3(x, given("string"), given("int")) },
	}
	for li, lf := range []*node{given("int"), given("string"), given("tbl.Point"), hnil()} {
		for _, p := range unary {
			add(p(lf))
			if li > 0 {
				continue // the full parent x child square only over int
			}
			for _, c := range unary {
				add(p(c(lf)))
			}
		}
	}
	// 3. all triples of the four storage-allocating combinators plus Option
	core := []func(*node) *node{ptr, slice, seq, func(x *node) *node { return gomap(given("string"), x) }, option}
	for _, a := range core {
		for _, b := range core {
			for _, c := range core {
				add(a(b(c(given("int")))))
			}
		}
	}
	// 4. every tuple arity: (a) every position mutable, (b) one deep component at a moving
	// position among value components, (c) random components
	for n := 2; n <= 21; n++ {
		xs := make([]*node, n)
		for i := range xs {
			xs[i] = mutableComp(i + n)
		}
		add(tuple(xs...))
		ys := make([]*node, n)
		for i := range ys {
			ys[i] = given(valueTypes[(i+n)%len(valueTypes)])
		}
		ys[(n*7)%n] = ptr(slice(ptr(given("int"))))
		ys[(n*5+1)%n] = gomap(given("string"), slice(given("string")))
		add(tuple(ys...))
		if n <= 8 {
			zs := make([]*node, n)
			for i := range zs {
				zs[i] = random(r, r.IntN(3))
			}
			add(tuple(zs...))
		}
		// the tuple under a pointer and in a slice
		ws := make([]*node, n)
		for i := range ws {
			ws[i] = mutableComp(i*3 + n)
		}
		if n <= 6 {
			add(ptr(tuple(ws...)))
			add(slice(tuple(ws...)))
		}
	}
	// 5. hlists of every length 1..8 with mutable components
	for n := 1; n <= 8; n++ {
		xs := make([]*node, n)
		for i := range xs {
			xs[i] = mutableComp(i + n)
		}
		add(hlistOf(xs...))
		add(ptr(hlistOf(xs...)))
	}
	// 6. the design's example and friends: depth 5 spines
	add(ptr(slice(ptr(gomap(given("string"), option(given("int")))))))
	add(ptr(slice(ptr(gomap(given("string"), ptr(given("int")))))))
	add(slice(slice(slice(slice(slice(given("int")))))))
	add(ptr(ptr(ptr(ptr(ptr(given("int")))))))
	add(gomap(given("int"), gomap(given("string"), gomap(given("tbl.Point"), slice(ptr(given("int")))))))
	add(option(option(option(ptr(option(given("string")))))))
	add(seq(seq(ptr(seq(ptr(given("string")))))))
	add(ptr(hnil()))
	add(slice(hnil()))
	add(ptr(given("fp.Unit")))
	add(gomap(tuple(given("int"), given("string")), ptr(given("int"))))
	// 7. component positions that the sections above never fill with a component that needs a
	// deep copy: Generic:Pair field A, Generic:Rec3 fields B and C, every field at once, an
	// hlist head next to a mutable tail, Option / Seq / Slice directly over maps
	mp, ms := func() *node { return ptr(given("int")) }, func() *node { return slice(given("string")) }
	add(genericPair(mp(), given("int")))
	add(genericPair(mp(), ms()))
	add(genericRec3(given("int"), mp(), given("string")))
	add(genericRec3(given("int"), given("string"), ms()))
	add(genericRec3(mp(), ms(), gomap(given("string"), mp())))
	add(genericArr2(mp()))
	add(genericArr2(ms()))
	add(genericArr2(given("int")))
	add(ptr(genericArr2(slice(mp()))))
	add(hcons(mp(), hcons(ms(), hnil())))
	add(hcons(gomap(given("int"), mp()), hlistOf(given("int"), seq(mp()))))
	add(genericDict(given("string"), given("int")))
	add(genericDict(given("string"), mp()))
	add(genericDict(given("int"), ms()))
	add(ptr(genericDict(given("string"), slice(mp()))))
	add(genericBox(genericBox(mp())))
	add(genericBag(genericBag(given("int"))))
	add(genericBag(gomap(given("string"), mp())))
	add(option(genericPair(ms(), mp())))
	add(seq(genericRec3(mp(), given("int"), ms())))

	// 8. KEY instances that must deep-copy (the key type holds storage), at several depths
	for ki, mk := range mutableKeys {
		k := mk
		add(gomap(k(), given("int")))
		add(gomap(k(), slice(given("int"))))
		add(gomap(k(), ptr(given("string"))))
		add(genericDict(k(), given("int")))
		// the map as a map value, keys needing a deep copy on both levels / on the inner level only
		add(gomap(k(), gomap(mutableKeys[(ki+1)%len(mutableKeys)](), given("int"))))
		add(gomap(given("string"), gomap(k(), ptr(given("int")))))
		if ki < 8 {
			// below every other combinator
			for _, p := range unary {
				add(p(gomap(k(), given("int"))))
			}
			add(genericDict(k(), slice(ptr(given("int")))))
		}
		// depth 3..5 spines ending in / passing through such a map
		add(ptr(slice(gomap(k(), option(ptr(given("int")))))))
		add(slice(ptr(seq(gomap(k(), given("int"))))))
		add(option(ptr(gomap(k(), slice(given("int"))))))
		add(gomap(given("int"), gomap(given("string"), gomap(k(), given("int")))))
		add(seq(option(ptr(slice(gomap(k(), given("string")))))))
		add(tuple(given("int"), gomap(k(), ptr(given("int"))), slice(gomap(k(), given("string")))))
		add(hlistOf(gomap(k(), given("int")), ptr(gomap(k(), given("bool")))))
	}

	// 9. random expressions, depth budget 2..5
	target := 900
	for tries := 0; len(all) < target && tries < 100000; tries++ {
		d := 3 + r.IntN(3)
		n := random(r, d)
		if n.depth < 3 || size(n) > 40 {
			continue
		}
		add(n)
	}

	emit(all)
}

const packages = 12

func emit(all []*node) {
	dir := "c18"
	if len(os.Args) > 1 {
		dir = os.Args[1]
	}
	// balance the packages by expression size (greedy, deterministic)
	idx := make([]int, len(all))
	for i := range idx {
		idx[i] = i
	}
	sort.SliceStable(idx, func(i, j int) bool { return size(all[idx[i]]) > size(all[idx[j]]) })
	load := make([]int, packages)
	bins := make([][]*node, packages)
	for _, i := range idx {
		best := 0
		for p := 1; p < packages; p++ {
			if load[p] < load[best] {
				best = p
			}
		}
		bins[best] = append(bins[best], all[i])
		load[best] += size(all[i])
	}
	total := 0
	for p := 0; p < packages; p++ {
		var b strings.Builder
		fmt.Fprintf(&b, "// Code generated by verif/c18/gen; DO NOT EDIT.\n// Regenerate: cd /verif && go run ./c18/gen\n\npackage ex%d\n\n", p)
		b.WriteString("import (\n\t\"verif/c18/tbl\"\n\n\t\"github.com/csgura/fp\"\n\t\"github.com/csgura/fp/clone\"\n\t\"github.com/csgura/fp/hlist\"\n\t\"github.com/csgura/fp/lazy\"\n)\n\n")
		b.WriteString("var _ = hlist.Empty\nvar _ fp.Unit\nvar _ = lazy.Done[int]\n\n")
		const per = 30
		nf := 0
		for i := 0; i < len(bins[p]); i += per {
			fmt.Fprintf(&b, "func exprs%d() {\n", nf)
			for _, n := range bins[p][i:min(i+per, len(bins[p]))] {
				fmt.Fprintf(&b, "\ttbl.Mk[%s](%q, %d, %s,\n\t\t%s)\n", n.typ, name(n), n.depth, tree(n), n.expr)
				total++
			}
			b.WriteString("}\n\n")
			nf++
		}
		b.WriteString("func init() {\n")
		for i := 0; i < nf; i++ {
			fmt.Fprintf(&b, "\texprs%d()\n", i)
		}
		b.WriteString("}\n")
		d := fmt.Sprintf("%s/ex%d", dir, p)
		os.MkdirAll(d, 0o755)
		src, err := format.Source([]byte(b.String()))
		if err != nil {
			fmt.Fprintln(os.Stderr, "gofmt:", err)
			src = []byte(b.String())
		}
		if err := os.WriteFile(d+"/exprs_gen.go", src, 0o644); err != nil {
			fmt.Fprintln(os.Stderr, err)
			os.Exit(1)
		}
	}
	var b strings.Builder
	b.WriteString("// Code generated by verif/c18/gen; DO NOT EDIT.\n\npackage main\n\nimport (\n")
	for p := 0; p < packages; p++ {
		fmt.Fprintf(&b, "\t_ \"verif/c18/ex%d\"\n", p)
	}
	b.WriteString("\t_ \"verif/c18/exf\"\n")
	b.WriteString(")\n")
	forks := emitForks(dir)
	tsrc, err := format.Source([]byte(b.String()))
	if err != nil {
		tsrc = []byte(b.String())
	}
	os.WriteFile(dir+"/tables_gen.go", tsrc, 0o644)
	fmt.Fprintf(os.Stderr, "c18/gen: %d expressions in %d packages (sizes %v) + %d fork expressions in exf\n", total, packages, load, forks)
}
